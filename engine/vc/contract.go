package vc

import (
	"fmt"
	"go/ast"
	"go/parser"
	"go/token"
	"go/types"
	"os"
	"regexp"
	"strconv"
	"strings"

	"golang.org/x/tools/go/ssa"
)

// Clause is one requires / ensures / invariant line of a contract.
type Clause struct {
	Name  string
	Text  string
	Props []string // properties this clause decides (default: the contract's option props)
}

type NamedFormula struct {
	Name    string
	Formula string
	Props   []string // properties this obligation decides
}

// Contract of one function. Text clauses come from the //@ comment files in
// /repo; hooks are used by instantiated families (emitted code) whose clause
// text names an engine-expanded spec function.
type Contract struct {
	Name     string // function key (ssa String())
	File     string
	Line     int
	Emitted  bool // family contract for emitted code
	Requires []*Clause
	Ensures  []*Clause
	LoopInv  map[int][]*Clause
	LoopDec  map[int]*Clause
	Decreases *Clause
	Pure     bool            // no writes, no events
	PureFunc bool            // result is a function of the arguments
	Modifies map[string]bool // explicit frame (heap keys); nil = computed
	TraceSpecified bool
	Options  map[string]string

	ParamNames  []string // from the contract header (positional)
	ResultNames []string

	PreHook  func(e *FuncEnc, args []string) []NamedFormula
	// ArgHook: call-site obligations that depend on the shape of the argument
	// expressions (checked at every call, not assumed in the body)
	ArgHook func(e *FuncEnc, argVals []ssa.Value, args []string) []NamedFormula
	PostHook func(e *FuncEnc, args, results []string, pre, post *state) []NamedFormula
	// RetHook produces extra ensures obligations at each return of the function itself.
	RetHook func(e *FuncEnc, results []string) []NamedFormula
	// LoopHook adds engine-built invariants for loop #ord.
	LoopHook func(e *FuncEnc, ord int, env *cenv) []NamedFormula
}

var reFunc = regexp.MustCompile(`^(emitted\s+)?func\s+(.*)$`)

// ParseContractFile reads the //@ lines of a comment-only Go file.
//
//	//@ func <qualified name as printed by ssa, or pkg-relative name>
//	//@   requires <expr>
//	//@   ensures <expr>
//	//@   loop #0 invariant <expr>
//	//@   loop #0 decreases <expr>
//	//@   decreases <expr>
//	//@   pure | purefunc | option k=v
func ParseContractFile(path string, pkgPath string) ([]*Contract, error) {
	data, err := os.ReadFile(path)
	if err != nil {
		return nil, err
	}
	var out []*Contract
	var cur *Contract
	counts := map[string]int{}
	for ln, line := range strings.Split(string(data), "\n") {
		line = strings.TrimSpace(line)
		if !strings.HasPrefix(line, "//@") {
			continue
		}
		body := strings.TrimSpace(line[3:])
		if i := strings.Index(body, " //"); i >= 0 && !strings.Contains(body[:i], `"`) {
			body = strings.TrimSpace(body[:i])
		}
		if body == "" {
			continue
		}
		if m := reFunc.FindStringSubmatch(body); m != nil {
			name, pnames, rnames := parseHeader(strings.TrimSpace(m[2]))
			cur = &Contract{ParamNames: pnames, ResultNames: rnames, Name: qualify(name, pkgPath), File: path, Line: ln + 1, Emitted: m[1] != "", LoopInv: map[int][]*Clause{}, LoopDec: map[int]*Clause{}, Options: map[string]string{}}
			out = append(out, cur)
			counts = map[string]int{}
			continue
		}
		if cur == nil {
			continue
		}
		kw, rest, _ := strings.Cut(body, " ")
		rest = strings.TrimSpace(rest)
		var cprops []string
		if i := strings.Index(kw, "["); i > 0 && strings.HasSuffix(kw, "]") {
			cprops = strings.Split(kw[i+1:len(kw)-1], ",")
			kw = kw[:i]
		}
		mk := func(kind string) *Clause {
			n := counts[kind]
			counts[kind]++
			return &Clause{Name: fmt.Sprintf("%s#%d", kind, n), Text: rest, Props: cprops}
		}
		switch kw {
		case "requires":
			cur.Requires = append(cur.Requires, mk("requires"))
		case "ensures":
			cur.Ensures = append(cur.Ensures, mk("ensures"))
		case "decreases":
			cur.Decreases = mk("decreases")
		case "pure":
			cur.Pure = true
		case "purefunc":
			cur.PureFunc = true
		case "option":
			k, v, _ := strings.Cut(rest, "=")
			cur.Options[strings.TrimSpace(k)] = strings.TrimSpace(v)
		case "loop":
			// loop #n invariant|decreases expr
			parts := strings.SplitN(rest, " ", 3)
			if len(parts) < 3 || !strings.HasPrefix(parts[0], "#") {
				return nil, fmt.Errorf("%s:%d: bad loop clause", path, ln+1)
			}
			n, _ := strconv.Atoi(parts[0][1:])
			cl := &Clause{Name: fmt.Sprintf("loop%d/%s#%d", n, parts[1], len(cur.LoopInv[n])), Text: parts[2]}
			switch parts[1] {
			case "invariant":
				cur.LoopInv[n] = append(cur.LoopInv[n], cl)
			case "decreases":
				cur.LoopDec[n] = cl
			}
		default:
			return nil, fmt.Errorf("%s:%d: unknown contract keyword %q", path, ln+1, kw)
		}
	}
	return out, nil
}

// parseHeader splits "NAME(params) (results)" / "(RECV).NAME(params) results".
func parseHeader(h string) (name string, params, results []string) {
	i := 0
	if strings.HasPrefix(h, "(") {
		i = strings.Index(h, ")") + 1
	}
	j := strings.Index(h[i:], "(")
	if j < 0 {
		return h, nil, nil
	}
	name = strings.TrimSpace(h[:i+j])
	sig := h[i+j:]
	fd, err := parser.ParseExpr("func" + sig + "{}")
	if err != nil {
		return name, nil, nil
	}
	fl, ok := fd.(*ast.FuncLit)
	if !ok {
		return name, nil, nil
	}
	collect := func(l *ast.FieldList) []string {
		var out []string
		if l == nil {
			return nil
		}
		for _, f := range l.List {
			if len(f.Names) == 0 {
				out = append(out, "_")
			}
			for _, n := range f.Names {
				out = append(out, n.Name)
			}
		}
		return out
	}
	return name, collect(fl.Type.Params), collect(fl.Type.Results)
}

func qualify(name, pkgPath string) string {
	// names are written as ssa prints them but package-relative:
	//   NewPath, (*Route).add, (Generator).Generate
	if pkgPath == "" || strings.Contains(name, "/") {
		return name
	}
	if strings.HasPrefix(name, "(*") {
		return "(*" + pkgPath + "." + name[2:]
	}
	if strings.HasPrefix(name, "(") {
		return "(" + pkgPath + "." + name[1:]
	}
	return pkgPath + "." + name
}

// ---------------------------------------------------------------- expression translation

type tv struct {
	s   string
	t   types.Type // may be nil for ghost values
	srt string
}

type cenv struct {
	e    *FuncEnc
	vars map[string]tv
	st   *state
	old  *state
}

func (e *FuncEnc) calleeEnv(f *ssa.Function, c *Contract, bindings []ssa.Value, args []string, st *state) *cenv {
	env := &cenv{e: e, vars: map[string]tv{}, st: st, old: st}
	off := 0
	if f.Signature.Recv() != nil {
		off = 1
	}
	for i, p := range f.Params {
		if i < len(args) {
			env.vars[p.Name()] = tv{s: args[i], t: p.Type(), srt: e.D.SortOf(p.Type())}
			if c != nil && i-off >= 0 && i-off < len(c.ParamNames) && c.ParamNames[i-off] != "_" {
				env.vars[c.ParamNames[i-off]] = env.vars[p.Name()]
			}
		}
	}
	for i, fv := range f.FreeVars {
		if i < len(bindings) {
			env.vars[fv.Name()] = tv{s: e.v(bindings[i]), t: fv.Type(), srt: e.D.SortOf(fv.Type())}
		}
	}
	return env
}

func (env *cenv) bindResults(f *ssa.Function, results []string) {
	rs := f.Signature.Results()
	var c *Contract
	if env.e.W != nil {
		c = env.e.W.ContractFor(f)
	}
	for i := 0; i < rs.Len() && i < len(results); i++ {
		v := tv{s: results[i], t: rs.At(i).Type(), srt: env.e.D.SortOf(rs.At(i).Type())}
		if c != nil && i < len(c.ResultNames) && c.ResultNames[i] != "_" {
			env.vars[c.ResultNames[i]] = v
		}
		if n := rs.At(i).Name(); n != "" && n != "_" {
			env.vars[n] = v
		}
		env.vars[fmt.Sprintf("result%d", i)] = v
		if rs.Len() == 1 {
			env.vars["result"] = v
		}
		if isErrorType(rs.At(i).Type()) {
			env.vars["err"] = v
		}
	}
}

func isErrorType(t types.Type) bool {
	n, ok := t.(*types.Named)
	return ok && n.Obj().Pkg() == nil && n.Obj().Name() == "error"
}

// formula translates a clause to a Bool term.
func (env *cenv) formula(cl *Clause) (string, error) {
	return env.formulaText(cl.Text)
}

func (env *cenv) formulaText(text string) (string, error) {
	// quantifier prefix:  forall i in lo..hi: body   (lo <= i < hi)
	text = strings.TrimSpace(text)
	if strings.HasPrefix(text, "forall ") {
		head, body, ok := cutTop(text, ":")
		if !ok {
			return "", fmt.Errorf("forall without ':'")
		}
		m := regexp.MustCompile(`^forall\s+(\w+)\s+in\s+(.+)\.\.(.+)$`).FindStringSubmatch(strings.TrimSpace(head))
		if m == nil {
			return "", fmt.Errorf("bad forall head %q", head)
		}
		lo, err := env.expr(m[2])
		if err != nil {
			return "", err
		}
		hi, err := env.expr(m[3])
		if err != nil {
			return "", err
		}
		bv := "q_" + m[1]
		saved, had := env.vars[m[1]]
		env.vars[m[1]] = tv{s: bv, t: types.Typ[types.Int], srt: "Int"}
		b, err := env.formulaText(body)
		if had {
			env.vars[m[1]] = saved
		} else {
			delete(env.vars, m[1])
		}
		if err != nil {
			return "", err
		}
		return fmt.Sprintf("(forall ((%s Int)) (=> (and (<= %s %s) (< %s %s)) %s))", bv, lo.s, bv, bv, hi.s, b), nil
	}
	if strings.HasPrefix(text, "forallstr ") {
		head, body, ok := cutTop(text, ":")
		if !ok {
			return "", fmt.Errorf("forallstr without ':'")
		}
		name := strings.TrimSpace(strings.TrimPrefix(strings.TrimSpace(head), "forallstr"))
		bv := "qs_" + name
		saved, had := env.vars[name]
		env.vars[name] = tv{s: bv, t: types.Typ[types.String], srt: "Str"}
		b, err := env.formulaText(body)
		if had {
			env.vars[name] = saved
		} else {
			delete(env.vars, name)
		}
		if err != nil {
			return "", err
		}
		pat := ""
		if _, used := env.e.heapSorts[fsKey]; used {
			pat = fmt.Sprintf(" :pattern ((select %s %s))", env.e.fsNow(env.st), bv)
		}
		if pat != "" {
			return fmt.Sprintf("(forall ((%s Str)) (! %s%s))", bv, b, pat), nil
		}
		return fmt.Sprintf("(forall ((%s Str)) %s)", bv, b), nil
	}
	// implication (lowest precedence, right associative)
	if l, r, ok := cutTop(text, "==>"); ok {
		a, err := env.formulaText(l)
		if err != nil {
			return "", err
		}
		b, err := env.formulaText(r)
		if err != nil {
			return "", err
		}
		return implies(a, b), nil
	}
	v, err := env.expr(text)
	if err != nil {
		return "", err
	}
	if v.srt != "Bool" {
		return "", fmt.Errorf("clause %q is not boolean (%s)", text, v.srt)
	}
	return v.s, nil
}

// cutTop splits at the first top-level occurrence of sep (outside brackets and strings).
func cutTop(s, sep string) (string, string, bool) {
	depth := 0
	inStr := byte(0)
	for i := 0; i+len(sep) <= len(s); i++ {
		c := s[i]
		if inStr != 0 {
			if c == '\\' {
				i++
			} else if c == inStr {
				inStr = 0
			}
			continue
		}
		switch c {
		case '"', '\'', '`':
			inStr = c
			continue
		case '(', '[', '{':
			depth++
		case ')', ']', '}':
			depth--
		}
		if depth == 0 && strings.HasPrefix(s[i:], sep) {
			return s[:i], s[i+len(sep):], true
		}
	}
	return s, "", false
}

func (env *cenv) expr(text string) (tv, error) {
	x, err := parser.ParseExpr(text)
	if err != nil {
		return tv{}, fmt.Errorf("parse %q: %v", text, err)
	}
	return env.tr(x)
}

func (env *cenv) tr(x ast.Expr) (tv, error) {
	e := env.e
	switch n := x.(type) {
	case *ast.ParenExpr:
		return env.tr(n.X)
	case *ast.Ident:
		switch n.Name {
		case "true", "false":
			return tv{s: n.Name, t: types.Typ[types.Bool], srt: "Bool"}, nil
		case "nil":
			return tv{s: "nil", srt: "nil"}, nil
		case "trace":
			return tv{s: env.st.trace, srt: "Trace"}, nil
		}
		if v, ok := env.vars[n.Name]; ok {
			return v, nil
		}
		if sf, ok := specConsts[n.Name]; ok {
			return sf(env)
		}
		if rv := env.e.Fn.Signature.Recv(); rv != nil && n.Name == rv.Name() && len(env.e.Fn.Params) > 0 {
			p := env.e.Fn.Params[0]
			return tv{s: env.e.val[p], t: p.Type(), srt: env.e.D.SortOf(p.Type())}, nil
		}
		return tv{}, fmt.Errorf("unknown identifier %q", n.Name)
	case *ast.BasicLit:
		switch n.Kind {
		case token.INT:
			return tv{s: n.Value, t: types.Typ[types.Int], srt: "Int"}, nil
		case token.STRING:
			s, err := strconv.Unquote(n.Value)
			if err != nil {
				return tv{}, err
			}
			return tv{s: e.D.Lit(s), t: types.Typ[types.String], srt: "Str"}, nil
		case token.CHAR:
			r, _, _, err := strconv.UnquoteChar(n.Value[1:len(n.Value)-1], '\'')
			if err != nil {
				return tv{}, err
			}
			return tv{s: itoa(int64(r)), t: types.Typ[types.Int], srt: "Int"}, nil
		}
	case *ast.UnaryExpr:
		v, err := env.tr(n.X)
		if err != nil {
			return tv{}, err
		}
		switch n.Op {
		case token.NOT:
			return tv{s: not(v.s), t: v.t, srt: "Bool"}, nil
		case token.SUB:
			return tv{s: sx("-", v.s), t: v.t, srt: v.srt}, nil
		}
	case *ast.BinaryExpr:
		a, err := env.tr(n.X)
		if err != nil {
			return tv{}, err
		}
		b, err := env.tr(n.Y)
		if err != nil {
			return tv{}, err
		}
		switch n.Op {
		case token.LAND:
			return tv{s: and(a.s, b.s), srt: "Bool"}, nil
		case token.LOR:
			return tv{s: or(a.s, b.s), srt: "Bool"}, nil
		case token.EQL, token.NEQ:
			s := env.eqTV(a, b)
			if n.Op == token.NEQ {
				s = not(s)
			}
			return tv{s: s, srt: "Bool"}, nil
		case token.LSS, token.LEQ, token.GTR, token.GEQ:
			return tv{s: sx(n.Op.String(), a.s, b.s), srt: "Bool"}, nil
		case token.ADD:
			if a.srt == "Str" {
				return tv{s: sx("scat", a.s, b.s), t: a.t, srt: "Str"}, nil
			}
			return tv{s: sx("+", a.s, b.s), t: a.t, srt: a.srt}, nil
		case token.SUB:
			return tv{s: sx("-", a.s, b.s), t: a.t, srt: a.srt}, nil
		case token.MUL:
			return tv{s: sx("*", a.s, b.s), t: a.t, srt: a.srt}, nil
		}
	case *ast.SelectorExpr:
		base, err := env.tr(n.X)
		if err != nil {
			return tv{}, err
		}
		return env.sel(base, n.Sel.Name)
	case *ast.IndexExpr:
		base, err := env.tr(n.X)
		if err != nil {
			return tv{}, err
		}
		idx, err := env.tr(n.Index)
		if err != nil {
			return tv{}, err
		}
		if base.srt == "Str" {
			return tv{s: sx("sat", base.s, idx.s), t: types.Typ[types.Uint8], srt: "Int"}, nil
		}
		if base.srt == "FS" {
			return tv{s: sx("select", base.s, idx.s), srt: "FState"}, nil
		}
		if base.t != nil {
			switch u := base.t.Underlying().(type) {
			case *types.Slice:
				addr := sx("elem", sx("sl_base", base.s), sx("+", sx("sl_off", base.s), idx.s))
				return tv{s: e.load(env.st, addr, u.Elem()), t: u.Elem(), srt: e.D.SortOf(u.Elem())}, nil
			case *types.Map:
				vk, hk, vs, hs, _, _ := e.mapKeys(u)
				_ = hk
				_ = hs
				val := sx("select", sx("select", e.heapName(env.st, vk, vs), base.s), idx.s)
				return tv{s: val, t: u.Elem(), srt: e.D.SortOf(u.Elem())}, nil
			}
		}
		return tv{}, fmt.Errorf("cannot index %s", base.srt)
	case *ast.SliceExpr:
		base, err := env.tr(n.X)
		if err != nil {
			return tv{}, err
		}
		if base.srt != "Str" {
			return tv{}, fmt.Errorf("slicing only for strings in contracts")
		}
		lo, hi := "0", sx("slen", base.s)
		if n.Low != nil {
			v, err := env.tr(n.Low)
			if err != nil {
				return tv{}, err
			}
			lo = v.s
		}
		if n.High != nil {
			v, err := env.tr(n.High)
			if err != nil {
				return tv{}, err
			}
			hi = v.s
		}
		return tv{s: sx("ssub", base.s, lo, hi), t: base.t, srt: "Str"}, nil
	case *ast.CallExpr:
		return env.call(n)
	case *ast.StarExpr:
		p, err := env.tr(n.X)
		if err != nil {
			return tv{}, err
		}
		if p.t != nil {
			if pt, ok := p.t.Underlying().(*types.Pointer); ok {
				return tv{s: e.load(env.st, p.s, pt.Elem()), t: pt.Elem(), srt: e.D.SortOf(pt.Elem())}, nil
			}
		}
	}
	return tv{}, fmt.Errorf("unsupported contract expression %T", x)
}

func (env *cenv) eqTV(a, b tv) string {
	if b.srt == "nil" {
		a, b = b, a
	}
	if a.srt == "nil" {
		switch b.srt {
		case "Iface":
			return eq(sx("if_tag", b.s), "0")
		case "Slice":
			return eq(sx("sl_base", b.s), "0")
		case "nil":
			return "true"
		default:
			return eq(b.s, "0")
		}
	}
	return eq(a.s, b.s)
}

func (env *cenv) sel(base tv, name string) (tv, error) {
	e := env.e
	if base.t == nil {
		return tv{}, fmt.Errorf("selector .%s on ghost value", name)
	}
	t := base.t
	isPtr := false
	if p, ok := t.Underlying().(*types.Pointer); ok {
		t = p.Elem()
		isPtr = true
	}
	st, ok := t.Underlying().(*types.Struct)
	if !ok {
		return tv{}, fmt.Errorf(".%s: not a struct (%s)", name, t)
	}
	for i := 0; i < st.NumFields(); i++ {
		f := st.Field(i)
		if f.Name() == name {
			if isPtr {
				addr := "(" + e.D.FieldAddrFn(t, i) + " " + base.s + ")"
				return tv{s: e.load(env.st, addr, f.Type()), t: f.Type(), srt: e.D.SortOf(f.Type())}, nil
			}
			return tv{s: sx(e.D.FieldSelector(t, i), base.s), t: f.Type(), srt: e.D.SortOf(f.Type())}, nil
		}
	}
	// promoted fields through embedded structs
	for i := 0; i < st.NumFields(); i++ {
		f := st.Field(i)
		if !f.Embedded() {
			continue
		}
		var inner tv
		if isPtr {
			addr := "(" + e.D.FieldAddrFn(t, i) + " " + base.s + ")"
			inner = tv{s: e.load(env.st, addr, f.Type()), t: f.Type(), srt: e.D.SortOf(f.Type())}
		} else {
			inner = tv{s: sx(e.D.FieldSelector(t, i), base.s), t: f.Type(), srt: e.D.SortOf(f.Type())}
		}
		if v, err := env.sel(inner, name); err == nil {
			return v, nil
		}
	}
	return tv{}, fmt.Errorf("no field %s in %s", name, t)
}

// SpecFunc is an engine-implemented spec function usable in contract text.
type SpecFunc func(env *cenv, args []tv, call *ast.CallExpr) (tv, error)

var specFuncs = map[string]SpecFunc{}
var specConsts = map[string]func(env *cenv) (tv, error){}

func (env *cenv) call(n *ast.CallExpr) (tv, error) {
	name := ""
	switch f := n.Fun.(type) {
	case *ast.Ident:
		name = f.Name
	case *ast.SelectorExpr:
		if id, ok := f.X.(*ast.Ident); ok {
			name = id.Name + "." + f.Sel.Name
		}
	}
	if name == "old" {
		saved := env.st
		env.st = env.old
		defer func() { env.st = saved }()
		return env.tr(n.Args[0])
	}
	var args []tv
	if sf, ok := specFuncs[name]; ok {
		for _, a := range n.Args {
			v, err := env.tr(a)
			if err != nil {
				return tv{}, err
			}
			args = append(args, v)
		}
		return sf(env, args, n)
	}
	for _, a := range n.Args {
		v, err := env.tr(a)
		if err != nil {
			return tv{}, err
		}
		args = append(args, v)
	}
	switch name {
	case "len":
		a := args[0]
		switch a.srt {
		case "Str":
			return tv{s: sx("slen", a.s), t: types.Typ[types.Int], srt: "Int"}, nil
		case "Slice":
			return tv{s: sx("sl_len", a.s), t: types.Typ[types.Int], srt: "Int"}, nil
		}
		return tv{}, fmt.Errorf("len of %s", a.srt)
	case "cap":
		return tv{s: sx("sl_cap", args[0].s), t: types.Typ[types.Int], srt: "Int"}, nil
	}
	return tv{}, fmt.Errorf("unknown spec function %q", name)
}

func init() {
	str := types.Typ[types.String]
	specFuncs["first"] = func(env *cenv, a []tv, _ *ast.CallExpr) (tv, error) {
		return tv{s: sx("sfirst", a[0].s), t: str, srt: "Str"}, nil
	}
	specFuncs["rest"] = func(env *cenv, a []tv, _ *ast.CallExpr) (tv, error) {
		return tv{s: sx("srest", a[0].s), t: str, srt: "Str"}, nil
	}
	specFuncs["startsSlash"] = func(env *cenv, a []tv, _ *ast.CallExpr) (tv, error) {
		return tv{s: sx("startsSlash", a[0].s), srt: "Bool"}, nil
	}
	specFuncs["nResp"] = func(env *cenv, a []tv, _ *ast.CallExpr) (tv, error) {
		env.e.D.UF("nResp", []string{"Trace"}, "Int")
		env.e.D.Axiom("nResp:nil", "(= (nResp tr_nil) 0)")
		env.e.D.Axiom("nResp:nonneg", "(forall ((t Trace)) (! (>= (nResp t) 0) :pattern ((nResp t))))")
		return tv{s: sx("nResp", a[0].s), t: types.Typ[types.Int], srt: "Int"}, nil
	}
	specFuncs["segEnd"] = func(env *cenv, a []tv, _ *ast.CallExpr) (tv, error) {
		return tv{s: sx("segend", a[0].s), t: types.Typ[types.Int], srt: "Int"}, nil
	}
	specFuncs["hasPrefix"] = func(env *cenv, a []tv, call *ast.CallExpr) (tv, error) {
		if lit, ok := call.Args[1].(*ast.BasicLit); ok && lit.Kind == token.STRING {
			s, _ := strconv.Unquote(lit.Value)
			return tv{s: hasPrefixLit(a[0].s, s), srt: "Bool"}, nil
		}
		return tv{s: sx("str_hasprefix", a[0].s, a[1].s), srt: "Bool"}, nil
	}
}
