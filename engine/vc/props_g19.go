package vc

import (
	"go/token"
	"fmt"
	"go/ast"
	"go/types"
	"path/filepath"
	"strings"

	"golang.org/x/tools/go/ssa"
)

const repoPkg = "github.com/vkd/goag"

// RepoWorld: the generator's own packages loaded as module code, with the
// contracts of every *_verif.go file attached.
type RepoWorld struct {
	W  *World
	CS []*Contract
}

func LoadRepoWorld(repo string) (*RepoWorld, error) {
	w, err := Load(repo, "verif", ".", "./generator", "./specification", "./cmd/goag")
	if err != nil {
		return nil, err
	}
	rw := &RepoWorld{W: w}
	for rel, pkg := range map[string]string{".": repoPkg, "generator": repoPkg + "/generator", "specification": repoPkg + "/specification", "cmd/goag": repoPkg + "/cmd/goag"} {
		cs, err := LoadRepoContracts(repo, rel, pkg)
		if err != nil {
			return nil, err
		}
		for _, c := range cs {
			w.Contracts[c.Name] = c
		}
		rw.CS = append(rw.CS, cs...)
	}
	for k, v := range FSLibrary() {
		w.Library[k] = v
	}
	w.CheckOverflow = false
	w.ExternalPolicy = func(full string) CallKind { return CallFresh }
	w.DynamicPolicy = func(e *FuncEnc, in ssa.Instruction, name string) CallKind { return CallHavoc }
	w.computeFSStable()
	LCFacts(w)
	return rw, nil
}

// fsWriters: module functions that (transitively, through static calls) reach a
// library function that writes the ghost file system.
func (w *World) fsWriters() map[*ssa.Function]bool {
	out := map[*ssa.Function]bool{}
	fns := w.Functions()
	direct := func(f *ssa.Function) bool {
		for _, b := range f.Blocks {
			for _, in := range b.Instrs {
				if c, ok := in.(ssa.CallInstruction); ok {
					if g := c.Common().StaticCallee(); g != nil {
						if lm, ok := w.Library[g.String()]; ok && len(lm.ModKeys) > 0 {
							return true
						}
						if strings.HasPrefix(g.String(), "os.") && !w.IsModule(g) {
							switch g.Name() {
							case "WriteFile", "Create", "Rename", "RemoveAll", "Truncate", "Mkdir", "Symlink", "Link":
								return true
							}
						}
					}
				}
			}
		}
		return false
	}
	for _, f := range fns {
		if direct(f) {
			out[f] = true
		}
	}
	for changed := true; changed; {
		changed = false
		for _, f := range fns {
			if out[f] {
				continue
			}
			for _, b := range f.Blocks {
				for _, in := range b.Instrs {
					if c, ok := in.(ssa.CallInstruction); ok {
						var g *ssa.Function
						switch v := c.Common().Value.(type) {
						case *ssa.Function:
							g = v
						case *ssa.MakeClosure:
							g = v.Fn.(*ssa.Function)
						}
						if g != nil && out[g] && !out[f] {
							out[f] = true
							changed = true
						}
					}
				}
			}
		}
	}
	return out
}

// computeFSStable: no file-system writer can be the target of a dynamic call
// (it is not a closure, not used as a value and its receiver type never flows
// into an interface).
func (w *World) computeFSStable() {
	writers := w.fsWriters()
	w.FSWriters = nil
	stable := true
	rt := map[string]bool{}
	for _, t := range w.Prog.RuntimeTypes() {
		rt[typeKey(t)] = true
	}
	for f := range writers {
		w.FSWriters = append(w.FSWriters, f.String())
		if f.Parent() != nil {
			stable = false
		}
		if recv := f.Signature.Recv(); recv != nil {
			if rt[typeKey(recv.Type())] {
				stable = false
			}
		}
		if refs := f.Referrers(); refs != nil {
			for _, r := range *refs {
				if c, ok := r.(ssa.CallInstruction); ok && c.Common().Value == f {
					continue
				}
				stable = false
			}
		}
	}
	// function values referenced from other functions
	for _, g := range w.Functions() {
		for _, b := range g.Blocks {
			for _, in := range b.Instrs {
				for _, op := range in.Operands(nil) {
					if fv, ok := (*op).(*ssa.Function); ok && writers[fv] {
						if c, ok := in.(ssa.CallInstruction); ok && c.Common().Value == fv {
							continue
						}
						stable = false
					}
				}
			}
		}
	}
	w.FSStable = stable
}

func init() {
	specFuncs["rendered"] = func(env *cenv, a []tv, _ *ast.CallExpr) (tv, error) {
		name := "(" + repoPkg + "/generator.GoFile).Render"
		return tv{s: env.e.PureFuncTerm(name, 0, []string{a[0].s}, []string{a[0].srt}, "Str"), t: types.Typ[types.String], srt: "Str"}, nil
	}
}

// CheckFS: Layer G obligations of goag.go for C19 (and the C01 clauses).
func (cr *CheckRun) CheckFS() {
	rw, err := LoadRepoWorld(cr.Repo)
	if err != nil {
		cr.EngineErrors = append(cr.EngineErrors, "load repo: "+err.Error())
		return
	}
	w := rw.W
	// small helpers of goag.go without a contract of their own are unfolded at
	// their call sites (an extracted helper does not need a new contract)
	w.InlineNamed = func(f *ssa.Function) bool {
		return f.Pkg != nil && f.Pkg.Pkg.Path() == repoPkg && len(f.Blocks) <= 12
	}
	want := []string{repoPkg + ".WriteToFile", repoPkg + ".RenderToFile", "(" + repoPkg + ".Generator).Generate"}
	for _, n := range want {
		fn := w.funcByName(n)
		if fn == nil {
			cr.EngineErrors = append(cr.EngineErrors, "function not found: "+n)
			continue
		}
		c := w.ContractFor(fn)
		if c == nil {
			cr.EngineErrors = append(cr.EngineErrors, "no contract in /repo for "+n)
			continue
		}
		e := &FuncEnc{W: w, Fn: fn, Name: strings.TrimPrefix(strings.ReplaceAll(n, repoPkg, "goag"), ""), D: NewDecls(), Contract: c}
		e.PostEncode = func() { tagProps(e, "C15") }
		var replay func(f *Failure)
		if cr.Prop == "C19" {
			replay = func(f *Failure) { cr.replayFS(f) }
		}
		cr.VerifyFunc(e, "layer-G", nil, replay)
	}
	// the packages that build the render trees never touch the file system
	cr.Obligations++
	o := &Obligation{Name: "goag/fs-writers", Func: "goag", Class: "scan", Props: []string{cr.Prop}}
	bad := ""
	for _, n := range w.FSWriters {
		if !strings.HasPrefix(n, repoPkg+".") && !strings.HasPrefix(n, "("+repoPkg+".") && !strings.HasPrefix(n, repoPkg+"/cmd/goag") {
			bad = n
		}
	}
	if bad == "" && w.FSStable {
		cr.Discharged++
		cr.ProvedNames = append(cr.ProvedNames, o.Name)
		cr.Samples = append(cr.Samples, map[string]any{"obligation": o.Name, "status": "proved", "solver": "call-graph scan", "what": fmt.Sprintf("file-system writers: %v; none is reachable through a dynamic call", w.FSWriters)})
	} else {
		o.Status = "failed"
		o.Formula = "a function outside goag.go writes files, or a writer can be called dynamically: " + bad
		cr.Failures = append(cr.Failures, &Failure{Prop: cr.Prop, Obl: o, Entry: "layer-G", Verdict: "violation"})
	}
	_ = filepath.Join
}

// CheckBasePathSource (C03, C13; Layer G, all specs): the base path handed to
// the generator is strings.TrimSuffix(X, "/") where X is the -basepath flag or,
// when that is empty, the decoded Path of url.Parse(servers[0].url after
// variable substitution) -- the quantity the routing and spec-serving contracts
// of Layer E take as "the base path". Decided by the shape of the SSA value
// (a structural rule, no solver): any other source (EscapedPath, RawPath, the
// raw URL, an untrimmed value) fails it.
func (cr *CheckRun) CheckBasePathSource() {
	rw, err := LoadRepoWorld(cr.Repo)
	if err != nil {
		cr.EngineErrors = append(cr.EngineErrors, "load repo: "+err.Error())
		return
	}
	fn := rw.W.funcByName("(" + repoPkg + ".Generator).Generate")
	cr.Obligations++
	o := &Obligation{Name: "goag.(Generator).Generate/call:BasePath/source", Func: "goag.(Generator).Generate", Class: "rule", Props: []string{cr.Prop}}
	why := "Generate not found"
	if fn != nil {
		why = basePathShape(fn)
	}
	if why == "" {
		cr.Discharged++
		cr.ProvedNames = append(cr.ProvedNames, o.Name)
		cr.Functions["goag.(Generator).Generate"] = true
		if len(cr.Samples) < 6 {
			cr.Samples = append(cr.Samples, map[string]any{"obligation": o.Name, "status": "proved", "solver": "structural rule on the SSA value", "what": "BasePath(strings.TrimSuffix(phi(-basepath flag, url.Parse(...).Path), \"/\"))"})
		}
		return
	}
	o.Status, o.Formula = "failed", why
	cr.Failures = append(cr.Failures, &Failure{Prop: cr.Prop, Obl: o, Entry: "layer-G", Verdict: "violation"})
}

func basePathShape(fn *ssa.Function) string {
	var arg ssa.Value
	for _, b := range fn.Blocks {
		for _, in := range b.Instrs {
			if c, ok := in.(*ssa.Call); ok {
				if g := c.Call.StaticCallee(); g != nil && g.Name() == "BasePath" && g.Pkg != nil && strings.HasSuffix(g.Pkg.Pkg.Path(), "/generator") && len(c.Call.Args) == 1 {
					arg = c.Call.Args[0]
				}
			}
		}
	}
	if arg == nil {
		return "no call generator.BasePath(...) in Generate"
	}
	call, ok := arg.(*ssa.Call)
	if !ok || call.Call.StaticCallee() == nil || call.Call.StaticCallee().String() != "strings.TrimSuffix" {
		return "the base path is not strings.TrimSuffix(..., \"/\")"
	}
	if s, ok := constString(call.Call.Args[1]); !ok || s != "/" {
		return "the base path is not trimmed by exactly one \"/\""
	}
	var sources []ssa.Value
	var walk func(v ssa.Value, d int)
	seen := map[ssa.Value]bool{}
	walk = func(v ssa.Value, d int) {
		if seen[v] || d > 6 {
			return
		}
		seen[v] = true
		if phi, ok := v.(*ssa.Phi); ok {
			for _, e := range phi.Edges {
				walk(e, d+1)
			}
			return
		}
		// a helper of the package that computes the value: its returned values
		// are the sources (a zero value returned together with a non-nil error is
		// none: the caller gives up on that path)
		var hc *ssa.Call
		idx := 0
		if ex, ok := v.(*ssa.Extract); ok {
			hc, _ = ex.Tuple.(*ssa.Call)
			idx = ex.Index
		} else if c, ok := v.(*ssa.Call); ok {
			hc = c
		}
		if hc != nil {
			if g := hc.Call.StaticCallee(); g != nil && g.Pkg == fn.Pkg && len(g.Blocks) > 0 && g.Signature.Recv() == nil {
				for _, b := range g.Blocks {
					ret, ok := b.Instrs[len(b.Instrs)-1].(*ssa.Return)
					if !ok || idx >= len(ret.Results) {
						continue
					}
					if c, ok := ret.Results[idx].(*ssa.Const); ok && c.Value != nil && c.Value.ExactString() == `""` {
						withErr := false
						for j, r := range ret.Results {
							if j != idx && isErrorT(r.Type()) {
								if rc, isC := r.(*ssa.Const); !isC || !rc.IsNil() {
									withErr = true
								}
							}
						}
						if withErr {
							continue
						}
					}
					walk(ret.Results[idx], d+1)
				}
				return
			}
		}
		sources = append(sources, v)
	}
	walk(call.Call.Args[0], 0)
	for _, s := range sources {
		switch x := s.(type) {
		case *ssa.Parameter:
			if x.Name() != "basePath" {
				return "base path taken from parameter " + x.Name()
			}
		case *ssa.UnOp:
			fa, ok := x.X.(*ssa.FieldAddr)
			if !ok || x.Op != token.MUL {
				return "base path source is not the Path field of the parsed URL"
			}
			st, _ := fa.X.Type().Underlying().(*types.Pointer).Elem().Underlying().(*types.Struct)
			if st == nil || st.Field(fa.Field).Name() != "Path" || !isNamed(fa.X.Type().Underlying().(*types.Pointer).Elem(), "net/url", "URL") {
				return "base path source is field " + fieldName(fa) + ", not url.URL.Path"
			}
			ex, ok := fa.X.(*ssa.Extract)
			if !ok {
				return "the URL is not the result of url.Parse"
			}
			pc, ok := ex.Tuple.(*ssa.Call)
			if !ok || pc.Call.StaticCallee() == nil || pc.Call.StaticCallee().String() != "net/url.Parse" {
				return "the URL is not the result of url.Parse"
			}
		default:
			return "base path source is " + s.String() + " (" + s.Name() + "), neither the flag nor url.Parse(...).Path"
		}
	}
	return ""
}
