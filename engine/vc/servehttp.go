package vc

import (
	"fmt"
	"go/types"
	"path/filepath"

	"golang.org/x/tools/go/ssa"
)

// ServeHTTPFamily instantiates the contract of (*API).ServeHTTP (DESIGN §4.13,
// §4.16):
//
//	let (h0, tpl, hp) = refRoute(r.URL.Path, r.Method)
//	specBranch ==> trace == old(trace) ++ [serve(rt.SpecFileHandler, rw, r)]
//	!specBranch && h0 == nil           ==> trace == old ++ [serve(notFound(rt), rw, r)]
//	!specBranch && h0 != nil && !hp    ==> trace == old ++ [serve(h0, rw, r)]
//	!specBranch && h0 != nil && hp     ==> trace == old ++ [serve(wrap(rt.Middlewares, 0, h0), rw, withPath(r, tpl))]
//	loop #0 invariant -1 <= i && h == wrap(rt.Middlewares, i+1, h0)
type ServeHTTPFamily struct {
	Em *Emitted
	RF *RouteFamily
	Fn *ssa.Function
}

func (sf *ServeHTTPFamily) field(e *FuncEnc, rt, name string, st *state) (string, types.Type, bool) {
	idx, ok := sf.RF.api.fieldIdx[name]
	if !ok {
		return "", nil, false
	}
	v, t := sf.RF.apiField(e, rt, idx, st)
	return v, t, true
}

// wrapTerm: wrap(M, i, h) for the middleware slice M in heap state st.
func wrapTerm(e *FuncEnc, M string, mt types.Type, st *state, i, h string) string {
	elem := mt.Underlying().(*types.Slice).Elem()
	hs := e.D.heapSort(elem)
	f := e.D.UF("wrapmw", []string{"Slice", hs, "Int", "Iface"}, "Iface")
	return sx(f, M, e.heapName(st, e.D.heapKey(elem), hs), i, h)
}

// wrapUnfold: the two defining equations of wrap, instantiated at index i.
func wrapUnfold(e *FuncEnc, M string, mt types.Type, st *state, i, h string) string {
	elem := mt.Underlying().(*types.Slice).Elem()
	hs := e.D.heapSort(elem)
	heap := e.heapName(st, e.D.heapKey(elem), hs)
	cell := sx("select", heap, sx("elem", sx("sl_base", M), sx("+", sx("sl_off", M), i)))
	name := "func:" + shortType(elem)
	app := e.DynPureTerm(name, 0, []string{cell, wrapTerm(e, M, mt, st, sx("+", i, "1"), h)}, []string{"Int", "Iface"}, "Iface")
	return and(
		implies(sx(">=", i, sx("sl_len", M)), eq(wrapTerm(e, M, mt, st, i, h), h)),
		implies(and(sx("<=", "0", i), sx("<", i, sx("sl_len", M))), eq(wrapTerm(e, M, mt, st, i, h), app)),
	)
}

func (sf *ServeHTTPFamily) Install() error {
	f := sf.Em.Func("(*API).ServeHTTP")
	if f == nil {
		return fmt.Errorf("no (*API).ServeHTTP")
	}
	sf.Fn = f
	em := sf.Em
	c := &Contract{Name: f.String(), Emitted: true, TraceSpecified: true}
	reqT := f.Params[2].Type() // *http.Request
	reqS := reqT.Underlying().(*types.Pointer).Elem()
	urlIdx, pathIdx, methodIdx := -1, -1, -1
	rst := reqS.Underlying().(*types.Struct)
	for i := 0; i < rst.NumFields(); i++ {
		switch rst.Field(i).Name() {
		case "URL":
			urlIdx = i
		case "Method":
			methodIdx = i
		}
	}
	urlPT := rst.Field(urlIdx).Type()
	urlS := urlPT.Underlying().(*types.Pointer).Elem()
	ust := urlS.Underlying().(*types.Struct)
	for i := 0; i < ust.NumFields(); i++ {
		if ust.Field(i).Name() == "Path" {
			pathIdx = i
		}
	}
	urlOf := func(e *FuncEnc, r string, st *state) string {
		return e.load(st, "("+e.D.FieldAddrFn(reqS, urlIdx)+" "+r+")", urlPT)
	}
	c.PreHook = func(e *FuncEnc, args []string) []NamedFormula {
		rt, r := args[0], args[2]
		return []NamedFormula{
			{Name: "requires:rt!=nil", Formula: not(eq(rt, "0"))},
			{Name: "requires:r!=nil", Formula: not(eq(r, "0"))},
			{Name: "requires:r.URL!=nil", Formula: not(eq(urlOf(e, r, e.cur), "0"))},
			{Name: "requires:middlewares!=nil", Formula: sf.middlewaresNonNil(e, rt)},
		}
	}
	c.RetHook = func(e *FuncEnc, results []string) []NamedFormula {
		rt, rw, r := e.val[f.Params[0]], e.val[f.Params[1]], e.val[f.Params[2]]
		st := e.entry
		u := urlOf(e, r, st)
		path := e.load(st, "("+e.D.FieldAddrFn(urlS, pathIdx)+" "+u+")", types.Typ[types.String])
		method := e.load(st, "("+e.D.FieldAddrFn(reqS, methodIdx)+" "+r+")", types.Typ[types.String])
		h0, tpl, hp := sf.RF.refRouteTerm(e, nil, true, rt, path, method, st)
		h0 = e.define("ref_h0", "Iface", h0)
		tpl = e.define("ref_tpl", "Str", tpl)
		hp = e.define("ref_hp", "Bool", hp)
		spec, _, okS := sf.field(e, rt, "SpecFileHandler", st)
		nf, _, okN := sf.field(e, rt, "NotFoundHandler", st)
		M, mt, okM := sf.field(e, rt, "Middlewares", st)
		if !okS || !okN || !okM {
			return []NamedFormula{{Name: "ensures#fields", Formula: "false"}}
		}
		specName := em.Entry.SpecHandlerName
		if specName == "" {
			specName = filepath.Base(em.Entry.Spec)
		}
		specPath := e.D.Lit(em.Ref.NormBase() + "/" + specName)
		specBranch := e.define("specBranch", "Bool", and(not(eq(sx("if_tag", spec), "0")), eq(path, specPath)))
		serve := func(h, rq string) string {
			ev := e.declareEvent("http.Handler.ServeHTTP", []string{"Iface", "Iface", "Int"})
			return sx("tr_cons", e.entry.trace, sx(ev, h, rw, rq))
		}
		e.D.Const("http_NotFoundHandler", "Iface")
		notFound := ite(eq(sx("if_tag", nf), "0"), "http_NotFoundHandler", nf)
		// r' = r.WithContext(context.WithValue(r.Context(), pathKey{}, tpl))
		rprime := sf.withPathTerm(e, r, tpl)
		wrapped := wrapTerm(e, M, mt, st, "0", h0)
		tr := e.cur.trace
		isNil := eq(sx("if_tag", h0), "0")
		return []NamedFormula{
			{Name: "ensures#spec", Props: []string{"C13", "C16"}, Formula: implies(specBranch, eq(tr, serve(spec, r)))},
			{Name: "ensures#notfound", Props: []string{"C03", "C16"}, Formula: implies(and(not(specBranch), isNil), eq(tr, serve(notFound, r)))},
			{Name: "ensures#nomiddleware", Props: []string{"C16", "C17"}, Formula: implies(and(not(specBranch), not(isNil), not(hp)), eq(tr, serve(h0, r)))},
			{Name: "ensures#oneResponse", Props: []string{"C14"}, Formula: eq(sx("nResp", tr), sx("+", sx("nResp", e.entry.trace), "1"))},
			{Name: "ensures#wrapped", Props: []string{"C16", "C03"}, Formula: implies(and(not(specBranch), not(isNil), hp), eq(tr, serve(wrapped, rprime)))},
		}
	}
	c.LoopHook = func(e *FuncEnc, ord int, env *cenv) []NamedFormula {
		if ord != 0 {
			return nil
		}
		rt := e.val[f.Params[0]]
		iv, okI := env.vars["i"]
		hv, okH := env.vars["h"]
		if !okI || !okH {
			return []NamedFormula{{Name: "invariant#shape", Formula: "false"}}
		}
		M, mt, _ := sf.field(e, rt, "Middlewares", env.st)
		h0 := sf.loopH0(e)
		ip1 := sx("+", iv.s, "1")
		// lemma instances (definition of wrap at i and at i+1)
		e.assume("true", wrapUnfold(e, M, mt, env.st, iv.s, h0))
		e.assume("true", wrapUnfold(e, M, mt, env.st, ip1, h0))
		return []NamedFormula{
			{Name: "invariant#bounds", Props: []string{"C16", "C14"}, Formula: and(sx("<=", "(- 1)", iv.s), sx("<", iv.s, sx("sl_len", M)))},
			{Name: "invariant#wrap", Props: []string{"C16"}, Formula: eq(hv.s, wrapTerm(e, M, mt, env.st, ip1, h0))},
			{Name: "invariant#nonnil", Props: []string{"C14"}, Formula: not(eq(sx("if_tag", hv.s), "0"))},
		}
	}
	em.W.Contracts[f.String()] = c
	return nil
}

// loopH0: the handler the loop starts from = first result of the route call.
func (sf *ServeHTTPFamily) loopH0(e *FuncEnc) string {
	for _, b := range sf.Fn.Blocks {
		for _, in := range b.Instrs {
			if c, ok := in.(*ssa.Call); ok {
				if g := c.Call.StaticCallee(); g != nil && g == sf.RF.Root {
					if tup, ok := e.tuple[c]; ok {
						return tup[0]
					}
				}
			}
		}
	}
	return "iface_nil"
}

// withPathTerm mirrors the library models of Request.Context, context.WithValue
// and Request.WithContext (deterministic functions of their arguments).
func (sf *ServeHTTPFamily) withPathTerm(e *FuncEnc, r, tpl string) string {
	ctxOf := e.D.UF("lib_"+mangle("(*net/http.Request).Context")+"_r0", []string{"Int"}, "Iface")
	withValue := e.D.UF("lib_"+mangle("context.WithValue")+"_r0", []string{"Iface", "Iface", "Iface"}, "Iface")
	withCtx := e.D.UF("lib_"+mangle("(*net/http.Request).WithContext")+"_r0", []string{"Int", "Iface"}, "Int")
	pk := sf.Em.Pkg.Pkg.Scope().Lookup("pathKey")
	var keyIface string
	if pk != nil {
		keyIface = ifaceOf(e, e.D.Zero(pk.Type()), pk.Type())
	} else {
		keyIface = "iface_nil"
	}
	val := ifaceOf(e, tpl, types.Typ[types.String])
	return sx(withCtx, r, sx(withValue, sx(ctxOf, r), keyIface, val))
}

// middlewaresNonNil: every entry of rt.Middlewares is a non-nil func.
func (sf *ServeHTTPFamily) middlewaresNonNil(e *FuncEnc, rt string) string {
	M, mt, ok := sf.field(e, rt, "Middlewares", e.cur)
	if !ok {
		return "true"
	}
	elem := mt.Underlying().(*types.Slice).Elem()
	h := e.heapName(e.cur, e.D.heapKey(elem), e.D.heapSort(elem))
	cell := sx("select", h, sx("elem", sx("sl_base", M), "qk"))
	e.Assumed["every entry of API.Middlewares is a non-nil func"] = true
	return fmt.Sprintf("(forall ((qk Int)) (! (=> (and (<= (sl_off %s) qk) (< qk (+ (sl_off %s) (sl_len %s)))) (not (= %s 0))) :pattern (%s)))", M, M, M, cell, cell)
}
