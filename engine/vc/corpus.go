package vc

import (
	"fmt"
	"math/rand"
	"os"
	"path/filepath"
	"sort"
	"strings"
)

// The corpus is the enumerated set of "programs" of Layer E (DESIGN §3.2).
// Generated specs are written to scratch at run time, deterministically.

func writeSpec(dir, name, content string) string {
	p := filepath.Join(dir, name+".yaml")
	_ = os.MkdirAll(dir, 0o755)
	_ = os.WriteFile(p, []byte(content), 0o644)
	return p
}

const specHead = "openapi: \"3.0.3\"\ninfo: {version: 0.0.1, title: corpus}\n"

func pathParamsYAML(tpl string) string {
	var ps []string
	for _, s := range splitTemplate(tpl) {
		if s.IsVar {
			ps = append(ps, fmt.Sprintf("{in: path, name: %q, required: true, schema: {type: string}}", s.Var))
		}
	}
	if len(ps) == 0 {
		return ""
	}
	return "parameters: [" + strings.Join(ps, ", ") + "], "
}

// routeSpec builds a spec from templates -> methods.
func routeSpec(servers string, tpls map[string][]string) string {
	var b strings.Builder
	b.WriteString(specHead)
	b.WriteString(servers)
	b.WriteString("paths:\n")
	var keys []string
	for k := range tpls {
		keys = append(keys, k)
	}
	sort.Strings(keys)
	for _, t := range keys {
		fmt.Fprintf(&b, "  %s:\n", t)
		for _, m := range tpls[t] {
			fmt.Fprintf(&b, "    %s: {%sresponses: {default: {description: d}}}\n", m, pathParamsYAML(t))
		}
	}
	return b.String()
}

var routeSets = []map[string][]string{
	{"/": {"get"}},
	{"/a": {"get", "post"}, "/a/": {"get"}, "/{x}": {"get"}},
	{"/a/{x}": {"get"}, "/a/b": {"get"}, "/a/{x}/c": {"post"}},
	{"/{x}/{y}": {"get"}, "/{x}/b": {"put"}, "/a/{y}": {"delete"}},
	{"/a/b/c": {"get"}, "/a/{x}/c": {"get"}, "/a/{x}/": {"get"}, "/a": {"patch"}},
	{"/a/{x}/b/{y}": {"get", "post"}, "/a/{x}/b": {"get"}, "/{x}": {"head"}},
	{"/a/": {"get"}, "/{x}/": {"get"}, "/{x}/{y}/": {"get"}},
	{"/a/b": {"get"}, "/a/{x}": {"post"}},
	{"/u/{id}/p": {"get"}, "/u/{uid}/q": {"get"}, "/u/{uid}": {"put"}, "/{id}/u": {"get"}, "/{name}": {"get"}},
}

type baseForm struct {
	name    string
	servers string
	flag    string
}

var baseForms = []baseForm{
	{"nobase", "", ""},
	{"srv-v1", "servers: [{url: /v1}]\n", ""},
	{"srv-deep", "servers: [{url: 'https://example.com:8443/api/v1'}]\n", ""},
	{"srv-vars", "servers:\n- url: https://{u}.example.com/{bp}\n  variables:\n    u: {default: demo}\n    bp: {default: api/v2}\n", ""},
	{"flag", "", "/base"},
	{"flag-over-srv", "servers: [{url: /v1}]\n", "/other"},
}

// RouteCorpus: template sets x base-path forms.
func RouteCorpus(dir string, tier string, seed int64) []CorpusEntry {
	var out []CorpusEntry
	add := func(name, spec, flag string, cors bool) {
		out = append(out, CorpusEntry{Name: name, Spec: writeSpec(filepath.Join(dir, name), "openapi", spec), BasePath: flag, Cors: cors, Group: "route-matrix"})
	}
	for i, set := range routeSets {
		bf := baseForms[i%len(baseForms)]
		if tier == "quick" && i >= 5 && i != 8 {
			continue
		}
		add(fmt.Sprintf("route-%02d-%s", i, bf.name), routeSpec(bf.servers, set), bf.flag, false)
	}
	if tier != "quick" {
		for i, set := range routeSets {
			for j, bf := range baseForms {
				if j == i%len(baseForms) {
					continue
				}
				add(fmt.Sprintf("route-%02d-%s", i, bf.name), routeSpec(bf.servers, set), bf.flag, false)
			}
		}
		// random template sets over the alphabet {a, b, {x}, {y}, ""(last)}
		rng := rand.New(rand.NewSource(seed))
		for k := 0; k < 24; k++ {
			set := map[string][]string{}
			n := 2 + rng.Intn(4)
			for len(set) < n {
				depth := 1 + rng.Intn(4)
				var segs []string
				for d := 0; d < depth; d++ {
					alpha := []string{"a", "b", "{x}", "{y}"}
					if d == depth-1 {
						alpha = append(alpha, "")
					}
					segs = append(segs, alpha[rng.Intn(len(alpha))])
				}
				tpl := "/" + strings.Join(segs, "/")
				if equivalentTemplateIn(set, tpl) || dupVars(tpl) {
					continue
				}
				ms := []string{"get", "post", "put", "delete"}
				rng.Shuffle(len(ms), func(i, j int) { ms[i], ms[j] = ms[j], ms[i] })
				set[tpl] = ms[:1+rng.Intn(3)]
			}
			bf := baseForms[rng.Intn(len(baseForms))]
			add(fmt.Sprintf("route-rnd%02d-%s", k, bf.name), routeSpec(bf.servers, set), bf.flag, k%3 == 0)
		}
	}
	return out
}

func dupVars(tpl string) bool {
	seen := map[string]bool{}
	for _, s := range splitTemplate(tpl) {
		if s.IsVar {
			if seen[s.Var] {
				return true
			}
			seen[s.Var] = true
		}
	}
	return false
}

// equivalentTemplateIn: same shape up to variable names (OpenAPI forbids it).
func equivalentTemplateIn(set map[string][]string, tpl string) bool {
	a := splitTemplate(tpl)
	for t := range set {
		b := splitTemplate(t)
		if len(a) != len(b) {
			continue
		}
		same := true
		for i := range a {
			if a[i].IsVar != b[i].IsVar || (!a[i].IsVar && a[i].Lit != b[i].Lit) {
				same = false
			}
		}
		if same {
			return true
		}
	}
	return false
}

// ---------------------------------------------------------------- security matrix

type schemeDef struct {
	key  string
	yaml string
}

var schemeDefs = map[string]schemeDef{
	"bearer":  {"Bearer", "Bearer: {type: http, scheme: bearer}"},
	"khead":   {"KeyHead", "KeyHead: {type: apiKey, in: header, name: X-Api-Key}"},
	"kquery":  {"KeyQuery", "KeyQuery: {type: apiKey, in: query, name: api_key}"},
	"oauth2":  {"OAuth", "OAuth: {type: oauth2, flows: {implicit: {authorizationUrl: 'https://example.com/auth', scopes: {}}}}"},
	"basic":   {"Basic", "Basic: {type: http, scheme: basic}"},
}

func secList(alts [][]string) string {
	var xs []string
	for _, alt := range alts {
		var ks []string
		for _, k := range alt {
			ks = append(ks, schemeDefs[k].key+": []")
		}
		xs = append(xs, "{"+strings.Join(ks, ", ")+"}")
	}
	return "[" + strings.Join(xs, ", ") + "]"
}

// securitySpec: global requirement + per-operation variants, some sharing a path item.
func securitySpec(a, b string, global [][]string, variants map[string][][]string, cors bool) string {
	var sb strings.Builder
	sb.WriteString(specHead)
	if global != nil {
		sb.WriteString("security: " + secList(global) + "\n")
	}
	sb.WriteString("paths:\n")
	names := make([]string, 0, len(variants))
	for n := range variants {
		names = append(names, n)
	}
	sort.Strings(names)
	// each variant gets its own path; additionally pairs share a path item
	for _, n := range names {
		fmt.Fprintf(&sb, "  /own/%s:\n    get: {%sresponses: {default: {description: d}}}\n", n, secKey(variants[n]))
	}
	for i := 0; i+1 < len(names); i += 2 {
		fmt.Fprintf(&sb, "  /shared/%s-%s:\n    get: {%sresponses: {default: {description: d}}}\n    post: {%sresponses: {default: {description: d}}}\n", names[i], names[i+1], secKey(variants[names[i]]), secKey(variants[names[i+1]]))
	}
	sb.WriteString("components:\n  securitySchemes:\n")
	for _, k := range []string{a, b} {
		sb.WriteString("    " + schemeDefs[k].yaml + "\n")
	}
	return sb.String()
}

func secKey(alts [][]string) string {
	if alts == nil {
		return "" // inherit
	}
	return "security: " + secList(alts) + ", "
}

// SecurityCorpus enumerates the configurations C11 names.
func SecurityCorpus(dir, tier string) []CorpusEntry {
	var out []CorpusEntry
	pairs := [][2]string{{"bearer", "khead"}, {"khead", "kquery"}, {"bearer", "kquery"}}
	if tier != "quick" {
		pairs = append(pairs, [2]string{"kquery", "bearer"}, [2]string{"khead", "bearer"})
	}
	for _, p := range pairs {
		a, b := p[0], p[1]
		globals := map[string][][]string{"gnone": nil, "gA": {{a}}, "gAB": {{a}, {b}}}
		for _, gn := range []string{"gnone", "gA", "gAB"} {
			if tier == "quick" && gn == "gAB" && a != "bearer" {
				continue
			}
			variants := map[string][][]string{
				"inherit": nil,
				"public":  {},
				"onlya":   {{a}},
				"onlyb":   {{b}},
				"aorb":    {{a}, {b}},
				"bora":    {{b}, {a}},
			}
			name := fmt.Sprintf("sec-%s-%s-%s", a, b, gn)
			out = append(out, CorpusEntry{Name: name, Spec: writeSpec(filepath.Join(dir, name), "openapi", securitySpec(a, b, globals[gn], variants, false)), Group: "security-matrix"})
		}
	}
	return out
}

// SecurityUnsupportedCorpus: requirements goag cannot translate (AND of two
// schemes, unsupported kinds). The reference outcome is a generation error.
func SecurityUnsupportedCorpus(dir string) []CorpusEntry {
	var out []CorpusEntry
	mk := func(name, a, b string, variants map[string][][]string) {
		out = append(out, CorpusEntry{Name: name, Spec: writeSpec(filepath.Join(dir, name), "openapi", securitySpec(a, b, nil, variants, false)), Group: "security-unsupported"})
	}
	mk("secx-and", "bearer", "khead", map[string][][]string{"both": {{"bearer", "khead"}}, "public": {}})
	mk("secx-oauth2", "oauth2", "khead", map[string][][]string{"oauth": {{"oauth2"}}, "key": {{"khead"}}})
	mk("secx-basic", "basic", "khead", map[string][][]string{"basic": {{"basic"}}, "key": {{"khead"}}})
	return out
}

// ---------------------------------------------------------------- CORS matrix

func corsSpec(withOptions bool, sec bool) string {
	var sb strings.Builder
	sb.WriteString(specHead)
	sb.WriteString("paths:\n")
	sb.WriteString("  /pets:\n    parameters: [{in: header, name: x-trace-id, schema: {type: string}}]\n")
	sb.WriteString("    get: {parameters: [{in: header, name: X-Request-Id, schema: {type: string}}, {in: header, name: x-trace-id, schema: {type: string}}], responses: {default: {description: d}}}\n")
	if sec {
		sb.WriteString("    post: {security: [{Bearer: []}, {KeyHead: []}], responses: {default: {description: d}}}\n")
	} else {
		sb.WriteString("    post: {responses: {default: {description: d}}}\n")
	}
	if withOptions {
		sb.WriteString("    options: {responses: {default: {description: d}}}\n")
	}
	// the second path shares a header parameter (and, with security, a scheme) with the first
	secDel := ""
	if sec {
		secDel = "security: [{Bearer: []}], "
	}
	sb.WriteString("  /pets/{id}:\n    delete: {" + secDel + "parameters: [{in: path, name: id, required: true, schema: {type: string}}, {in: header, name: If-Match, required: true, schema: {type: string}}, {in: header, name: X-Request-Id, schema: {type: string}}], responses: {default: {description: d}}}\n")
	sb.WriteString("  /plain:\n    get: {responses: {default: {description: d}}}\n")
	if sec {
		sb.WriteString("components:\n  securitySchemes:\n    " + schemeDefs["bearer"].yaml + "\n    " + schemeDefs["khead"].yaml + "\n")
	}
	return sb.String()
}

func CorsCorpus(dir, tier string) []CorpusEntry {
	var out []CorpusEntry
	for _, opt := range []bool{false, true} {
		for _, sec := range []bool{false, true} {
			for _, cors := range []bool{true, false} {
				if tier == "quick" && !cors && (opt || sec) {
					continue
				}
				name := fmt.Sprintf("cors-opt%v-sec%v-cors%v", opt, sec, cors)
				out = append(out, CorpusEntry{Name: name, Spec: writeSpec(filepath.Join(dir, name), "openapi", corsSpec(opt, sec)), Cors: cors, Group: "cors-matrix"})
			}
		}
	}
	// CORS on a tree where a literal segment and a variable one are siblings and
	// both go deeper (the preflight answer of the literal branch passes through
	// the parent's "literal first, then the variable" code)
	sib := map[string][]string{"/shops/mine/pets": {"get"}, "/shops/{shop}/pets": {"get", "post"}, "/shops/{shop}": {"delete"}, "/shops/mine": {"put"}}
	out = append(out, CorpusEntry{Name: "cors-siblings", Spec: writeSpec(filepath.Join(dir, "cors-siblings"), "openapi", routeSpec("servers: [{url: /v1}]\n", sib)), Cors: true, Group: "cors-matrix"})
	return out
}

// FixtureCorpus: the openapi.yaml files under /repo/tests and /repo/examples,
// regenerated from the working tree.
func FixtureCorpus(repo string, names ...string) []CorpusEntry {
	var out []CorpusEntry
	want := map[string]bool{}
	for _, n := range names {
		want[n] = true
	}
	for _, root := range []string{"tests", "examples"} {
		ents, _ := os.ReadDir(filepath.Join(repo, root))
		for _, d := range ents {
			if !d.IsDir() {
				continue
			}
			if len(want) > 0 && !want[d.Name()] {
				continue
			}
			spec := filepath.Join(repo, root, d.Name(), "openapi.yaml")
			if _, err := os.Stat(spec); err != nil {
				continue
			}
			ce := CorpusEntry{Name: "fixture-" + d.Name(), Spec: spec, Group: "fixtures", Client: true}
			cfg := filepath.Join(repo, root, d.Name(), ".goag.yaml")
			if _, err := os.Stat(cfg); err == nil {
				ce.Config = cfg
			}
			out = append(out, ce)
		}
	}
	return out
}

// BaseFormCorpus: base paths with a trailing slash ("a trailing slash on it is
// insignificant") and other spec-handler names.
func BaseFormCorpus(dir string) []CorpusEntry {
	var out []CorpusEntry
	set := map[string][]string{"/a": {"get"}, "/a/{x}": {"get"}, "/": {"post"}}
	forms := []baseForm{
		{"srv-root", "servers: [{url: /}]\n", ""},
		{"srv-trailing", "servers: [{url: 'https://example.com/v1/'}]\n", ""},
		{"flag-trailing", "", "/v2/"},
		{"srv-escaped", "servers: [{url: 'https://example.com/caf%C3%A9/v 1'}]\n", ""},
	}
	for _, bf := range forms {
		name := "base-" + bf.name
		out = append(out, CorpusEntry{Name: name, Spec: writeSpec(filepath.Join(dir, name), "openapi", routeSpec(bf.servers, set)), BasePath: bf.flag, Group: "base-forms"})
	}
	name := "base-specname"
	out = append(out, CorpusEntry{Name: name, Spec: writeSpec(filepath.Join(dir, name), "openapi", routeSpec("servers: [{url: /v1}]\n", set)), SpecHandlerName: "api.json", Group: "base-forms"})
	return out
}

// ParamCorpus: typed path / query / header parameters, declared at path-item
// and operation level, in an order different from the template order.
func ParamCorpus(dir string) []CorpusEntry {
	p := func(in, name, typ, format string, required bool) string {
		f := ""
		if format != "" {
			f = ", format: " + format
		}
		r := ""
		if required || in == "path" {
			r = ", required: true"
		}
		return fmt.Sprintf("{in: %s, name: %q%s, schema: {type: %s%s}}", in, name, r, typ, f)
	}
	arr := func(in, name, typ, format string) string {
		f := ""
		if format != "" {
			f = ", format: " + format
		}
		return fmt.Sprintf("{in: %s, name: %q, schema: {type: array, items: {type: %s%s}}}", in, name, typ, f)
	}
	spec1 := specHead + "servers: [{url: /api/v1}]\npaths:\n" +
		"  /orgs/{org}/teams/{team}:\n    get: {parameters: [" + p("path", "team", "integer", "int64", true) + ", " + p("path", "org", "string", "", true) + "], responses: {default: {description: d}}}\n" +
		"  /shops/{shop}/pets/{pet_id}:\n    parameters: [" + p("path", "pet_id", "integer", "int32", true) + "]\n    get: {parameters: [" + p("path", "shop", "string", "", true) + ", " + p("query", "limit", "integer", "", false) + "], responses: {default: {description: d}}}\n" +
		"    delete: {parameters: [" + p("path", "shop", "string", "", true) + "], responses: {default: {description: d}}}\n" +
		"  /a/{flag}/b/{when}/c/{ratio}:\n    get: {parameters: [" + p("path", "ratio", "number", "double", true) + ", " + p("path", "flag", "boolean", "", true) + ", " + p("path", "when", "string", "date-time", true) + "], responses: {default: {description: d}}}\n"
	spec2 := specHead + "paths:\n" +
		"  /q:\n    parameters: [" + p("query", "page", "integer", "int32", false) + ", " + p("header", "X-Trace", "string", "", false) + "]\n" +
		"    get: {parameters: [" + p("query", "page", "integer", "int64", true) + ", " + p("query", "f32", "number", "float", false) + ", " + p("query", "f64", "number", "", true) + ", " + p("query", "ok", "boolean", "", false) + ", " + p("query", "at", "string", "date-time", false) + ", " + arr("query", "ids", "integer", "int64") + ", " + arr("query", "ratios", "number", "float") + ", " + arr("query", "names", "string", "") + ", " + p("header", "X-Count", "integer", "", true) + ", " + p("header", "X-Ratio", "number", "float", false) + ", " + p("header", "X-When", "string", "date-time", false) + "], responses: {default: {description: d}}}\n" +
		"    post: {responses: {default: {description: d}}}\n"
	spec3 := specHead + `paths:
  /r/{id}/{kind}:
    parameters:
    - {in: path, name: id, required: true, schema: {$ref: '#/components/schemas/ID'}}
    - {$ref: '#/components/parameters/KindParam'}
    get:
      parameters:
      - {in: query, name: page, schema: {$ref: '#/components/schemas/Page'}}
      - {in: query, name: size, required: true, schema: {$ref: '#/components/schemas/Page'}}
      - {in: query, name: q, schema: {$ref: '#/components/schemas/Name'}}
      - {in: query, name: flag, schema: {$ref: '#/components/schemas/Flag'}}
      - {in: query, name: ratio, schema: {$ref: '#/components/schemas/Ratio'}}
      - {in: header, name: X-Name, schema: {$ref: '#/components/schemas/Name'}}
      - {in: header, name: X-Page, required: true, schema: {$ref: '#/components/schemas/Page'}}
      - {$ref: '#/components/parameters/TraceHeader'}
      - {$ref: '#/components/parameters/LimitQuery'}
      responses: {default: {description: d}}
components:
  schemas:
    ID: {type: integer, format: int64}
    Page: {type: integer, format: int32}
    Name: {type: string}
    Flag: {type: boolean}
    Ratio: {type: number, format: double}
  parameters:
    KindParam: {in: path, name: kind, required: true, schema: {$ref: '#/components/schemas/Name'}}
    TraceHeader: {in: header, name: X-Trace, schema: {type: string}}
    LimitQuery: {in: query, name: limit, schema: {$ref: '#/components/schemas/Page'}}
`
	return []CorpusEntry{
		{Name: "param-schemarefs", Spec: writeSpec(filepath.Join(dir, "param-schemarefs"), "openapi", spec3), Group: "param-matrix", Client: true},
		{Name: "param-pathorder", Spec: writeSpec(filepath.Join(dir, "param-pathorder"), "openapi", spec1), Group: "param-matrix", Client: true},
		{Name: "param-types", Spec: writeSpec(filepath.Join(dir, "param-types"), "openapi", spec2), Group: "param-matrix", Client: true},
	}
}

// ResponseCorpus: status sets with and without default, inline / component /
// alias responses shared by several operations, headers, JSON and raw bodies.
func ResponseCorpus(dir string) []CorpusEntry {
	spec := specHead + `paths:
  /pets:
    get:
      responses:
        '200': {description: ok, headers: {X-Next: {schema: {type: string}}, X-Total: {required: true, schema: {type: string}}}, content: {application/json: {schema: {$ref: '#/components/schemas/Pet'}}}}
        '204': {description: empty}
        '404': {$ref: '#/components/responses/NotFound'}
        default: {$ref: '#/components/responses/Error'}
    post:
      responses:
        '201': {$ref: '#/components/responses/Created'}
        '400': {$ref: '#/components/responses/NotFound'}
  /pets/:
    get:
      responses:
        '200': {description: ok}
        '404': {$ref: '#/components/responses/NotFound'}
  /raw:
    get:
      responses:
        '200': {description: raw, content: {application/octet-stream: {schema: {type: string, format: binary}}}}
        default: {description: other}
  /names:
    get:
      responses:
        '200': {description: a list declared in place, content: {application/json: {schema: {type: array, items: {type: string}}}}}
  /problems:
    get:
      responses:
        '200': {description: ok}
        '409': {description: a JSON media type that is not application/json, content: {application/problem+json: {schema: {$ref: '#/components/schemas/Err'}}}}
        '422': {$ref: '#/components/responses/Problem'}
components:
  schemas:
    Pet: {type: object, required: [name], properties: {name: {type: string}, tag: {type: string}}}
    Err: {type: object, properties: {message: {type: string}}}
  responses:
    NotFound: {description: nf, content: {application/json: {schema: {$ref: '#/components/schemas/Err'}}}}
    Error: {description: err, headers: {X-Err: {schema: {type: string}}}, content: {application/json: {schema: {$ref: '#/components/schemas/Err'}}}}
    Created: {description: created, headers: {Location: {required: true, schema: {type: string}}}}
    Problem: {description: problem, content: {application/problem+json: {schema: {$ref: '#/components/schemas/Err'}}}}
`
	spec2 := specHead + `paths:
  /pets:
    get: {responses: {'200': {description: ok}}}
  /pets/:
    get: {responses: {'200': {description: ok}, '404': {$ref: '#/components/responses/Err'}}}
  /shops:
    get: {responses: {'200': {description: ok}, '400': {$ref: '#/components/responses/Err'}}}
  /shops/{id}/:
    parameters: [{in: path, name: id, required: true, schema: {type: string}}]
    get: {responses: {'200': {description: ok}, default: {$ref: '#/components/responses/Fallback'}}}
    delete: {responses: {'204': {description: gone}, default: {$ref: '#/components/responses/Fallback'}}}
components:
  schemas:
    E: {type: object, properties: {message: {type: string}}}
  responses:
    Err: {description: err, content: {application/json: {schema: {$ref: '#/components/schemas/E'}}}}
    Fallback: {description: fb, content: {application/json: {schema: {$ref: '#/components/schemas/E'}}}}
`
	return []CorpusEntry{
		{Name: "resp-matrix", Spec: writeSpec(filepath.Join(dir, "resp-matrix"), "openapi", spec), Group: "response-matrix", Client: true},
		{Name: "resp-trailing", Spec: writeSpec(filepath.Join(dir, "resp-trailing"), "openapi", spec2), Group: "response-matrix", Client: true},
		{Name: "resp-root", Spec: writeSpec(filepath.Join(dir, "resp-root"), "openapi", specHead+`paths:
  /:
    get: {responses: {'200': {description: ok}, '404': {$ref: '#/components/responses/Err'}}}
    post: {responses: {default: {$ref: '#/components/responses/Err2'}}}
  /x:
    get: {responses: {'200': {description: ok}, '404': {$ref: '#/components/responses/Err'}}}
components:
  schemas:
    E: {type: object, properties: {message: {type: string}}}
  responses:
    Err: {description: err, content: {application/json: {schema: {$ref: '#/components/schemas/E'}}}}
    Err2: {description: err, content: {application/json: {schema: {$ref: '#/components/schemas/E'}}}}
`), Group: "response-matrix", Client: true},
	}
}

// FindingsCorpus: witness specs of recorded (not repaired) findings, under
// /verif/corpus/findings; used only by the checks whose known_findings entries
// name them.
func FindingsCorpus(verifDir string) []CorpusEntry {
	var out []CorpusEntry
	files, _ := filepath.Glob(filepath.Join(verifDir, "corpus", "findings", "*.yaml"))
	sort.Strings(files)
	for _, f := range files {
		out = append(out, CorpusEntry{Name: "finding-" + strings.TrimSuffix(filepath.Base(f), ".yaml"), Spec: f, Client: true, Group: "findings"})
	}
	return out
}

// JSONCorpus: schema shapes of the JSON dialect (DESIGN §0.7): static specs
// under /verif/corpus/json.
func JSONCorpus(verifDir string) []CorpusEntry {
	var out []CorpusEntry
	files, _ := filepath.Glob(filepath.Join(verifDir, "corpus", "json", "*.yaml"))
	sort.Strings(files)
	for _, f := range files {
		out = append(out, CorpusEntry{Name: "json-" + strings.TrimSuffix(filepath.Base(f), ".yaml"), Spec: f, Client: true, Group: "json"})
	}
	return out
}
