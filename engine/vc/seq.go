package vc

import (
	"fmt"
	"go/types"
	"strings"
)

const seqPrelude = `(declare-sort GSeq 0)
(declare-const seq_nil GSeq)
(declare-fun seq_cons (GSeq Int) GSeq)
(declare-fun seq_len (GSeq) Int)
(assert (= (seq_len seq_nil) 0))
(assert (forall ((s GSeq) (x Int)) (! (= (seq_len (seq_cons s x)) (+ 1 (seq_len s))) :pattern ((seq_cons s x)))))
(declare-fun seq_set (GSeq) (Array Int Bool))
(assert (= (seq_set seq_nil) ((as const (Array Int Bool)) false)))
(assert (forall ((s GSeq) (x Int)) (! (= (seq_set (seq_cons s x)) (store (seq_set s) x true)) :pattern ((seq_cons s x)))))`

func (d *Decls) needSeq() { d.add("seq-prelude", seqPrelude) }

// boxed returns the Int payload of a value of type t.
func (e *FuncEnc) boxed(v string, t types.Type) string {
	box, _ := e.D.Box(t)
	if box == "" {
		return v
	}
	return sx(box, v)
}

// SeqLit builds the ghost sequence of the given (already boxed) elements.
func (d *Decls) SeqLit(elems []string) string {
	d.needSeq()
	s := "seq_nil"
	for _, x := range elems {
		s = sx("seq_cons", s, x)
	}
	return s
}

// seqOf abstracts the content of a slice (in heap state st) to a ghost sequence.
// For lengths up to 8 the definition is unfolded explicitly.
func (e *FuncEnc) seqOf(slice string, elem types.Type, st *state) string {
	e.D.needSeq()
	key := e.D.heapKey(elem)
	hs := e.D.heapSort(elem)
	if _, isStruct := elem.Underlying().(*types.Struct); isStruct {
		// not needed so far: opaque
		f := e.D.UF("seqof_opaque_"+mangle(key), []string{"Slice"}, "GSeq")
		return sx(f, slice)
	}
	h := e.heapName(st, key, hs)
	f := e.D.UF("seqof_"+mangle(key), []string{"Slice", hs}, "GSeq")
	term := sx(f, slice, h)
	for k := 0; k <= 8; k++ {
		var elems []string
		for i := 0; i < k; i++ {
			cell := sx("select", h, sx("elem", sx("sl_base", slice), sx("+", sx("sl_off", slice), itoa(int64(i)))))
			elems = append(elems, e.boxed(cell, elem))
		}
		e.emit(fmt.Sprintf("(assert (=> (= (sl_len %s) %d) (= %s %s)))", slice, k, term, e.D.SeqLit(elems)))
	}
	return term
}

// abstractArg: slices are passed to pure (contract-level) functions as sequences.
func (e *FuncEnc) abstractArg(v string, t types.Type, st *state) (string, string) {
	if sl, ok := t.Underlying().(*types.Slice); ok {
		return e.seqOf(v, sl.Elem(), st), "GSeq"
	}
	return v, e.D.SortOf(t)
}

// PureFuncTerm is the term a `purefunc` contract gives to result i of fn
// applied to abstracted arguments.
func (e *FuncEnc) PureFuncTerm(fnName string, i int, args []string, sorts []string, resSort string) string {
	fn := e.D.UF(fmt.Sprintf("fnres_%s_r%d", mangle(fnName), i), sorts, resSort)
	if len(args) == 0 {
		return fn
	}
	return sx(fn, args...)
}

// DynPureTerm is the term a pure dynamic call (func value / interface method)
// gives to result i.
func (e *FuncEnc) DynPureTerm(name string, i int, args []string, sorts []string, resSort string) string {
	f := e.D.UF(fmt.Sprintf("dyn_%s_r%d", mangle(name), i), sorts, resSort)
	return sx(f, args...)
}

var _ = strings.Join
