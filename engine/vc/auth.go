package vc

import (
	"fmt"
	"go/types"
	"strings"

	"golang.org/x/tools/go/ssa"
)

// Auth families (DESIGN §4.11, Layer E):
//
//	emitted func authMiddlewareOr$1$1(w, r)            -- the handler closure over (fns, next)
//	  let fa = firstAccept(fns, r): least j with fns[j] != nil && ok(fns[j].Auth(r)), else len(fns)
//	  ensures fa == len(fns) ==> trace == old(trace) ++ [w.WriteHeader(401)]
//	  ensures fa <  len(fns) ==> trace == old(trace) ++ [next.ServeHTTP(w, req(fns[fa].Auth(r)))]
//	  loop #0 invariant trace == old(trace) && fa > i          (no earlier authenticator accepted)
//
//	emitted func (Security*Middleware).Auth(r) (*http.Request, bool)
//	  ensures s == nil ==> result == (nil, false)
//	  ensures s != nil && credential absent  ==> result == (nil, false)
//	  ensures s != nil && credential present ==> result == s(r, token)   with token the first value
//	                                             (bearer: with the "Bearer " prefix trimmed)

const authInvokeName = "emitted.AuthMiddleware.Auth"

type authOrCtx struct {
	fnsCell, nextCell string
	F, N             string
	elemT            types.Type
	heap             string
}

func authOrParts(e *FuncEnc, fn *ssa.Function, st *state) (authOrCtx, bool) {
	var c authOrCtx
	if len(fn.FreeVars) != 2 {
		return c, false
	}
	c.fnsCell, c.nextCell = e.val[fn.FreeVars[0]], e.val[fn.FreeVars[1]]
	ft := fn.FreeVars[0].Type().Underlying().(*types.Pointer).Elem()
	sl, ok := ft.Underlying().(*types.Slice)
	if !ok {
		return c, false
	}
	c.elemT = sl.Elem()
	c.F = e.load(st, c.fnsCell, ft)
	c.N = e.load(st, c.nextCell, fn.FreeVars[1].Type().Underlying().(*types.Pointer).Elem())
	c.heap = e.heapName(st, e.D.heapKey(c.elemT), e.D.heapSort(c.elemT))
	return c, true
}

// acc(j): authenticator j is installed and accepts r.
func (c authOrCtx) acc(e *FuncEnc, r, j string) (accept, req string) {
	cell := sx("select", c.heap, sx("elem", sx("sl_base", c.F), sx("+", sx("sl_off", c.F), j)))
	ok := e.DynPureTerm(authInvokeName, 1, []string{cell, r}, []string{"Iface", "Int"}, "Bool")
	rq := e.DynPureTerm(authInvokeName, 0, []string{cell, r}, []string{"Iface", "Int"}, "Int")
	return and(not(eq(sx("if_tag", cell), "0")), ok), rq
}

func (c authOrCtx) firstAccept(e *FuncEnc, r string) string {
	hs := e.D.heapSort(c.elemT)
	f := e.D.UF("firstacc", []string{"Slice", hs, "Int"}, "Int")
	fa := sx(f, c.F, c.heap, r)
	accFa, _ := c.acc(e, r, fa)
	e.assume("true", and(sx("<=", "0", fa), sx("<=", fa, sx("sl_len", c.F)), implies(sx("<", fa, sx("sl_len", c.F)), accFa)))
	return fa
}

// leastLemma: the "no earlier accept" half of firstAccept, instantiated at j.
func (c authOrCtx) leastLemma(e *FuncEnc, r, fa, j string) string {
	accJ, _ := c.acc(e, r, j)
	return implies(and(sx("<=", "0", j), sx("<", j, fa)), not(accJ))
}

// InstallAuthFamilies attaches the contracts to the emitted auth functions.
func InstallAuthFamilies(em *Emitted) {
	for _, f := range em.W.Functions() {
		f := f
		name := relName(f)
		switch {
		case name == "authMiddlewareOr$1$1":
			c := &Contract{Name: f.String(), Emitted: true, TraceSpecified: true, Options: map[string]string{}, LoopInv: map[int][]*Clause{}, LoopDec: map[int]*Clause{}}
			c.RetHook = func(e *FuncEnc, results []string) []NamedFormula {
				w, r := e.val[f.Params[0]], e.val[f.Params[1]]
				ctx, ok := authOrParts(e, f, e.entry)
				if !ok {
					return []NamedFormula{{Name: "ensures#shape", Props: []string{"C11"}, Formula: "false"}}
				}
				fa := ctx.firstAccept(e, r)
				// lemma instances at the index the loop stopped at
				for _, b := range f.Blocks {
					for _, in := range b.Instrs {
						if phi, ok := in.(*ssa.Phi); ok && phi.Comment == "rangeindex" {
							if v, ok := e.val[phi]; ok {
								e.assume("true", ctx.leastLemma(e, r, fa, sx("+", v, "1")))
							}
						}
					}
				}
				_, rq := ctx.acc(e, r, fa)
				wh := e.declareEvent("http.ResponseWriter.WriteHeader", []string{"Iface", "Int"})
				sv := e.declareEvent("http.Handler.ServeHTTP", []string{"Iface", "Iface", "Int"})
				none := eq(fa, sx("sl_len", ctx.F))
				return []NamedFormula{
					{Name: "ensures#reject", Props: []string{"C11"}, Formula: implies(none, eq(e.cur.trace, sx("tr_cons", e.entry.trace, sx(wh, w, "401"))))},
					{Name: "ensures#accept", Props: []string{"C11"}, Formula: implies(not(none), eq(e.cur.trace, sx("tr_cons", e.entry.trace, sx(sv, ctx.N, w, rq))))},
				}
			}
			c.LoopHook = func(e *FuncEnc, ord int, env *cenv) []NamedFormula {
				r := e.val[f.Params[1]]
				ctx, ok := authOrParts(e, f, e.entry)
				if !ok {
					return nil
				}
				fa := ctx.firstAccept(e, r)
				iv, ok := env.vars["rangeindex"]
				if !ok {
					return []NamedFormula{{Name: "invariant#shape", Props: []string{"C11"}, Formula: "false"}}
				}
				e.assume("true", ctx.leastLemma(e, r, fa, sx("+", iv.s, "1")))
				return []NamedFormula{
					{Name: "invariant#quiet", Props: []string{"C11"}, Formula: eq(env.st.trace, e.entry.trace)},
					{Name: "invariant#no-earlier-accept", Props: []string{"C11"}, Formula: sx(">", fa, iv.s)},
				}
			}
			em.W.Contracts[f.String()] = c
		case strings.HasPrefix(name, "(Security") && strings.HasSuffix(name, "Middleware).Auth"):
			src := authSource(f)
			c := &Contract{Name: f.String(), Emitted: true, Options: map[string]string{}, LoopInv: map[int][]*Clause{}, LoopDec: map[int]*Clause{}}
			c.RetHook = func(e *FuncEnc, results []string) []NamedFormula {
				s, r := e.val[f.Params[0]], e.val[f.Params[1]]
				if src == "" {
					return []NamedFormula{{Name: "ensures#source", Props: []string{"C11"}, Formula: "false"}}
				}
				pf := &ParamsFamily{Em: em}
				st := e.entry
				// request parts
				reqS := f.Params[1].Type().(*types.Pointer).Elem()
				rst := reqS.Underlying().(*types.Struct)
				var u, hdr string
				for i := 0; i < rst.NumFields(); i++ {
					switch rst.Field(i).Name() {
					case "URL":
						u = e.load(st, "("+e.D.FieldAddrFn(reqS, i)+" "+r+")", rst.Field(i).Type())
					case "Header":
						hdr = e.load(st, "("+e.D.FieldAddrFn(reqS, i)+" "+r+")", rst.Field(i).Type())
					}
				}
				var p RefParam
				trim := false
				switch {
				case src == "bearer":
					p = RefParam{Name: "Authorization", In: "header"}
					trim = true
				case strings.HasPrefix(src, "header:"):
					p = RefParam{Name: strings.TrimPrefix(src, "header:"), In: "header"}
				case strings.HasPrefix(src, "query:"):
					p = RefParam{Name: strings.TrimPrefix(src, "query:"), In: "query"}
				}
				vs := pf.supplied(e, p, u, hdr, st)
				first := vs.at("0")
				token := first
				if trim {
					token = ite(hasPrefixLit(first, "Bearer "), sx("ssub", first, "7", sx("slen", first)), first)
				}
				name := "func:" + shortType(f.Params[0].Type())
				sorts := []string{"Int", "Int", "Str"}
				want0 := e.DynPureTerm(name, 0, []string{s, r, token}, sorts, "Int")
				want1 := e.DynPureTerm(name, 1, []string{s, r, token}, sorts, "Bool")
				none := and(eq(results[0], "0"), eq(results[1], "false"))
				return []NamedFormula{
					{Name: "ensures#not-installed", Props: []string{"C11", "C14"}, Formula: implies(eq(s, "0"), none)},
					{Name: "ensures#absent", Props: []string{"C11"}, Formula: implies(and(not(eq(s, "0")), not(vs.present)), none)},
					{Name: "ensures#present", Props: []string{"C11"}, Formula: implies(and(not(eq(s, "0")), vs.present), and(eq(results[0], want0), eq(results[1], want1)))},
				}
			}
			em.W.Contracts[f.String()] = c
		}
	}
	_ = fmt.Sprintf
}
