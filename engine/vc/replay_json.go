package vc

import (
	"bytes"
	"encoding/json"
	"fmt"
	"go/types"
	"math/rand"
	"os"
	"os/exec"
	"path/filepath"
	"regexp"
	"sort"
	"strings"
	"time"
)

// Replay search for the JSON properties: when a codec obligation fails, the
// real emitted code is exercised on generated values / documents of the type
// the obligation is about; a run that shows the defect is attached to the
// violation as its replay. The search is only a witness finder (never counted
// as proof); when it finds nothing the violation ends in no-failing-input-found.

const jsonReplayTest = `package emitted

import (
	"bytes"
	"encoding/json"
	"fmt"
	"math/rand"
	"os"
	"reflect"
	"strings"
	"testing"
	"time"
)

var zzStrings = []string{"", "a", "b c", "a\"b", "c\\d", "line\nbreak", "tab\there", "é世", "</script>", "null", "{}", "\x01"}
var zzKeys = []string{"k1", "zz key", "a\"b", "c\\d", "e\nf", "é", "k2", "u\x1fv", "d\x7f", "n\x00", "v\vt"}

var zzOneOfSet map[string]bool

func zzOneOf() map[string]bool {
	if zzOneOfSet == nil {
		zzOneOfSet = map[string]bool{}
		for _, n := range strings.Split(os.Getenv("ZZ_ONEOF"), ",") {
			if n != "" {
				zzOneOfSet[n] = true
			}
		}
	}
	return zzOneOfSet
}

func zzFill(r *rand.Rand, v reflect.Value, depth int) {
	switch v.Kind() {
	case reflect.String:
		v.SetString(zzStrings[r.Intn(len(zzStrings))])
	case reflect.Bool:
		v.SetBool(r.Intn(2) == 0)
	case reflect.Int, reflect.Int8, reflect.Int16, reflect.Int32, reflect.Int64:
		xs := []int64{0, 1, -1, 42, 1 << 30, -(1 << 30)}
		x := xs[r.Intn(len(xs))]
		if v.OverflowInt(x) {
			x = 1
		}
		v.SetInt(x)
	case reflect.Uint, reflect.Uint8, reflect.Uint16, reflect.Uint32, reflect.Uint64:
		v.SetUint(uint64(r.Intn(3)))
	case reflect.Float32, reflect.Float64:
		xs := []float64{0, 1.5, -2.25, 1e6, 0.125}
		v.SetFloat(xs[r.Intn(len(xs))])
	case reflect.Slice:
		if v.Type().Elem().Kind() == reflect.Uint8 {
			v.SetBytes([]byte("{\"raw\":1}"))
			return
		}
		switch n := r.Intn(4); n {
		case 0:
			// nil
		default:
			s := reflect.MakeSlice(v.Type(), n-1, n-1)
			for i := 0; i < n-1; i++ {
				if depth < 4 {
					zzFill(r, s.Index(i), depth+1)
				}
			}
			v.Set(s)
		}
	case reflect.Map:
		n := r.Intn(4)
		if n == 0 {
			return
		}
		m := reflect.MakeMap(v.Type())
		for i := 0; i < n-1; i++ {
			k := reflect.New(v.Type().Key()).Elem()
			k.SetString(zzKeys[r.Intn(len(zzKeys))])
			e := reflect.New(v.Type().Elem()).Elem()
			if depth < 4 {
				zzFill(r, e, depth+1)
			}
			m.SetMapIndex(k, e)
		}
		v.Set(m)
	case reflect.Interface:
		xs := []any{nil, "s", 1.5, true, map[string]any{"x": 1.0}, []any{"y"}}
		x := xs[r.Intn(len(xs))]
		if x != nil {
			v.Set(reflect.ValueOf(x))
		}
	case reflect.Struct:
		if v.Type() == reflect.TypeOf(time.Time{}) {
			v.Set(reflect.ValueOf(time.Unix(int64(r.Intn(2000000000)), int64(r.Intn(1000))*1000000).UTC()))
			return
		}
		if zzOneOf()[v.Type().Name()] && v.NumField() > 0 {
			// a oneOf value holds exactly one variant
			ch := v.Field(r.Intn(v.NumField()))
			if f := ch.FieldByName("IsSet"); ch.Kind() == reflect.Struct && f.IsValid() {
				f.SetBool(true)
				zzFill(r, ch.FieldByName("Value"), depth+1)
			}
			return
		}
		if f := v.FieldByName("IsSet"); f.IsValid() && v.NumField() == 2 {
			if r.Intn(2) == 0 {
				return // unset / null: Value stays zero
			}
			f.SetBool(true)
			zzFill(r, v.FieldByName("Value"), depth+1)
			return
		}
		for i := 0; i < v.NumField(); i++ {
			if v.Field(i).CanSet() && depth < 5 {
				zzFill(r, v.Field(i), depth+1)
			}
		}
	case reflect.Ptr:
		// left nil
	}
}

// zzSame: equality of values as the round-trip property means it.
func zzSame(a, b reflect.Value) bool {
	if a.Kind() != b.Kind() {
		return false
	}
	switch a.Kind() {
	case reflect.Slice:
		if a.Len() != b.Len() {
			return false
		}
		for i := 0; i < a.Len(); i++ {
			if !zzSame(a.Index(i), b.Index(i)) {
				return false
			}
		}
		return true
	case reflect.Map:
		if a.Len() != b.Len() {
			return false
		}
		for _, k := range a.MapKeys() {
			bv := b.MapIndex(k)
			if !bv.IsValid() || !zzSame(a.MapIndex(k), bv) {
				return false
			}
		}
		return true
	case reflect.Struct:
		if a.Type() == reflect.TypeOf(time.Time{}) {
			return a.Interface().(time.Time).Equal(b.Interface().(time.Time))
		}
		if f := a.FieldByName("IsSet"); f.IsValid() && a.NumField() == 2 {
			if f.Bool() != b.FieldByName("IsSet").Bool() {
				return false
			}
			return !f.Bool() || zzSame(a.FieldByName("Value"), b.FieldByName("Value"))
		}
		for i := 0; i < a.NumField(); i++ {
			if !zzSame(a.Field(i), b.Field(i)) {
				return false
			}
		}
		return true
	case reflect.Interface:
		x, _ := json.Marshal(a.Interface())
		y, _ := json.Marshal(b.Interface())
		return string(x) == string(y)
	}
	return reflect.DeepEqual(a.Interface(), b.Interface())
}

type zzDoc struct {
	Doc    string   ` + "`json:\"doc\"`" + `
	Valid  bool     ` + "`json:\"valid\"`" + `
	Names  []string ` + "`json:\"names\"`" + `
	What   string   ` + "`json:\"what\"`" + `
}

func TestZZReplay(t *testing.T) {
	mk := zzTypes[os.Getenv("ZZ_TYPE")]
	if mk == nil {
		fmt.Println("ZZ-NOTYPE")
		return
	}
	r := rand.New(rand.NewSource(1))
	declared := strings.Split(os.Getenv("ZZ_DECLARED"), ",")
	for i := 0; i < 400; i++ {
		p := mk()
		zzFill(r, reflect.ValueOf(p).Elem(), 0)
		// additional-property keys equal to declared names are excluded
		if ap := reflect.ValueOf(p).Elem(); ap.Kind() == reflect.Struct {
			if f := ap.FieldByName("AdditionalProperties"); f.IsValid() && f.Kind() == reflect.Map {
				for _, d := range declared {
					if d != "" {
						f.SetMapIndex(reflect.ValueOf(d), reflect.Value{})
					}
				}
			}
		}
		m, ok := reflect.ValueOf(p).Elem().Interface().(json.Marshaler)
		if !ok {
			fmt.Println("ZZ-NOMARSHALER")
			return
		}
		bs, err := m.MarshalJSON()
		if err != nil {
			continue
		}
		if i < 60 {
			var cb bytes.Buffer
			if json.Compact(&cb, bs) == nil {
				fmt.Printf("ZZ-SAMPLE %s\n", cb.String())
			}
		}
		if !json.Valid(bs) {
			fmt.Printf("ZZ-FAIL invalid\nvalue: %+v\njson: %s\n", reflect.ValueOf(p).Elem().Interface(), bs)
			return
		}
		q := mk()
		u, ok := q.(json.Unmarshaler)
		if !ok {
			continue
		}
		if err := u.UnmarshalJSON(bs); err != nil {
			fmt.Printf("ZZ-FAIL decode-of-own-encoding: %v\nvalue: %+v\njson: %s\n", err, reflect.ValueOf(p).Elem().Interface(), bs)
			return
		}
		if !zzSame(reflect.ValueOf(p).Elem(), reflect.ValueOf(q).Elem()) {
			fmt.Printf("ZZ-FAIL roundtrip\nvalue: %+v\njson: %s\ngot:   %+v\n", reflect.ValueOf(p).Elem().Interface(), bs, reflect.ValueOf(q).Elem().Interface())
			return
		}
	}
	// documents generated from the schema
	if f := os.Getenv("ZZ_DOCS"); f != "" {
		data, _ := os.ReadFile(f)
		var docs []zzDoc
		_ = json.Unmarshal(data, &docs)
		for _, d := range docs {
			q := mk()
			err := q.(json.Unmarshaler).UnmarshalJSON([]byte(d.Doc))
			switch {
			case d.Valid && err != nil:
				fmt.Printf("ZZ-FAIL valid-document-rejected (%s): %v\ndoc: %s\n", d.What, err, d.Doc)
				return
			case !d.Valid && err == nil:
				fmt.Printf("ZZ-FAIL faulty-document-accepted (%s)\ndoc: %s\ngot: %+v\n", d.What, d.Doc, reflect.ValueOf(q).Elem().Interface())
				return
			case !d.Valid && err != nil:
				named := len(d.Names) == 0
				for _, n := range d.Names {
					if strings.Contains(err.Error(), n) {
						named = true
					}
				}
				if !named {
					fmt.Printf("ZZ-FAIL error-does-not-name-property (%s): %v\ndoc: %s\n", d.What, err, d.Doc)
					return
				}
			case d.Valid:
				// re-encode and compare as JSON values
				bs, err := q.(interface{ MarshalJSON() ([]byte, error) }).MarshalJSON()
				_ = bs
				if err != nil {
					fmt.Printf("ZZ-FAIL valid-document-does-not-re-encode (%s): %v\ndoc: %s\n", d.What, err, d.Doc)
					return
				}
				var x, y any
				_ = json.Unmarshal([]byte(d.Doc), &x)
				_ = json.Unmarshal(bs, &y)
				if !zzJSONEq(x, y) {
					fmt.Printf("ZZ-FAIL re-encoding-differs (%s)\ndoc: %s\nre-encoded: %s\n", d.What, d.Doc, bs)
					return
				}
			}
		}
	}
	fmt.Println("ZZ-OK")
}

// zzJSONEq: JSON values equal up to null-valued / absent members of optional kind
// (the caller only generates documents without nulls for this comparison).
func zzJSONEq(a, b any) bool {
	x, _ := json.Marshal(a)
	y, _ := json.Marshal(b)
	return string(x) == string(y)
}
`

// typeOfObligation: the Go type name an obligation of the codec family is about.
var reOblType = regexp.MustCompile(`\]\.(?:lemma\(|\(\*?)([A-Za-z0-9_]+)\)`)

func (jf *JSONFamily) ReplayJSON(cr *CheckRun, job *EmittedJob, fl *Failure) {
	m := reOblType.FindStringSubmatch(fl.Obl.Name)
	if m == nil {
		return
	}
	tname := m[1]
	jt := jf.Types[tname]
	dir := job.Em.Dir
	if _, err := os.Stat(dir); err != nil {
		return
	}
	// registry of the codec types of the package
	scope := job.Em.Pkg.Pkg.Scope()
	var reg strings.Builder
	reg.WriteString("package emitted\n\nvar zzTypes = map[string]func() any{\n")
	for _, n := range scope.Names() {
		tn, ok := scope.Lookup(n).(*types.TypeName)
		if !ok || tn.IsAlias() {
			continue
		}
		nt, ok := tn.Type().(*types.Named)
		if !ok || nt.TypeParams().Len() > 0 {
			continue
		}
		ms := types.NewMethodSet(types.NewPointer(nt))
		if ms.Lookup(nil, "MarshalJSON") == nil || ms.Lookup(nil, "UnmarshalJSON") == nil {
			continue
		}
		fmt.Fprintf(&reg, "\t%q: func() any { return new(%s) },\n", n, n)
	}
	reg.WriteString("}\n")
	replayMu.Lock()
	defer replayMu.Unlock()
	regFile, testFile := filepath.Join(dir, "zz_replay_types.go"), filepath.Join(dir, "zz_replay_test.go")
	_ = os.WriteFile(regFile, []byte(reg.String()), 0o644)
	_ = os.WriteFile(testFile, []byte(jsonReplayTest), 0o644)
	defer os.Remove(regFile)
	defer os.Remove(testFile)
	env := append(os.Environ(), "ZZ_TYPE="+tname, "GOFLAGS=-mod=mod", "GOPROXY=off", "GOSUMDB=off", "GOTOOLCHAIN=local")
	var declared []string
	if jt != nil {
		for _, mm := range jt.Members {
			declared = append(declared, mm.Name)
		}
		if docs := jf.schemaDocs(jt); len(docs) > 0 {
			data, _ := json.Marshal(docs)
			f := filepath.Join(dir, "zz_docs.json")
			_ = os.WriteFile(f, data, 0o644)
			defer os.Remove(f)
			env = append(env, "ZZ_DOCS="+f)
		}
	}
	env = append(env, "ZZ_DECLARED="+strings.Join(declared, ","))
	var oneOfs []string
	for n, t := range jf.Types {
		if t != nil && t.Schema != nil && len(t.Schema.OneOf) > 0 {
			oneOfs = append(oneOfs, n)
		}
	}
	sort.Strings(oneOfs)
	env = append(env, "ZZ_ONEOF="+strings.Join(oneOfs, ","))
	cmd := exec.Command("go", "test", "-vet=off", "-count=1", "-timeout", "60s", "-run", "TestZZReplay", "-v", ".")
	cmd.Dir = dir
	cmd.Env = env
	var out bytes.Buffer
	cmd.Stdout, cmd.Stderr = &out, &out
	done := make(chan error, 1)
	go func() { done <- cmd.Run() }()
	select {
	case <-done:
	case <-time.After(90 * time.Second):
		_ = cmd.Process.Kill()
	}
	text := out.String()
	what := "400 generated values of " + tname + " (encode, json.Valid, decode, compare) and documents generated from the schema"
	if i := strings.Index(text, "ZZ-FAIL"); i >= 0 {
		end := i + 900
		if end > len(text) {
			end = len(text)
		}
		fl.Replay = &ReplayResult{Reproduced: true, Input: what, Expected: "valid JSON, decode(encode(v)) is v, valid documents accepted, faulty ones rejected with the property named", Observed: strings.TrimSpace(text[i:end]), Cmd: "go test (generated harness zz_replay_test.go in the emitted package)"}
		return
	}
	// schema conformance of the samples (C07), judged here from the reference schema
	if jt != nil {
		for _, line := range strings.Split(text, "\n") {
			if !strings.HasPrefix(line, "ZZ-SAMPLE ") {
				continue
			}
			doc := strings.TrimPrefix(line, "ZZ-SAMPLE ")
			var v any
			if json.Unmarshal([]byte(doc), &v) != nil {
				continue
			}
			if msg := validateAgainst(jt.Schema, v, 0); msg != "" {
				fl.Replay = &ReplayResult{Reproduced: true, Input: what, Expected: "the encoded value validates against its schema", Observed: msg + "\njson: " + doc, Cmd: "go test (generated harness) + reference schema validator"}
				return
			}
		}
	}
	obs := "no failing value or document found"
	if !strings.Contains(text, "ZZ-OK") {
		obs = "harness did not complete: " + truncate(text, 300)
	}
	fl.Replay = &ReplayResult{Reproduced: false, Input: what, Observed: obs, Cmd: "go test (generated harness zz_replay_test.go in the emitted package)", Bounded: strings.Contains(text, "ZZ-OK")}
}

// validateAgainst: a small purpose-built schema checker (required present,
// names declared unless additionalProperties, null only where nullable, JSON
// types as declared, allOf merged).
func validateAgainst(s *RefSchema, v any, depth int) string {
	if s == nil || depth > 8 {
		return ""
	}
	if v == nil {
		if s.Nullable {
			return ""
		}
		if s.Type == "" && len(s.AllOf) == 0 {
			return ""
		}
		return "null where the schema is not nullable"
	}
	if len(s.OneOf) > 0 {
		return ""
	}
	if s.IsObjectLike() {
		obj, ok := v.(map[string]any)
		if !ok {
			return fmt.Sprintf("%T where an object is declared", v)
		}
		props := map[string]*RefSchema{}
		req := map[string]bool{}
		ap, apSchema := false, (*RefSchema)(nil)
		var collect func(x *RefSchema, d int)
		collect = func(x *RefSchema, d int) {
			if x == nil || d > 6 {
				return
			}
			for _, p := range x.Props {
				props[p.Name] = p.Schema
			}
			for r := range x.Required {
				req[r] = true
			}
			if x.APDeclared {
				ap, apSchema = true, x.APSchema
			}
			for _, m := range x.AllOf {
				collect(m, d+1)
			}
		}
		collect(s, 0)
		for r := range req {
			if _, ok := obj[r]; !ok {
				return fmt.Sprintf("required property %q is missing", r)
			}
		}
		var keys []string
		for k := range obj {
			keys = append(keys, k)
		}
		sort.Strings(keys)
		for _, k := range keys {
			ps, declared := props[k]
			switch {
			case declared:
				if msg := validateAgainst(ps, obj[k], depth+1); msg != "" {
					return fmt.Sprintf("property %q: %s", k, msg)
				}
			case ap:
				if msg := validateAgainst(apSchema, obj[k], depth+1); msg != "" {
					return fmt.Sprintf("additional property %q: %s", k, msg)
				}
			default:
				return fmt.Sprintf("member %q is not a declared property", k)
			}
		}
		return ""
	}
	switch s.Type {
	case "array":
		arr, ok := v.([]any)
		if !ok {
			return fmt.Sprintf("%T where an array is declared", v)
		}
		for i, x := range arr {
			if msg := validateAgainst(s.Items, x, depth+1); msg != "" {
				return fmt.Sprintf("item %d: %s", i, msg)
			}
		}
	case "string":
		str, ok := v.(string)
		if !ok {
			return fmt.Sprintf("%T where a string is declared", v)
		}
		if s.Format == "date-time" {
			layout, ok := timeLayoutOf(s)
			if !ok {
				return ""
			}
			if _, err := time.Parse(layout, str); err != nil {
				return "not a date-time of the declared layout (" + layout + "): " + str
			}
		}
	case "integer":
		f, ok := v.(float64)
		if !ok || f != float64(int64(f)) {
			return fmt.Sprintf("%v where an integer is declared", v)
		}
	case "number":
		if _, ok := v.(float64); !ok {
			return fmt.Sprintf("%T where a number is declared", v)
		}
	case "boolean":
		if _, ok := v.(bool); !ok {
			return fmt.Sprintf("%T where a boolean is declared", v)
		}
	}
	return ""
}

type schemaDoc struct {
	Doc   string   `json:"doc"`
	Valid bool     `json:"valid"`
	Names []string `json:"names"`
	What  string   `json:"what"`
}

// schemaDocs: documents generated FROM the schema (optional subsets, extra
// members where allowed) and their single-fault mutations.
func (jf *JSONFamily) schemaDocs(jt *jsonType) []schemaDoc {
	if !jt.Schema.IsObjectLike() {
		return nil
	}
	r := rand.New(rand.NewSource(7))
	var out []schemaDoc
	gen := func(pick func(m jsonMember) bool, extra bool) map[string]any {
		doc := map[string]any{}
		for _, m := range jt.Members {
			if m.Required || pick(m) {
				doc[m.Name] = sampleValue(m.Schema, r, 0)
			}
		}
		if extra && jt.AP {
			doc["zz_extra"] = sampleValue(jt.Schema.APSchema, r, 0)
		}
		return doc
	}
	enc := func(d map[string]any) string { b, _ := json.Marshal(d); return string(b) }
	for i := 0; i < 6; i++ {
		d := gen(func(jsonMember) bool { return r.Intn(2) == 0 }, i%2 == 0)
		out = append(out, schemaDoc{Doc: enc(d), Valid: true, What: "document generated from the schema"})
	}
	full := gen(func(jsonMember) bool { return true }, false)
	for _, m := range jt.Members {
		if m.Required {
			d := map[string]any{}
			for k, v := range full {
				if k != m.Name {
					d[k] = v
				}
			}
			out = append(out, schemaDoc{Doc: enc(d), Valid: false, Names: []string{m.Name}, What: "required property " + m.Name + " dropped"})
		}
		if k := jsonKindOfSchema(m.Schema); k != 0 {
			d := map[string]any{}
			for kk, v := range full {
				d[kk] = v
			}
			var wrong any = "zz"
			if k == 3 {
				wrong = 17.0
			}
			d[m.Name] = wrong
			out = append(out, schemaDoc{Doc: enc(d), Valid: false, Names: []string{m.Name}, What: "property " + m.Name + " with a value of another JSON type"})
		}
	}
	return out
}

func sampleValue(s *RefSchema, r *rand.Rand, depth int) any {
	if s == nil || depth > 4 {
		return "x"
	}
	if s.IsObjectLike() {
		d := map[string]any{}
		var collect func(x *RefSchema, dd int)
		collect = func(x *RefSchema, dd int) {
			if x == nil || dd > 5 {
				return
			}
			for _, p := range x.Props {
				if x.Required[p.Name] || r.Intn(2) == 0 {
					d[p.Name] = sampleValue(p.Schema, r, depth+1)
				}
			}
			for _, m := range x.AllOf {
				collect(m, dd+1)
			}
		}
		collect(s, 0)
		return d
	}
	switch s.Type {
	case "array":
		n := r.Intn(3)
		arr := make([]any, 0, n)
		for i := 0; i < n; i++ {
			arr = append(arr, sampleValue(s.Items, r, depth+1))
		}
		return arr
	case "string":
		switch s.Format {
		case "date-time":
			if layout, ok := timeLayoutOf(s); ok {
				return time.Date(2020, 1, 2, 3, 4, 5, 0, time.UTC).Format(layout)
			}
			return "2020-01-02T03:04:05Z"
		case "date":
			return "2020-01-02"
		}
		return []string{"a", "b c", "q\"r"}[r.Intn(3)]
	case "integer":
		return float64(r.Intn(100))
	case "number":
		return float64(r.Intn(100)) + 0.5
	case "boolean":
		return r.Intn(2) == 0
	}
	return "x"
}
