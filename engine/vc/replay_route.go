package vc

import (
	"bytes"
	"fmt"
	"go/types"
	"os"
	"os/exec"
	"path/filepath"
	"sort"
	"strings"
	"sync"
	"time"

	"golang.org/x/tools/go/ssa"
)

var replayMu sync.Mutex
var replaySeq int

func relType(t types.Type) string {
	return types.TypeString(t, func(p *types.Package) string {
		if p.Path() == "emitted" {
			return ""
		}
		return p.Name()
	})
}

// apiSetup emits Go statements that fill an API value with recording hooks.
func (rf *RouteFamily) apiSetup(corsInstalled bool, accept bool) (string, map[string]bool) {
	var b strings.Builder
	imports := map[string]bool{}
	st := rf.api.Struct
	// operation handlers
	type kv struct {
		k   [2]string
		idx int
	}
	var ops []kv
	for k, idx := range rf.opField {
		ops = append(ops, kv{k, idx})
	}
	sort.Slice(ops, func(i, j int) bool { return ops[i].idx < ops[j].idx })
	for _, o := range ops {
		f := st.Field(o.idx)
		sig := f.Type().Underlying().(*types.Signature)
		var ps []string
		for i := 0; i < sig.Params().Len(); i++ {
			ps = append(ps, fmt.Sprintf("_ %s", relType(sig.Params().At(i).Type())))
		}
		res := ""
		if sig.Results().Len() == 1 {
			res = relType(sig.Results().At(0).Type())
		}
		fmt.Fprintf(&b, "\tapi.%s = func(%s) %s { called = append(called, %q); return nil }\n", f.Name(), strings.Join(ps, ", "), res, o.k[0]+" "+o.k[1])
		if strings.Contains(strings.Join(ps, ","), "context.") {
			imports["context"] = true
		}
	}
	// authenticators
	var srcs []string
	for s := range rf.authFld {
		srcs = append(srcs, s)
	}
	sort.Strings(srcs)
	for _, s := range srcs {
		f := st.Field(rf.authFld[s])
		fmt.Fprintf(&b, "\tapi.%s = func(r *http.Request, token string) (*http.Request, bool) { auths = append(auths, %q); return r, %v }\n", f.Name(), s, accept)
	}
	if idx, ok := rf.api.fieldIdx["CORSHandler"]; ok && corsInstalled {
		fmt.Fprintf(&b, "\tapi.%s = func(ms, hs []string) http.Handler { return corsMarker{ms, hs} }\n", st.Field(idx).Name())
	}
	return b.String(), imports
}

// ReplayRoute runs a (path, method) witness against the emitted route function
// of a node and compares with the executable reference.
func (rf *RouteFamily) ReplayRoute(f *Failure, fn *ssa.Function) {
	w := f.Witness
	if w == nil {
		return
	}
	path, method := w["path"], w["method"]
	node := rf.Nodes[fn]
	isRoot := fn == rf.Root
	cors := w["cors"] != "" && w["cors"] != "0"
	exp := rf.RefRouteExec(node, isRoot, path, method, cors)
	expected := "notfound||false|auth="
	if exp.Found && exp.Cors {
		ms, hs, _ := rf.Em.Ref.RefCORS(exp.Template)
		sort.Strings(ms)
		sort.Strings(hs)
		expected = fmt.Sprintf("cors[%s;%s]||false|auth=", strings.Join(ms, ","), strings.Join(hs, ","))
	} else if exp.Found {
		var as []string
		for _, alt := range exp.Op.Security {
			if len(alt) == 1 {
				switch alt[0].Kind() {
				case "bearer":
					as = append(as, "bearer")
				case "apikey-header":
					as = append(as, "header:"+alt[0].Name)
				case "apikey-query":
					as = append(as, "query:"+alt[0].Name)
				default:
					as = append(as, "unsupported:"+alt[0].Key)
				}
			} else {
				as = append(as, fmt.Sprintf("and(%d)", len(alt)))
			}
		}
		expected = fmt.Sprintf("%s %s|%s|true|auth=%s", exp.Op.Method, exp.Op.Template, exp.Template, strings.Join(as, ","))
	}
	setupReject, imps := rf.apiSetup(cors, false)
	setupAccept, _ := rf.apiSetup(cors, true)
	replayMu.Lock()
	replaySeq++
	id := replaySeq
	replayMu.Unlock()
	var src strings.Builder
	fmt.Fprintf(&src, "package emitted\n\nimport (\n\t\"fmt\"\n\t\"net/http\"\n\t\"net/http/httptest\"\n\t\"sort\"\n\t\"strings\"\n\t\"testing\"\n")
	for i := range imps {
		fmt.Fprintf(&src, "\t%q\n", i)
	}
	fmt.Fprintf(&src, ")\n\ntype corsMarker%d struct{ ms, hs []string }\n\nfunc (corsMarker%d) ServeHTTP(http.ResponseWriter, *http.Request) {}\n\n", id, id)
	reqURL := "http://x/"
	hdrs := ""
	{
		var qs []string
		var srcs []string
		for sname := range rf.authFld {
			srcs = append(srcs, sname)
		}
		sort.Strings(srcs)
		for _, sname := range srcs {
			if strings.HasPrefix(sname, "header:") {
				hdrs += fmt.Sprintf("\t\t\t\t\treq.Header.Set(%q, \"k\")\n", strings.TrimPrefix(sname, "header:"))
			}
			if strings.HasPrefix(sname, "query:") {
				qs = append(qs, strings.TrimPrefix(sname, "query:")+"=k")
			}
		}
		if len(qs) > 0 {
			reqURL += "?" + strings.Join(qs, "&")
		}
	}
	body := func(setup string, tag string) string {
		s := strings.ReplaceAll(setup, "corsMarker{", fmt.Sprintf("corsMarker%d{", id))
		return fmt.Sprintf(`	{
		var called, auths []string
		api := &API{}
%s
		h, tpl, hp := api.%s(%q, %q)
		desc := "notfound"
		if h != nil {
			if cm, ok := h.(corsMarker%d); ok {
				ms := append([]string{}, cm.ms...)
				hs := append([]string{}, cm.hs...)
				sort.Strings(ms)
				sort.Strings(hs)
				desc = "cors[" + strings.Join(ms, ",") + ";" + strings.Join(hs, ",") + "]"
			} else {
				func() {
					defer func() { recover() }()
					req := httptest.NewRequest(%q, %q, nil)
					req.Header.Set("Authorization", "Bearer tok")
%s
					h.ServeHTTP(httptest.NewRecorder(), req)
				}()
				desc = strings.Join(called, "+")
			}
		}
		fmt.Printf("REPLAY-%s %%s|%%s|%%v|auth=%%s\n", desc, tpl, hp, strings.Join(auths, ","))
		_ = called
	}
`, s, fn.Name(), path, method, id, safeMethod(method), reqURL, hdrs, tag)
	}
	fmt.Fprintf(&src, "func TestReplay%d(t *testing.T) {\n%s%s}\n", id, body(setupReject, "REJECT"), body(setupAccept, "ACCEPT"))
	file := filepath.Join(rf.Em.Dir, fmt.Sprintf("zz_replay%d_test.go", id))
	_ = os.WriteFile(file, []byte(src.String()), 0o644)
	defer os.Remove(file)
	replayMu.Lock()
	defer replayMu.Unlock()
	cmd := exec.Command("go", "test", "-v", "-vet=off", "-count=1", "-timeout", "60s", "-run", fmt.Sprintf("^TestReplay%d$", id), ".")
	cmd.Dir = rf.Em.Dir
	cmd.Env = append(os.Environ(), goEnv...)
	var out bytes.Buffer
	cmd.Stdout = &out
	cmd.Stderr = &out
	t0 := time.Now()
	_ = cmd.Run()
	_ = t0
	res := &ReplayResult{Input: fmt.Sprintf("%s(%q, %q) corsInstalled=%v", fn.Name(), path, method, cors), Expected: expected, Cmd: "go test -run TestReplay (generated in the emitted package)", Output: truncate(out.String(), 2000)}
	var rej, acc string
	for _, l := range strings.Split(out.String(), "\n") {
		if strings.HasPrefix(l, "REPLAY-REJECT ") {
			rej = strings.TrimPrefix(l, "REPLAY-REJECT ")
		}
		if strings.HasPrefix(l, "REPLAY-ACCEPT ") {
			acc = strings.TrimPrefix(l, "REPLAY-ACCEPT ")
		}
	}
	// observed: operation from the accept run, authenticator list from the reject run
	obs := acc
	if i := strings.Index(acc, "|auth="); i >= 0 {
		if j := strings.Index(rej, "|auth="); j >= 0 {
			obs = acc[:i] + rej[j:]
		}
	}
	if !exp.Found {
		// not found: nothing is called
	}
	res.Observed = obs
	res.Reproduced = obs != "" && !sameReplay(obs, expected)
	f.Replay = res
}

func safeMethod(m string) string {
	for _, r := range m {
		if r < 'A' || r > 'Z' {
			return "GET"
		}
	}
	if m == "" {
		return "GET"
	}
	return m
}

// sameReplay compares "op|tpl|hp|auth=list" ignoring the case of header names.
func sameReplay(a, b string) bool {
	return strings.EqualFold(a, b)
}
