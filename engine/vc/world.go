package vc

import (
	"fmt"
	"go/types"
	"os"
	"sort"
	"strings"
	"sync"

	"golang.org/x/tools/go/packages"
	"golang.org/x/tools/go/ssa"
	"golang.org/x/tools/go/ssa/ssautil"
)

// World is one loaded program plus the verification configuration.
type World struct {
	Prog          *ssa.Program
	Pkgs          []*packages.Package
	SSAPkgs       []*ssa.Package
	ModulePfx     []string // package path prefixes considered "module" code
	Contracts     map[string]*Contract
	CheckOverflow bool
	JSONViews bool // ghost JSON writer views are in use (jsonw.go)
	InlineNamed func(f *ssa.Function) bool // module functions unfolded at their call sites (family helpers)
	InlineClosures bool // unfold calls of acyclic lexically nested closures
	InlineSmall   bool
	NoUnroll      bool // keep loops over slice literals as loops (cut with invariants)

	FieldFact      func(e *FuncEnc, structT types.Type, field int, base, val string) string
	MapValueFact   func(e *FuncEnc, declared types.Type, val, has string) string // declared: the static type of the map expression
	ElemFact       func(e *FuncEnc, elem types.Type, val string) string
	InvokeSummary  func(e *FuncEnc, cc *ssa.CallCommon) bool
	LoopSummary    func(e *FuncEnc, li *loopInfo) bool
	LoopSummaryMatch func(li *loopInfo) bool // side-effect-free: LoopSummary would replace this loop
	GlobalFact     func(e *FuncEnc, g *ssa.Global, val string) string
	DynResultFact  func(e *FuncEnc, name string, results []string, rts []types.Type) string
	DynamicPolicy  func(e *FuncEnc, in ssa.Instruction, name string) CallKind
	ExternalPolicy func(full string) CallKind
	Library        map[string]LibModel

	FSStable  bool // dynamic calls cannot reach a file-system writer
	FSWriters []string
	mod       map[*ssa.Function]*modInfo
	allFns    []*ssa.Function
	impls     map[string][]*ssa.Function
	modDone   bool
	modOnce   sync.Once
	fnsOnce   sync.Once
}

type modInfo struct {
	keys  map[string]bool
	top   bool
	trace bool
}

// Load loads packages (patterns relative to dir) and builds SSA.
func Load(dir string, tags string, patterns ...string) (*World, error) {
	cfg := &packages.Config{Mode: packages.LoadAllSyntax, Dir: dir, Env: append(os.Environ(), "GOFLAGS=-mod=mod", "GOPROXY=off", "GOSUMDB=off", "GOTOOLCHAIN=local")}
	if tags != "" {
		cfg.BuildFlags = []string{"-tags=" + tags}
	}
	pkgs, err := packages.Load(cfg, patterns...)
	if err != nil {
		return nil, err
	}
	var errs []string
	for _, p := range pkgs {
		for _, e := range p.Errors {
			errs = append(errs, e.Error())
		}
	}
	if len(errs) > 0 {
		return nil, fmt.Errorf("package errors: %s", strings.Join(errs, "; "))
	}
	prog, spkgs := ssautil.AllPackages(pkgs, ssa.InstantiateGenerics)
	prog.Build()
	w := &World{Prog: prog, Pkgs: pkgs, SSAPkgs: spkgs, Contracts: map[string]*Contract{}, Library: map[string]LibModel{}}
	for _, p := range pkgs {
		w.ModulePfx = append(w.ModulePfx, p.PkgPath)
	}
	return w, nil
}

func (w *World) IsModule(f *ssa.Function) bool {
	pkg := f.Pkg
	if pkg == nil {
		if f.Origin() != nil {
			pkg = f.Origin().Pkg
		}
		if pkg == nil && f.Parent() != nil {
			return w.IsModule(f.Parent())
		}
		if pkg == nil {
			return false
		}
	}
	return w.isModulePath(pkg.Pkg.Path())
}

func (w *World) isModulePath(p string) bool {
	for _, m := range w.ModulePfx {
		if p == m {
			return true
		}
	}
	return false
}

// ContractFor finds the contract attached to f (by its qualified name).
func (w *World) ContractFor(f *ssa.Function) *Contract {
	if c, ok := w.Contracts[f.String()]; ok {
		return c
	}
	if o := f.Origin(); o != nil {
		if c, ok := w.Contracts[o.String()]; ok {
			return c
		}
		if c, ok := w.Contracts[stripTypeArgs(o.String())]; ok {
			return c
		}
	}
	return nil
}

// stripTypeArgs: "(emitted.Maybe[T]).Get" -> "(emitted.Maybe).Get"
func stripTypeArgs(s string) string {
	var b strings.Builder
	depth := 0
	for _, r := range s {
		switch r {
		case '[':
			depth++
			continue
		case ']':
			depth--
			continue
		}
		if depth == 0 {
			b.WriteRune(r)
		}
	}
	return b.String()
}

// Functions returns all module functions (including anonymous ones and generic
// instantiations reachable from them), sorted by name.
func (w *World) Functions() []*ssa.Function {
	w.fnsOnce.Do(w.computeFunctions)
	return w.allFns
}

func (w *World) computeFunctions() {
	all := ssautil.AllFunctions(w.Prog)
	for f := range all {
		if f.Blocks == nil || f.Synthetic != "" && !strings.Contains(f.Synthetic, "instance") {
			continue
		}
		if f.TypeParams().Len() > 0 && len(f.TypeArgs()) == 0 {
			continue // uninstantiated generic
		}
		if !w.IsModule(f) {
			continue
		}
		w.allFns = append(w.allFns, f)
	}
	sort.Slice(w.allFns, func(i, j int) bool { return w.allFns[i].String() < w.allFns[j].String() })
}

// ---------------------------------------------------------------- mod sets

// ModSet returns the heap keys f may write (transitively), whether it may write
// anything (top), and whether it may append to the event trace.
func (w *World) ModSet(f *ssa.Function) (map[string]bool, bool, bool) {
	w.computeMods()
	m := w.mod[f]
	if m == nil {
		if f.Origin() != nil && w.mod[f.Origin()] != nil {
			m = w.mod[f.Origin()]
		} else {
			return nil, true, true
		}
	}
	return m.keys, m.top, m.trace
}

func (w *World) computeMods() {
	w.modOnce.Do(w.computeModsOnce)
}

func (w *World) computeModsOnce() {
	w.modDone = true
	w.mod = map[*ssa.Function]*modInfo{}
	d := NewDecls()
	fns := w.Functions()
	type site struct {
		callee *ssa.Function
	}
	calls := map[*ssa.Function][]*ssa.Function{}
	for _, f := range fns {
		mi := &modInfo{keys: map[string]bool{}}
		w.mod[f] = mi
		tmp := &FuncEnc{W: w, Fn: f, D: d}
		tmp.heapSorts = map[string]string{}
		for _, b := range f.Blocks {
			for _, in := range b.Instrs {
				switch x := in.(type) {
				case *ssa.Store:
					if a, ok := x.Addr.(*ssa.Alloc); ok && !a.Heap {
						// non-escaping stack cell: still a heap key in our model, but
						// invisible to callers
						continue
					}
					for _, lf := range tmp.leaves(x.Val.Type(), func(s string) string { return s }, 0) {
						mi.keys[lf.key] = true
					}
				case *ssa.MapUpdate:
					vk, hk, _, _, _, _ := tmp.mapKeys(x.Map.Type().Underlying().(*types.Map))
					mi.keys[vk] = true
					mi.keys[hk] = true
				case ssa.CallInstruction:
					c := x.Common()
					if c.IsInvoke() {
						pol := CallHavoc
						if w.DynamicPolicy != nil {
							pol = w.DynamicPolicy(nil, in, shortType(c.Value.Type())+"."+c.Method.Name())
						}
						switch pol {
						case CallHavoc:
							mi.top, mi.trace = true, true
						case CallEvent:
							mi.trace = true
						}
						continue
					}
					switch cv := c.Value.(type) {
					case *ssa.Builtin:
						switch cv.Name() {
						case "append", "copy":
							if st, ok := c.Args[0].Type().Underlying().(*types.Slice); ok {
								for _, lf := range tmp.leaves(st.Elem(), func(s string) string { return s }, 0) {
									mi.keys[lf.key] = true
								}
							}
						case "delete":
							_, hk, _, _, _, _ := tmp.mapKeys(c.Args[0].Type().Underlying().(*types.Map))
							mi.keys[hk] = true
						}
					case *ssa.Function:
						w.noteCallee(mi, calls, f, cv, c)
					case *ssa.MakeClosure:
						w.noteCallee(mi, calls, f, cv.Fn.(*ssa.Function), c)
					default:
						pol := CallHavoc
						if w.DynamicPolicy != nil {
							pol = w.DynamicPolicy(nil, in, "func:"+shortType(c.Value.Type()))
						}
						switch pol {
						case CallHavoc:
							mi.top, mi.trace = true, true
						case CallEvent:
							mi.trace = true
						}
					}
				}
			}
		}
	}
	// fixpoint
	for changed := true; changed; {
		changed = false
		for _, f := range fns {
			mi := w.mod[f]
			for _, g := range calls[f] {
				mg := w.mod[g]
				if mg == nil {
					continue
				}
				if mg.top && !mi.top {
					mi.top = true
					changed = true
				}
				if mg.trace && !mi.trace {
					mi.trace = true
					changed = true
				}
				for k := range mg.keys {
					if !mi.keys[k] {
						mi.keys[k] = true
						changed = true
					}
				}
			}
		}
	}
}

func (w *World) noteCallee(mi *modInfo, calls map[*ssa.Function][]*ssa.Function, f, g *ssa.Function, c *ssa.CallCommon) {
	if w.IsModule(g) && g.Blocks != nil {
		if ct := w.ContractFor(g); ct != nil && ct.Pure {
			return
		}
		calls[f] = append(calls[f], g)
		return
	}
	full := g.String()
	if g.Origin() != nil {
		full = g.Origin().String()
	}
	lm, ok := w.Library[full]
	if !ok {
		lm, ok = defaultLibrary[full]
	}
	if ok {
		if lm.Event {
			mi.trace = true
		}
		for _, k := range lm.ModKeys {
			mi.keys[k] = true
		}
		if !lm.WritesArgs {
			return
		}
		ok = false
	}
	if lm.WritesArgs {
		w.notePointerArgs(mi, c)
		return
	}
	pol := CallFresh
	if w.ExternalPolicy != nil {
		pol = w.ExternalPolicy(full)
	}
	switch pol {
	case CallHavoc:
		mi.top, mi.trace = true, true
	case CallEvent:
		mi.trace = true
	}
	w.notePointerArgs(mi, c)
}

// notePointerArgs: writes through pointer arguments: keys of reachable types.
func (w *World) notePointerArgs(mi *modInfo, c *ssa.CallCommon) {
	tmp := &FuncEnc{W: w, D: NewDecls()}
	tmp.heapSorts = map[string]string{}
	for _, a := range c.Args {
		t := a.Type()
		if mk, ok := a.(*ssa.MakeInterface); ok {
			t = mk.X.Type()
		}
		if p, ok := t.Underlying().(*types.Pointer); ok {
			for _, lf := range tmp.leaves(p.Elem(), func(s string) string { return s }, 0) {
				mi.keys[lf.key] = true
				if mt, isMap := lf.typ.Underlying().(*types.Map); isMap {
					vk, hk, _, _, _, _ := tmp.mapKeys(mt)
					mi.keys[vk], mi.keys[hk] = true, true
				}
			}
		}
	}
}
