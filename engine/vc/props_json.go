package vc

import (
	"go/types"
	"sort"
	"strings"

	"golang.org/x/tools/go/ssa"
)

// CheckJSON (C06, C07, C08): the codec family over the JSON corpus.
func (cr *CheckRun) CheckJSON(entries []CorpusEntry) {
	bin, err := BuildGoag(cr.Repo, cr.Scratch)
	if err != nil {
		cr.EngineErrors = append(cr.EngineErrors, err.Error())
		return
	}
	cr.RunEntries(bin, entries, false, func(string) bool { return false }, func(job *EmittedJob) {
		if job.Em.W == nil || job.Em.LoadErr != nil || job.Em.GenErr != nil {
			return
		}
		for _, fam := range []string{"json-marshal-inner", "json-marshal", "json-unmarshal-inner", "json-unmarshal"} {
			if !familyDeclared(job.CS, fam) {
				cr.mu.Lock()
				cr.EngineErrors = append(cr.EngineErrors, "contract family `"+fam+"` is not declared in generator/contracts_emitted_verif.go")
				cr.mu.Unlock()
				return
			}
		}
		jf := NewJSONFamily(job.Em)
		jf.Install()
		for _, f := range job.Em.W.Functions() {
			c := job.Em.W.Contracts[f.String()]
			if c == nil || !strings.HasPrefix(c.Options["family"], "json-") {
				continue
			}
			e := job.enc(f)
			e.NoSafety = true
			e.PostEncode = func() { tagJSON(e) }
			cr.VerifyFunc(e, job.Em.Entry.Name, nil, func(fl *Failure) { jf.ReplayJSON(cr, job, fl) })
		}
		cr.CheckDefinedTypeCodecs(job)
		if nt := cr.CheckTimeCodecs(job); nt > 0 {
			cr.Note("%s: %d JSON methods of date-time components under the layout contract (json-time-component)", job.Em.Entry.Name, nt)
		}
		if cr.Prop == "C06" {
			var names []string
			for n := range jf.Types {
				names = append(names, n)
			}
			sort.Strings(names)
			for _, n := range names {
				jt := jf.Types[n]
				if _, isStruct := jt.Named.Underlying().(*types.Struct); isStruct && jt.Schema.IsObjectLike() && jt.Problem == "" {
					jf.RoundTripLemma(cr, jt, job)
				}
			}
		}
		// codec functions of this package that are not under contract
		for _, f := range job.Em.W.Functions() {
			switch f.Name() {
			case "MarshalJSON", "UnmarshalJSON", "marshalJSONInnerBody", "unmarshalJSONInnerBody":
				ct := job.Em.W.Contracts[f.String()]
				if f.Parent() == nil && (ct == nil || !strings.HasPrefix(ct.Options["family"], "json-")) && job.Em.W.IsModule(f) && f.Signature.Recv() != nil && !strings.Contains(f.String(), "Maybe") && !strings.Contains(f.String(), "Nullable") {
					cr.Note("%s: %s is not under contract (oneOf / custom / primitive component or array decoding)", job.Em.Entry.Name, relName(f))
				}
			}
		}
		cr.mu.Lock()
		cr.Assumed["protocol soundness: a writer in state 14 / 24 holds one syntactically valid JSON value (the state machine recognises a subset of the JSON grammar, given that Encode writes complete values)"] = true
		cr.Assumed["MarshalJSON / marshalJSONInnerBody write no memory of their caller (frame; C20 proves the frame obligations of the same functions)"] = true
		cr.Assumed["values whose AdditionalProperties keys collide with declared property names are excluded (they encode to duplicate member names)"] = true
		cr.mu.Unlock()
		for _, p := range jf.Problems {
			cr.Note("%s: %s", job.Em.Entry.Name, p)
		}
	})
}

// tagJSON: call-site preconditions of the codec functions carry C06.
func tagJSON(e *FuncEnc) {
	for _, o := range e.Obls {
		if len(o.Props) > 0 {
			continue
		}
		if strings.HasPrefix(o.Class, "call:marshalJSONInnerBody") || strings.HasPrefix(o.Class, "call:MarshalJSON") {
			o.Props = []string{"C06"}
		}
		if strings.HasPrefix(o.Class, "call:unmarshalJSONInnerBody") || strings.HasPrefix(o.Class, "call:UnmarshalJSON") {
			o.Props = []string{"C08"}
		}
	}
}

var _ ssa.Value
