package vc

import (
	"strings"

	"golang.org/x/tools/go/ssa"
)

// CheckJSON (C06, C07, C08): the codec family over the JSON corpus.
func (cr *CheckRun) CheckJSON(entries []CorpusEntry) {
	bin, err := BuildGoag(cr.Repo, cr.Scratch)
	if err != nil {
		cr.EngineErrors = append(cr.EngineErrors, err.Error())
		return
	}
	cr.RunEntries(bin, entries, false, func(string) bool { return false }, func(job *EmittedJob) {
		if job.Em.W == nil || job.Em.LoadErr != nil || job.Em.GenErr != nil {
			return
		}
		jf := NewJSONFamily(job.Em)
		jf.Install()
		for _, f := range job.Em.W.Functions() {
			c := job.Em.W.Contracts[f.String()]
			if c == nil || !strings.HasPrefix(c.Options["family"], "json-") {
				continue
			}
			e := job.enc(f)
			e.NoSafety = true
			e.PostEncode = func() { tagJSON(e) }
			cr.VerifyFunc(e, job.Em.Entry.Name, nil, nil)
		}
		for _, p := range jf.Problems {
			cr.Note("%s: %s", job.Em.Entry.Name, p)
		}
	})
}

// tagJSON: call-site preconditions of the codec functions carry C06.
func tagJSON(e *FuncEnc) {
	for _, o := range e.Obls {
		if len(o.Props) > 0 {
			continue
		}
		if strings.HasPrefix(o.Class, "call:marshalJSONInnerBody") || strings.HasPrefix(o.Class, "call:MarshalJSON") {
			o.Props = []string{"C06"}
		}
		if strings.HasPrefix(o.Class, "call:unmarshalJSONInnerBody") || strings.HasPrefix(o.Class, "call:UnmarshalJSON") {
			o.Props = []string{"C08"}
		}
	}
}

var _ ssa.Value
