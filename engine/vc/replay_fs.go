package vc

import (
	"fmt"
	"os"
	"os/exec"
	"path/filepath"
	"sort"
	"strings"
)

type fsInvocation struct {
	spec    string
	client  bool
	handler bool
}

func (iv fsInvocation) String() string {
	return fmt.Sprintf("{spec=%s client=%v api-handler=%v}", filepath.Base(filepath.Dir(iv.spec)), iv.client, iv.handler)
}

func runInvocation(bin string, iv fsInvocation, out string) error {
	args := []string{"-file", iv.spec, "-out", out, "-package", "emitted", "-config", filepath.Join(out, ".none.yaml")}
	if iv.client {
		args = append(args, "-client")
	}
	if !iv.handler {
		args = append(args, "-api-handler=false")
	}
	cmd := exec.Command(bin, args...)
	cmd.Dir = out
	b, err := cmd.CombinedOutput()
	if err != nil {
		return fmt.Errorf("%v: %s", err, b)
	}
	return nil
}

func snapshot(dir string) map[string]string {
	out := map[string]string{}
	ents, _ := os.ReadDir(dir)
	for _, e := range ents {
		if e.IsDir() {
			continue
		}
		b, _ := os.ReadFile(filepath.Join(dir, e.Name()))
		out[e.Name()] = string(b)
	}
	return out
}

func diffSnap(a, b map[string]string) string {
	var ds []string
	for k, v := range a {
		if w, ok := b[k]; !ok {
			ds = append(ds, k+": only after the history")
		} else if v != w {
			ds = append(ds, fmt.Sprintf("%s: differs (%d vs %d bytes)", k, len(v), len(w)))
		}
	}
	for k := range b {
		if _, ok := a[k]; !ok {
			ds = append(ds, k+": missing after the history")
		}
	}
	sort.Strings(ds)
	return strings.Join(ds, "; ")
}

// replayFS searches two-invocation histories for a violation of C19 with the
// real binary (the failed obligation carries no concrete model: ghost state).
func (cr *CheckRun) replayFS(f *Failure) {
	bin, err := BuildGoag(cr.Repo, cr.Scratch)
	if err != nil {
		return
	}
	root, _ := os.MkdirTemp(cr.Scratch, "fsreplay")
	plain := writeSpec(filepath.Join(root, "plain"), "openapi", specHead+"paths:\n  /a: {get: {responses: {default: {description: d}}}}\n")
	comp := writeSpec(filepath.Join(root, "comp"), "openapi", specHead+"paths:\n  /a: {get: {responses: {'200': {description: d, content: {application/json: {schema: {$ref: '#/components/schemas/Pet'}}}}}}}\n  /b: {post: {responses: {default: {description: d}}}}\n  /c/{id}: {get: {parameters: [{in: path, name: id, required: true, schema: {type: string}}], responses: {default: {description: d}}}}\ncomponents:\n  schemas:\n    Pet: {type: object, properties: {name: {type: string}, tag: {type: string}}}\n")
	var ivs []fsInvocation
	for _, s := range []string{comp, plain} {
		for _, c := range []bool{true, false} {
			for _, h := range []bool{true, false} {
				ivs = append(ivs, fsInvocation{s, c, h})
			}
		}
	}
	res := &ReplayResult{Cmd: "goag run twice into one directory vs. the last invocation alone into an empty directory", Expected: "identical goag-owned files, user file untouched"}
	n := 0
	for _, first := range ivs {
		for _, last := range ivs {
			n++
			out, _ := os.MkdirTemp(root, "out")
			fresh, _ := os.MkdirTemp(root, "fresh")
			_ = os.WriteFile(filepath.Join(out, "user.go"), []byte("package emitted\n"), 0o644)
			_ = os.WriteFile(filepath.Join(fresh, "user.go"), []byte("package emitted\n"), 0o644)
			if runInvocation(bin, first, out) != nil || runInvocation(bin, last, out) != nil || runInvocation(bin, last, fresh) != nil {
				continue
			}
			if d := diffSnap(snapshot(out), snapshot(fresh)); d != "" {
				res.Reproduced = true
				res.Input = fmt.Sprintf("history [%v, %v]", first, last)
				res.Observed = d
				f.Replay = res
				os.RemoveAll(root)
				return
			}
			os.RemoveAll(out)
			os.RemoveAll(fresh)
		}
	}
	res.Input = fmt.Sprintf("%d two-invocation histories", n)
	res.Observed = "no difference found"
	f.Replay = res
	os.RemoveAll(root)
}
