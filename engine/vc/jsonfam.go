package vc

import (
	"fmt"
	"go/types"
	"sort"
	"strings"

	"golang.org/x/tools/go/ssa"
)

// JSON codec family (DESIGN §0.7, Layer E): contracts of the emitted
// MarshalJSON / marshalJSONInnerBody / UnmarshalJSON / unmarshalJSONInnerBody,
// instantiated per schema-derived Go type from the reference reading of the
// schema (refschema.go), not from goag's own model.
//
//	emitted func (T).marshalJSONInnerBody(out io.Writer) error          [object schemas]
//	  requires jst(trace, out) in {0, 10, 99}                   -- nothing, or just "{", written so far (or a failed write: then every clause below is void)
//	  ensures  err == nil ==> jst(trace, out) == (anyMember(c) ? base+2 : old)          [C06]
//	  ensures  err == nil ==> for every declared property p: memberOK_p(jobj(trace,out)[p], c)   [C07]
//	  ensures  err == nil ==> every other name keeps its old entry (or is an additional property) [C07]
//	  ensures  err == nil ==> no duplicate names introduced                               [C06]
//	emitted func (T).MarshalJSON() ([]byte, error)
//	  ensures  err == nil ==> doc_st(result) == 14 (one closed object), members as above, no duplicates
//
// memberOK_p (from the schema): required => present; optional => present iff set;
// nullable and null => the token null; otherwise the value handed to the encoder is
// the field's value with the Go type that the schema type demands (strings for
// string, date-time formatted with RFC 3339, integers for integer, ..., a
// non-nil slice for array).

type jsonMember struct {
	Name     string
	Path     []int // field selector chain from the struct value
	PathT    []types.Type
	Type     types.Type // Go type of the field
	Required bool
	Schema   *RefSchema
}

type jsonType struct {
	Named   *types.Named
	Schema  *RefSchema
	Members []jsonMember
	AP      bool       // has an AdditionalProperties map
	APField int        // index of that field
	APType  types.Type // map type
	Problem string
}

type JSONFamily struct {
	Em       *Emitted
	Types    map[string]*jsonType // by Go type name
	Problems []string
}

func NewJSONFamily(em *Emitted) *JSONFamily {
	jf := &JSONFamily{Em: em, Types: map[string]*jsonType{}}
	scope := em.Pkg.Pkg.Scope()
	byNorm := map[string]*types.Named{}
	for _, n := range scope.Names() {
		if tn, ok := scope.Lookup(n).(*types.TypeName); ok && !tn.IsAlias() {
			if nt, ok := tn.Type().(*types.Named); ok && nt.TypeParams().Len() == 0 {
				byNorm[normName(n)] = nt
			}
		}
	}
	comps := em.Ref.ComponentSchemas()
	var names []string
	for k := range comps {
		names = append(names, k)
	}
	sort.Strings(names)
	for _, k := range names {
		nt := byNorm[normName(k)]
		if nt == nil {
			continue
		}
		jf.associate(nt, comps[k], byNorm)
	}
	// inline response bodies: <Handler>Response<status>JSONBody
	for _, op := range em.Ref.Ops {
		for _, r := range op.Responses {
			if !r.IsJSON || r.Schema == nil {
				continue
			}
			if m, ok := r.Schema.(map[string]any); ok {
				if _, isRef := m["$ref"]; isRef {
					continue
				}
			}
			suffix := normName("Response" + r.Status + "JSONBody")
			cands := []string{normName(op.OperationID), normName(strings.ToLower(op.Method) + op.Template)}
			for norm, nt := range byNorm {
				if !strings.HasSuffix(norm, suffix) {
					continue
				}
				prefix := strings.TrimSuffix(norm, suffix)
				for _, c := range cands {
					if c != "" && c == prefix {
						jf.associate(nt, em.Ref.SchemaOf(r.Schema), byNorm)
					}
				}
			}
		}
	}
	return jf
}

func (jf *JSONFamily) associate(nt *types.Named, s *RefSchema, byNorm map[string]*types.Named) {
	name := nt.Obj().Name()
	if _, done := jf.Types[name]; done || s == nil {
		return
	}
	jt := &jsonType{Named: nt, Schema: s}
	jf.Types[name] = jt
	st, isStruct := nt.Underlying().(*types.Struct)
	if !isStruct || !s.IsObjectLike() {
		// arrays / oneOf / primitives: handled by their own families
		if s.Items != nil {
			if sl, ok := nt.Underlying().(*types.Slice); ok {
				if en, ok := sl.Elem().(*types.Named); ok {
					jf.associate(en, s.Items, byNorm)
				}
			}
		}
		return
	}
	jt.Members, jt.Problem = jf.members(nt, st, s, nil, nil, byNorm, 0)
	for i := 0; i < st.NumFields(); i++ {
		if st.Field(i).Name() == "AdditionalProperties" {
			if mt, ok := st.Field(i).Type().Underlying().(*types.Map); ok {
				jt.AP, jt.APField, jt.APType = true, i, mt
			}
		}
	}
	if jt.Problem != "" {
		jf.Problems = append(jf.Problems, name+": "+jt.Problem)
	}
}

// members flattens the declared properties of an object schema (own, inline
// allOf members, $ref allOf members through their embedded field).
func (jf *JSONFamily) members(nt types.Type, st *types.Struct, s *RefSchema, path []int, pathT []types.Type, byNorm map[string]*types.Named, depth int) ([]jsonMember, string) {
	var out []jsonMember
	if depth > 6 {
		return nil, "allOf nesting too deep"
	}
	field := func(norm string) int {
		for i := 0; i < st.NumFields(); i++ {
			if normName(st.Field(i).Name()) == norm {
				return i
			}
		}
		return -1
	}
	own := func(src *RefSchema) string {
		for _, p := range src.Props {
			i := field(normName(p.Name))
			if i < 0 {
				return fmt.Sprintf("no field for property %q", p.Name)
			}
			out = append(out, jsonMember{Name: p.Name, Path: append(append([]int{}, path...), i), PathT: append(append([]types.Type{}, pathT...), nt), Type: st.Field(i).Type(), Required: src.Required[p.Name], Schema: p.Schema})
			// nested named types get their own association
			jf.assocField(st.Field(i).Type(), p.Schema, byNorm)
		}
		return ""
	}
	if msg := own(s); msg != "" {
		return nil, msg
	}
	for _, m := range s.AllOf {
		if m.Component != "" {
			i := field(normName(m.Component))
			if i < 0 || !st.Field(i).Embedded() {
				return nil, fmt.Sprintf("no embedded field for allOf member %q", m.Component)
			}
			en, ok := st.Field(i).Type().(*types.Named)
			if !ok {
				return nil, "embedded field is not a named type"
			}
			jf.associate(en, m, byNorm)
			est, ok := en.Underlying().(*types.Struct)
			if !ok {
				return nil, "embedded allOf member is not a struct"
			}
			sub, msg := jf.members(en, est, m, append(append([]int{}, path...), i), append(append([]types.Type{}, pathT...), nt), byNorm, depth+1)
			if msg != "" {
				return nil, msg
			}
			out = append(out, sub...)
			continue
		}
		if msg := own(m); msg != "" {
			return nil, msg
		}
		if len(m.AllOf) > 0 {
			return nil, "nested inline allOf"
		}
	}
	return out, ""
}

func (jf *JSONFamily) assocField(t types.Type, s *RefSchema, byNorm map[string]*types.Named) {
	if s == nil {
		return
	}
	// unwrap Maybe / Nullable
	for i := 0; i < 3; i++ {
		n, ok := t.(*types.Named)
		if !ok {
			break
		}
		if o := n.Origin(); o != nil && (o.Obj().Name() == "Maybe" || o.Obj().Name() == "Nullable") && n.TypeArgs().Len() == 1 {
			t = n.TypeArgs().At(0)
			continue
		}
		break
	}
	if n, ok := t.(*types.Named); ok && n.Obj().Pkg() != nil && n.Obj().Pkg().Path() == "emitted" {
		jf.associate(n, s, byNorm)
	}
}

// ---------------------------------------------------------------- spec terms

func wrapperOf(t types.Type) (kind string, inner types.Type) {
	n, ok := t.(*types.Named)
	if !ok {
		return "", t
	}
	if o := n.Origin(); o != nil && n.TypeArgs().Len() == 1 {
		switch o.Obj().Name() {
		case "Maybe", "Nullable":
			return o.Obj().Name(), n.TypeArgs().At(0)
		}
	}
	return "", t
}

func structFieldIndex(t types.Type, name string) int {
	st, ok := t.Underlying().(*types.Struct)
	if !ok {
		return -1
	}
	for i := 0; i < st.NumFields(); i++ {
		if st.Field(i).Name() == name {
			return i
		}
	}
	return -1
}

// sel applies a selector chain to a struct value term.
func (e *FuncEnc) selPath(v string, m jsonMember) string {
	for i, idx := range m.Path {
		v = sx(e.D.FieldSelector(m.PathT[i], idx), v)
	}
	return v
}

// isTimeComponent: a defined type over time.Time that brings its own
// MarshalJSON and UnmarshalJSON (a defined type does not have time.Time's).
func isTimeComponent(t types.Type) bool {
	n, ok := types.Unalias(t).(*types.Named)
	if !ok || isNamed(n, "time", "Time") {
		return false
	}
	st, ok := n.Underlying().(*types.Struct)
	if !ok || st.NumFields() != 3 || st.Field(0).Name() != "wall" || st.Field(2).Name() != "loc" {
		return false
	}
	return hasMethod(n, "MarshalJSON") && hasMethod(n, "UnmarshalJSON")
}

// ownCodecMissing: a defined type of the emitted package over a struct or slice
// that has no JSON methods of its own is encoded by reflection (Go field names,
// wrappers as objects): never what a schema describes.
func ownCodecMissing(t types.Type, method string) bool {
	n, ok := types.Unalias(t).(*types.Named)
	if !ok || n.Obj().Pkg() == nil || n.Obj().Pkg().Path() != "emitted" {
		return false
	}
	switch n.Underlying().(type) {
	case *types.Struct, *types.Slice, *types.Map:
		return !hasMethod(n, method)
	}
	return false
}

// goKindMatches: the Go type handed to the encoder produces the JSON type the
// schema declares.
func goKindMatches(t types.Type, s *RefSchema) bool {
	if s == nil {
		return true
	}
	t = types.Unalias(t)
	if isTimeComponent(t) {
		// `type X time.Time` with JSON methods of its own (a date / date-time component)
		return s.Type == "string"
	}
	switch u := t.Underlying().(type) {
	case *types.Basic:
		switch s.Type {
		case "string":
			return u.Kind() == types.String
		case "integer":
			return u.Info()&types.IsInteger != 0
		case "number":
			return u.Info()&types.IsFloat != 0 || u.Info()&types.IsInteger != 0
		case "boolean":
			return u.Kind() == types.Bool
		case "":
			return true
		}
		return false
	case *types.Slice:
		if s.Type == "" {
			return true // raw bytes / any
		}
		return s.Type == "array"
	case *types.Struct:
		if isNamed(t, "time", "Time") {
			return s.Type == "string"
		}
		return s.IsObjectLike() || len(s.OneOf) > 0 || s.Type == ""
	case *types.Map:
		return s.Type == "object" || s.Type == ""
	case *types.Interface:
		return s.Type == ""
	}
	return false
}


// valueOK: the JSON member entry `a` (JOpt) is the encoding of Go value v of
// type t under schema s. Returns the formula and a static problem ("" if none).
func (jf *JSONFamily) valueOK(e *FuncEnc, a, v string, t types.Type, s *RefSchema) (string, string) {
	kind, inner := wrapperOf(t)
	if s != nil && s.Nullable {
		if kind != "Nullable" {
			return "false", fmt.Sprintf("nullable schema but Go type %s", t)
		}
		is := sx(e.D.FieldSelector(t, structFieldIndex(t, "IsSet")), v)
		val := sx(e.D.FieldSelector(t, structFieldIndex(t, "Value")), v)
		f, p := jf.plainOK(e, a, val, inner, s)
		return ite(is, f, eq(a, "(j_some jv_null)")), p
	}
	if kind == "Nullable" {
		return "false", fmt.Sprintf("Nullable Go type %s for a schema that is not nullable (null would be written)", t)
	}
	return jf.plainOK(e, a, v, t, s)
}

func (jf *JSONFamily) plainOK(e *FuncEnc, a, v string, t types.Type, s *RefSchema) (string, string) {
	t = types.Unalias(t)
	if ownCodecMissing(t, "MarshalJSON") && !isWrapperType(t) {
		return "false", fmt.Sprintf("Go type %s has no MarshalJSON of its own (a defined type does not have the methods of its base type): it is encoded by reflection", t)
	}
	if !goKindMatches(t, s) {
		st := ""
		if s != nil {
			st = s.Type
		}
		return "false", fmt.Sprintf("Go type %s does not encode as JSON %q", t, st)
	}
	e.D.UF("jv_unenc", []string{"JVal"}, "Iface")
	e.D.Axiom("jv_unenc", "(forall ((v Iface)) (! (= (jv_unenc (jv_enc v)) v) :pattern ((jv_enc v))))")
	some := "((_ is j_some) " + a + ")"
	if n, ok := t.(*types.Named); ok && n.Obj().Pkg() != nil && n.Obj().Pkg().Path() == "emitted" {
		// a schema-derived type with its own codec: handed over as it is
		return eq(a, sx("j_some", sx("jv_enc", e.ifaceOf(t, v)))), ""
	}
	if isRawMessage(t) {
		// any: the raw message is handed over as it is
		return eq(a, sx("j_some", sx("jv_enc", e.ifaceOf(t, v)))), ""
	}
	switch u := t.Underlying().(type) {
	case *types.Slice:
		_ = u
		// a non-nil slice: the field's own when that is non-nil, an empty one otherwise
		act := sx("jv_unenc", sx("j_val", a))
		_, unbox := e.D.Box(t)
		p := sx(unbox, sx("if_val", act))
		// the value handed over is the interface of a slice P: the field's own
		// slice when that is non-nil, an empty non-nil one otherwise
		return and(some, eq(sx("j_val", a), sx("jv_enc", e.ifaceOf(t, p))),
			ite(eq(sx("sl_base", v), "0"), and(eq(sx("sl_len", p), "0"), not(eq(sx("sl_base", p), "0"))), eq(p, v))), ""
	case *types.Struct:
		if isNamed(t, "time", "Time") {
			layout := ""
			switch s.Format {
			case "date-time":
				var ok bool
				if layout, ok = timeLayoutOf(s); !ok {
					return "false", "time layout of the schema is not a constant of package time or a string literal"
				}
			case "date":
				layout = "2006-01-02"
			default:
				return "false", "time.Time for format " + s.Format
			}
			fn := e.D.UF("lib_"+mangle("(time.Time).Format")+"_r0", []string{e.D.SortOf(t), "Str"}, "Str")
			str := sx(fn, v, e.D.Lit(layout))
			return eq(a, sx("j_some", sx("jv_enc", e.ifaceOf(types.Typ[types.String], str)))), ""
		}
	}
	return eq(a, sx("j_some", sx("jv_enc", e.ifaceOf(t, v)))), ""
}

// memberOK: entry of one declared property.
func (jf *JSONFamily) memberOK(e *FuncEnc, a, a0 string, c string, m jsonMember) (formula string, present string, problem string) {
	v := e.selPath(c, m)
	kind, inner := wrapperOf(m.Type)
	if !m.Required {
		if kind != "Maybe" {
			return "false", "true", fmt.Sprintf("optional property %q is not a Maybe field (%s)", m.Name, m.Type)
		}
		is := sx(e.D.FieldSelector(m.Type, structFieldIndex(m.Type, "IsSet")), v)
		val := sx(e.D.FieldSelector(m.Type, structFieldIndex(m.Type, "Value")), v)
		f, p := jf.valueOK(e, a, val, inner, m.Schema)
		return ite(is, f, eq(a, a0)), is, p
	}
	if kind == "Maybe" {
		return "false", "true", fmt.Sprintf("required property %q is a Maybe field (could be omitted)", m.Name)
	}
	f, p := jf.valueOK(e, a, v, m.Type, m.Schema)
	return f, "true", p
}

// objectSpec: the clauses relating the member view `obj1` (after) to `obj0`
// (before) for struct value c of type jt.
func (jf *JSONFamily) objectSpec(e *FuncEnc, jt *jsonType, c, obj0, obj1 string) (members []NamedFormula, any string, fresh string, rest string) {
	return jf.objectSpecAP(e, jt, c, obj0, obj1, nil, nil)
}

// objectSpecAP: with the additional-properties map (ap != nil); `visited`
// (a set term) restricts the map entries to the ones written so far (loop
// invariant); nil = all of them.
func (jf *JSONFamily) objectSpecAP(e *FuncEnc, jt *jsonType, c, obj0, obj1 string, ap *apCtx, visited func(k string) string) (members []NamedFormula, any string, fresh string, rest string) {
	var anys, freshs, notDeclared []string
	q := "krest"
	for _, m := range jt.Members {
		lit := e.D.Lit(m.Name)
		f, present, problem := jf.memberOK(e, sx("select", obj1, lit), sx("select", obj0, lit), c, m)
		if problem != "" {
			f = "false"
			jf.note(jt.Named.Obj().Name() + "." + m.Name + ": " + problem)
		}
		members = append(members, NamedFormula{Name: "ensures#member:" + m.Name, Props: []string{"C07"}, Formula: f})
		anys = append(anys, present)
		freshs = append(freshs, eq(sx("select", obj0, lit), "j_none"))
		notDeclared = append(notDeclared, not(eq(q, lit)))
	}
	any = or(anys...)
	if len(anys) == 0 {
		any = "false"
	}
	fresh = and(freshs...)
	restBody := eq(sx("select", obj1, q), sx("select", obj0, q))
	if ap != nil {
		in := ap.has(q)
		if visited != nil {
			in = visited(q)
		}
		restBody = ite(in, ap.entryOK(sx("select", obj1, q), q), eq(sx("select", obj1, q), sx("select", obj0, q)))
		if visited == nil {
			anys = append(anys, ap.lenPos)
			any = or(anys...)
		}
		if ap.problem != "" {
			jf.note(jt.Named.Obj().Name() + ": " + ap.problem)
			restBody = "false"
		}
		// keys of the map are not declared property names, and are new to the object
		var disj []string
		for _, m := range jt.Members {
			disj = append(disj, not(ap.has(e.D.Lit(m.Name))))
		}
		hyp := and(disj...)
		for i := range members {
			members[i].Formula = implies(hyp, members[i].Formula)
		}
		fresh = and(fresh, hyp, fmt.Sprintf("(forall ((kf %s)) (! (=> %s (= (select %s kf) j_none)) :pattern ((select %s kf))))", ap.ks, ap.has("kf"), obj0, obj0))
		restBody = implies(hyp, restBody)
	}
	if len(notDeclared) > 0 {
		restBody = implies(and(notDeclared...), restBody)
	}
	rest = fmt.Sprintf("(forall ((%s Str)) %s)", q, restBody)
	return
}

func (jf *JSONFamily) note(s string) {
	for _, p := range jf.Problems {
		if p == s {
			return
		}
	}
	jf.Problems = append(jf.Problems, s)
}

// ---------------------------------------------------------------- installation

func newFamilyContract(f *ssa.Function) *Contract {
	return &Contract{Name: f.String(), Emitted: true, TraceSpecified: true, Options: map[string]string{}, LoopInv: map[int][]*Clause{}, LoopDec: map[int]*Clause{}}
}

func (jf *JSONFamily) Install() {
	em := jf.Em
	InstallJSONLibrary(em.W)
	InstallJSONDecodeLibrary(em.W)
	for _, f := range em.W.Functions() {
		f := f
		recv := f.Signature.Recv()
		if recv == nil || f.Parent() != nil {
			continue
		}
		rt := recv.Type()
		ptr := false
		if p, ok := rt.(*types.Pointer); ok {
			rt, ptr = p.Elem(), true
		}
		nt, ok := rt.(*types.Named)
		if !ok {
			continue
		}
		jt := jf.Types[nt.Obj().Name()]
		if jt == nil || jt.Problem != "" {
			continue
		}
		_, isStruct := nt.Underlying().(*types.Struct)
		_, isSlice := nt.Underlying().(*types.Slice)
		isArr := isSlice && jt.Schema.Type == "array"
		switch {
		case f.Name() == "MarshalJSON" && !ptr && isStruct && len(jt.Schema.OneOf) > 0:
			jf.installOneOfOuter(f, jt)
		case f.Name() == "UnmarshalJSON" && ptr && isStruct && len(jt.Schema.OneOf) > 0:
			jf.installOneOfUn(f, jt)
		case f.Name() == "marshalJSONInnerBody" && !ptr && isArr:
			jf.installArrayInner(f, jt)
			for _, g := range f.AnonFuncs {
				ps := g.Signature.Params()
				if ps.Len() == 1 && types.IsInterface(ps.At(0).Type()) {
					jf.installWriteItem(g, f)
				}
			}
		case f.Name() == "MarshalJSON" && !ptr && isArr:
			jf.installArrayOuter(f, jt)
		case f.Name() == "UnmarshalJSON" && ptr && isArr:
			jf.installArrayUnOuter(f, jt)
		case f.Name() == "unmarshalJSONInnerBody" && ptr && isArr:
			jf.installArrayUnInner(f, jt)
		case f.Name() == "marshalJSONInnerBody" && !ptr && isStruct && jt.Schema.IsObjectLike():
			jf.installInner(f, jt)
			for _, g := range f.AnonFuncs {
				ps := g.Signature.Params()
				if ps.Len() == 2 && e2s(ps.At(0).Type()) == "string" && types.IsInterface(ps.At(1).Type()) {
					jf.installWriteProperty(g, f)
				}
			}
		case f.Name() == "MarshalJSON" && !ptr && isStruct && jt.Schema.IsObjectLike():
			jf.installOuter(f, jt)
		case f.Name() == "unmarshalJSONInnerBody" && ptr && isStruct && jt.Schema.IsObjectLike():
			jf.installUnInner(f, jt)
		case f.Name() == "UnmarshalJSON" && ptr && isStruct && jt.Schema.IsObjectLike():
			jf.installUnOuter(f, jt)
		}
	}
}

func (jf *JSONFamily) innerSpec(e *FuncEnc, jt *jsonType, c, out, err, tr0, tr1 string, st0state *state) []NamedFormula {
	e.jsonEvents()
	st0, st1 := sx("jst", tr0, out), sx("jst", tr1, out)
	ok := and(eq(sx("if_tag", err), "0"), not(eq(st0, "99")))
	obj0, obj1 := sx("jobj", tr0, out), sx("jobj", tr1, out)
	var ap *apCtx
	if jt.AP {
		ap = jf.apOf(e, jt, c, st0state)
	}
	members, any, fresh, rest := jf.objectSpecAP(e, jt, c, obj0, obj1, ap, nil)
	var outF []NamedFormula
	outF = append(outF, NamedFormula{Name: "ensures#state", Props: []string{"C06"}, Formula: implies(ok, eq(st1, ite(any, sx("+", sx("j_base", st0), "2"), st0)))})
	for _, m := range members {
		m.Formula = implies(ok, m.Formula)
		outF = append(outF, m)
	}
	outF = append(outF, NamedFormula{Name: "ensures#no-other-members", Props: []string{"C07"}, Formula: implies(ok, rest)})
	outF = append(outF, NamedFormula{Name: "ensures#no-duplicates", Props: []string{"C06"}, Formula: implies(and(ok, not(sx("jdup", tr0, out)), fresh), not(sx("jdup", tr1, out)))})
	outF = append(outF, NamedFormula{Name: "ensures#bad-stays-bad", Props: []string{"C06"}, Formula: implies(eq(st0, "99"), eq(st1, "99"))})
	return outF
}

func (jf *JSONFamily) installInner(f *ssa.Function, jt *jsonType) {
	c := newFamilyContract(f)
	c.Options["family"] = "json-marshal-inner"
	c.PreHook = func(e *FuncEnc, args []string) []NamedFormula {
		e.jsonEvents()
		e.noteWriter(args[1])
		st := sx("jst", e.cur.trace, args[1])
		return []NamedFormula{{Name: "start-state", Props: []string{"C06"}, Formula: and(not(eq(sx("if_tag", args[1]), "0")), or(eq(st, "0"), eq(st, "10"), eq(st, "99")))}}
	}
	c.RetHook = func(e *FuncEnc, results []string) []NamedFormula {
		return jf.innerSpec(e, jt, e.val[f.Params[0]], e.val[f.Params[1]], results[0], e.entry.trace, e.cur.trace, e.entry)
	}
	c.PostHook = func(e *FuncEnc, args, results []string, pre, post *state) []NamedFormula {
		fs := jf.innerSpec(e, jt, args[0], args[1], results[0], pre.trace, post.trace, pre)
		// frame: other writers keep their views
		for _, w := range e.jsonWriters() {
			if w == args[1] {
				continue
			}
			same := and(eq(sx("jst", post.trace, w), sx("jst", pre.trace, w)), eq(sx("jobj", post.trace, w), sx("jobj", pre.trace, w)), eq(sx("jdup", post.trace, w), sx("jdup", pre.trace, w)), eq(sx("jkey", post.trace, w), sx("jkey", pre.trace, w)))
			fs = append(fs, NamedFormula{Name: "frame", Formula: implies(not(eq(w, args[1])), same)})
		}
		return fs
	}
	c.Modifies = map[string]bool{} // writes no memory of its caller (C20 proves the frame obligations of the same functions)
	if jt.AP {
		jf.installAPLoop(c, f, jt)
	}
	jf.Em.W.Contracts[f.String()] = c
}

// installAPLoop: invariant of `for k, v := range c.AdditionalProperties { writeProperty(k, v) }`.
//
//	loop #0 invariant err == nil && jst(old) != 99 ==>
//	     (comma == ""  && jst == old && no declared member present && nothing visited)
//	  || (comma == "," && jst == base+2 && (some declared member present || the map is not empty))
//	loop #0 invariant ... ==> declared members as in the postcondition
//	loop #0 invariant ... ==> every other name k: entry == (visited(k) ? the map's entry : the old entry)
//	loop #0 invariant visited(k) ==> k is a key of the map
//	loop #0 invariant no duplicates so far; BAD stays BAD
func (jf *JSONFamily) installAPLoop(c *Contract, f *ssa.Function, jt *jsonType) {
	errA, commaA := codecCell(f, isErrorT), codecCell(f, isStringT)
	var rng *ssa.Range
	for _, b := range f.Blocks {
		for _, in := range b.Instrs {
			if r, ok := in.(*ssa.Range); ok {
				if _, isMap := r.X.Type().Underlying().(*types.Map); isMap {
					rng = r
				}
			}
		}
	}
	if errA == nil || commaA == nil || rng == nil {
		jf.note(f.String() + ": no additional-properties loop of the expected shape")
		return
	}
	c.LoopHook = func(e *FuncEnc, ord int, env *cenv) []NamedFormula {
		e.jsonEvents()
		st := env.st
		cv, out := e.val[f.Params[0]], e.val[f.Params[1]]
		e1, c1 := e.cellLoad(st, errA), e.cellLoad(st, commaA)
		tr0, tr1 := e.entry.trace, st.trace
		st0, st1 := sx("jst", tr0, out), sx("jst", tr1, out)
		obj0, obj1 := sx("jobj", tr0, out), sx("jobj", tr1, out)
		G := and(eq(sx("if_tag", e1), "0"), not(eq(st0, "99")))
		ap := jf.apOf(e, jt, cv, e.entry)
		key, srt := e.visitedKey(rng, jt.APType.Underlying().(*types.Map))
		vis := e.heapName(st, key, srt)
		visited := func(k string) string { return sx("select", vis, k) }
		members, anyDecl, fresh, rest := jf.objectSpecAP(e, jt, cv, obj0, obj1, ap, visited)
		var outF []NamedFormula
		nothing := fmt.Sprintf("(forall ((kv %s)) (! (not (select %s kv)) :pattern ((select %s kv))))", ap.ks, vis, vis)
		outF = append(outF, NamedFormula{Name: "invariant#comma-state", Props: []string{"C06"}, Formula: implies(G, or(
			and(eq(c1, "str_empty"), eq(st1, st0), not(anyDecl), nothing),
			and(eq(c1, "lit_comma"), eq(st1, sx("+", sx("j_base", st0), "2")), or(anyDecl, ap.lenPos))))})
		for _, m := range members {
			m.Name = strings.Replace(m.Name, "ensures#", "invariant#", 1)
			m.Formula = implies(G, m.Formula)
			outF = append(outF, m)
		}
		outF = append(outF, NamedFormula{Name: "invariant#other-members", Props: []string{"C07"}, Formula: implies(G, rest)})
		outF = append(outF, NamedFormula{Name: "invariant#visited-are-keys", Props: []string{"C07"}, Formula: fmt.Sprintf("(forall ((kv %s)) (! (=> (select %s kv) %s) :pattern ((select %s kv))))", ap.ks, vis, ap.has("kv"), vis)})
		outF = append(outF, NamedFormula{Name: "invariant#no-duplicates", Props: []string{"C06"}, Formula: implies(and(G, not(sx("jdup", tr0, out)), fresh), not(sx("jdup", tr1, out)))})
		outF = append(outF, NamedFormula{Name: "invariant#bad-stays-bad", Props: []string{"C06"}, Formula: implies(eq(st0, "99"), eq(st1, "99"))})
		return outF
	}
}

func (jf *JSONFamily) outerSpec(e *FuncEnc, jt *jsonType, c, res, err string, st0state *state) []NamedFormula {
	e.jsonEvents()
	e.D.UF("doc_st", []string{"Slice"}, "Int")
	e.D.UF("doc_obj", []string{"Slice"}, "(Array Str JOpt)")
	e.D.UF("doc_dup", []string{"Slice"}, "Bool")
	ok := eq(sx("if_tag", err), "0")
	var ap *apCtx
	if jt.AP {
		ap = jf.apOf(e, jt, c, st0state)
	}
	members, _, _, rest := jf.objectSpecAP(e, jt, c, "j_empty", sx("doc_obj", res), ap, nil)
	outF := []NamedFormula{{Name: "ensures#valid", Props: []string{"C06"}, Formula: implies(ok, eq(sx("doc_st", res), "14"))}}
	for _, m := range members {
		m.Formula = implies(ok, m.Formula)
		outF = append(outF, m)
	}
	outF = append(outF, NamedFormula{Name: "ensures#no-other-members", Props: []string{"C07"}, Formula: implies(ok, rest)})
	nodupHyp := "true"
	if ap != nil {
		var disj []string
		for _, m := range jt.Members {
			disj = append(disj, not(ap.has(e.D.Lit(m.Name))))
		}
		nodupHyp = and(disj...)
	}
	outF = append(outF, NamedFormula{Name: "ensures#no-duplicates", Props: []string{"C06"}, Formula: implies(and(ok, nodupHyp), not(sx("doc_dup", res)))})
	return outF
}

func (jf *JSONFamily) installOuter(f *ssa.Function, jt *jsonType) {
	c := newFamilyContract(f)
	c.Options["family"] = "json-marshal"
	c.RetHook = func(e *FuncEnc, results []string) []NamedFormula {
		return jf.outerSpec(e, jt, e.val[f.Params[0]], results[0], results[1], e.entry)
	}
	c.PostHook = func(e *FuncEnc, args, results []string, pre, post *state) []NamedFormula {
		return jf.outerSpec(e, jt, args[0], results[0], results[1], pre)
	}
	c.Modifies = map[string]bool{}
	jf.Em.W.Contracts[f.String()] = c
}

// jsonWriters: writer terms seen so far in this function (for frame facts).
func (e *FuncEnc) jsonWriters() []string {
	ws, _ := e.Cache["jwriters"].([]string)
	return ws
}

func (e *FuncEnc) noteWriter(w string) {
	ws, _ := e.Cache["jwriters"].([]string)
	for _, x := range ws {
		if x == w {
			return
		}
	}
	e.Cache["jwriters"] = append(ws, w)
}

var _ = strings.Join

func e2s(t types.Type) string { return t.String() }

// ---------------------------------------------------------------- writeProperty
//
//	emitted func marshalJSONInnerBody$writeProperty(name string, v any)     -- closure over err, write, comma, encoder
//	  requires enc_writer(encoder) == out && out != nil
//	  ensures old(err) != nil ==> err == old(err) && comma == old(comma) && views(out) unchanged
//	  ensures err == nil ==> old(err) == nil && comma == "," &&
//	          (v == nil ? views(out) == views after the token  old(comma) "name" :null
//	                    : views(out) == views after the token  old(comma) "name" :  followed by Encode(v))
//	  the token is well-formed for every name when the closure encodes the name as a JSON
//	  string; when it writes the name raw between quotes, only for names that are "safe"
//	  ensures jst(old) == 99 ==> jst == 99;  other writers keep their views
//
// (a member name is "safe" when the text between the quotes is a JSON string
// body as it stands: decided by evaluation for literal names, undecided
// otherwise)

// Variables of the emitted codecs are identified by their role (type and
// capture structure), not by their source names: a renamed local changes
// nothing here.

func isErrorT(t types.Type) bool  { return types.Identical(t, types.Universe.Lookup("error").Type()) }
func isStringT(t types.Type) bool { b, ok := t.Underlying().(*types.Basic); return ok && b.Kind() == types.String }
func isWriterT(t types.Type) bool { return isNamed(t, "io", "Writer") }
func isEncoderPtrT(t types.Type) bool {
	p, ok := t.(*types.Pointer)
	return ok && isNamed(p.Elem(), "encoding/json", "Encoder")
}

// closureCell: the variable cell of type T (pred) that closure g of parent can
// reach: one of its own bindings, or a binding of a closure parked in one.
func closureCell(parent, g *ssa.Function, pred func(types.Type) bool) *ssa.Alloc {
	var mc *ssa.MakeClosure
	for _, b := range parent.Blocks {
		for _, in := range b.Instrs {
			if x, ok := in.(*ssa.MakeClosure); ok && x.Fn == g {
				mc = x
			}
		}
	}
	if mc == nil {
		return nil
	}
	var found *ssa.Alloc
	var visit func(bs []ssa.Value, d int)
	visit = func(bs []ssa.Value, d int) {
		for _, b := range bs {
			al, ok := b.(*ssa.Alloc)
			if !ok || found != nil {
				continue
			}
			if pred(al.Type().Underlying().(*types.Pointer).Elem()) {
				found = al
				return
			}
		}
		if d > 2 {
			return
		}
		for _, b := range bs {
			if al, ok := b.(*ssa.Alloc); ok {
				if st, ok := stableCell(al); ok {
					if mc2, ok := st.Val.(*ssa.MakeClosure); ok {
						visit(mc2.Bindings, d+1)
					}
				}
			}
		}
	}
	visit(mc.Bindings, 0)
	return found
}

// codecCell: the first variable cell of the given role in a codec function that
// some closure captures (err, comma), looked up through its closures.
func codecCell(f *ssa.Function, pred func(types.Type) bool) *ssa.Alloc {
	for _, g := range f.AnonFuncs {
		if al := closureCell(f, g, pred); al != nil {
			return al
		}
	}
	return nil
}

// phiOfType: the loop-carried variable of a given type at a loop header.
func phiOfType(env *cenv, pred func(types.Type) bool) (tv, bool) {
	var names []string
	for k := range env.vars {
		names = append(names, k)
	}
	sort.Strings(names)
	for _, k := range names {
		v := env.vars[k]
		if strings.HasPrefix(k, "#phi:") && v.t != nil && pred(v.t) {
			return v, true
		}
	}
	return tv{}, false
}

func localAlloc(parent *ssa.Function, name string) *ssa.Alloc {
	for _, b := range parent.Blocks {
		for _, in := range b.Instrs {
			if al, ok := in.(*ssa.Alloc); ok && al.Comment == name {
				return al
			}
		}
	}
	return nil
}

func (e *FuncEnc) cellLoad(st *state, al *ssa.Alloc) string {
	return e.load(st, e.v(al), al.Type().Underlying().(*types.Pointer).Elem())
}

func viewsEq(trA, trB, w string) string {
	var cs []string
	for _, view := range jsonViewNames {
		cs = append(cs, eq(sx(view, trA, w), sx(view, trB, w)))
	}
	return and(cs...)
}

func (e *FuncEnc) safeKeyTerm(name string) string {
	if txt, ok := e.D.LitText(name); ok {
		if jsonSafeKey(txt) {
			return "true"
		}
		return "false"
	}
	return sx(e.D.UF("safekey", []string{"Str"}, "Bool"), name)
}

func (jf *JSONFamily) installWriteProperty(g, parent *ssa.Function) {
	errA, commaA, outA, encA := closureCell(parent, g, isErrorT), closureCell(parent, g, isStringT), closureCell(parent, g, isWriterT), closureCell(parent, g, isEncoderPtrT)
	if errA == nil || commaA == nil || outA == nil || encA == nil {
		jf.note(parent.String() + ": writeProperty closure without the expected captured variables")
		return
	}
	// does the closure encode the member name (json.Marshal) or write it raw?
	escapes := false
	for _, b := range g.Blocks {
		for _, in := range b.Instrs {
			if call, ok := in.(*ssa.Call); ok {
				if f := call.Call.StaticCallee(); f != nil && f.String() == "encoding/json.Marshal" {
					escapes = true
				}
			}
		}
	}
	c := newFamilyContract(g)
	c.Options["family"] = "json-writeProperty"
	D := func(e *FuncEnc) {
		e.jsonEvents()
		e.D.UF("enc_writer", []string{"Int"}, "Iface")
	}
	// frame: only the err and comma variables are written (checked at the returns)
	cellT := func(al *ssa.Alloc) types.Type { return al.Type().Underlying().(*types.Pointer).Elem() }
	dd := NewDecls()
	modKeys := map[string]bool{dd.heapKey(cellT(errA)): true, dd.heapKey(cellT(commaA)): true}
	c.Modifies = modKeys
	c.PreHook = func(e *FuncEnc, args []string) []NamedFormula {
		D(e)
		w := e.cellLoad(e.cur, outA)
		enc := e.cellLoad(e.cur, encA)
		e.noteWriter(w)
		return []NamedFormula{{Name: "encoder-writes-to-out", Props: []string{"C06"}, Formula: and(not(eq(sx("if_tag", w), "0")), not(eq(enc, "0")), eq(sx("enc_writer", enc), w))}}
	}
	spec := func(e *FuncEnc, name, v string, pre, post *state) []NamedFormula {
		D(e)
		w := e.cellLoad(pre, outA)
		e0, e1 := e.cellLoad(pre, errA), e.cellLoad(post, errA)
		c0, c1 := e.cellLoad(pre, commaA), e.cellLoad(post, commaA)
		nil0, nil1 := eq(sx("if_tag", e0), "0"), eq(sx("if_tag", e1), "0")
		safe := e.safeKeyTerm(name)
		if escapes {
			safe = "true"
		}
		tokNull := sx("tr_cons", pre.trace, sx("ev_jw_tok", w, itoa(jkKeyNull), c0, name, safe))
		tokKey := sx("tr_cons", pre.trace, sx("ev_jw_tok", w, itoa(jkKey), c0, name, safe))
		enc := sx("tr_cons", tokKey, sx("ev_jw_enc", w, v))
		out := []NamedFormula{
			{Name: "ensures#skipped-after-error", Props: []string{"C06"}, Formula: implies(not(nil0), and(eq(e1, e0), eq(c1, c0), viewsEq(post.trace, pre.trace, w)))},
			{Name: "ensures#member-written", Props: []string{"C06", "C07"}, Formula: implies(nil1, and(nil0, eq(c1, "lit_comma"),
				ite(eq(sx("if_tag", v), "0"), viewsEq(post.trace, tokNull, w), viewsEq(post.trace, enc, w))))},
			{Name: "ensures#bad-stays-bad", Props: []string{"C06"}, Formula: implies(eq(sx("jst", pre.trace, w), "99"), eq(sx("jst", post.trace, w), "99"))},
		}
		for _, x := range e.jsonWriters() {
			if x == w {
				continue
			}
			out = append(out, NamedFormula{Name: "ensures#frame", Props: []string{"C06"}, Formula: implies(not(eq(x, w)), viewsEq(post.trace, pre.trace, x))})
		}
		return out
	}
	c.RetHook = func(e *FuncEnc, results []string) []NamedFormula {
		out := spec(e, e.val[g.Params[0]], e.val[g.Params[1]], e.entry, e.cur)
		frame := "true"
		if e.cur.epoch != e.entry.epoch {
			frame = "false"
		}
		for _, k := range sortedKeys(e.cur.heaps) {
			n := e.cur.heaps[k]
			if modKeys[k] || k == fsKey {
				continue
			}
			if srt, ok := e.heapSorts[k]; ok && e.heapName(e.entry, k, srt) != n {
				frame = "false"
			}
		}
		return append(out, NamedFormula{Name: "frame#only-err-and-comma-written", Props: []string{"C06"}, Formula: frame})
	}
	c.PostHook = func(e *FuncEnc, args, results []string, pre, post *state) []NamedFormula {
		return spec(e, args[0], args[1], pre, post)
	}
	jf.Em.W.Contracts[g.String()] = c
}

// ---------------------------------------------------------------- additional properties

type apCtx struct {
	m      string // the map value (address)
	has    func(k string) string
	entry  func(k string) string // JOpt entry written for key k
	entryOK func(a, k string) string // entry a is what must be written for key k
	lenPos string               // the map has at least one key
	ks     string
	problem string
}

// apOf: terms describing the AdditionalProperties map of struct value c, read
// in state st (the map is not written by the codec).
func (jf *JSONFamily) apOf(e *FuncEnc, jt *jsonType, c string, st *state) *apCtx {
	mt := jt.APType.Underlying().(*types.Map)
	vk, hk, vs, hs, ks, _ := e.mapKeys(mt)
	m := sx(e.D.FieldSelector(jt.Named, jt.APField), c)
	hasArr := sx("select", e.heapName(st, hk, hs), m)
	valArr := sx("select", e.heapName(st, vk, vs), m)
	ctx := &apCtx{m: m, ks: ks}
	ctx.has = func(k string) string { return and(not(eq(m, "0")), sx("select", hasArr, k)) }
	elem := mt.Elem()
	ctx.entry = func(k string) string {
		v := sx("select", valArr, k)
		if types.IsInterface(elem) {
			return ite(eq(sx("if_tag", v), "0"), "(j_some jv_null)", sx("j_some", sx("jv_enc", v)))
		}
		return sx("j_some", sx("jv_enc", e.ifaceOf(elem, v)))
	}
	// entryOK: member entry `a` is the encoding of the map value under key k, by
	// the same rule as a declared property of that schema (a nil slice is
	// written as an empty array, not as null)
	ctx.entryOK = func(a, k string) string {
		if jt.Schema.APSchema == nil || types.IsInterface(elem) {
			return eq(a, ctx.entry(k))
		}
		f, problem := jf.valueOK(e, a, sx("select", valArr, k), elem, jt.Schema.APSchema)
		if problem != "" && ctx.problem == "" {
			ctx.problem = "additional property values: " + problem
		}
		return f
	}
	lenf := e.D.MapLen(ks)
	ctx.lenPos = and(not(eq(m, "0")), sx(">", sx(lenf, hasArr), "0"))
	if jt.Schema.APSchema != nil && !types.IsInterface(elem) && !goKindMatches(elem, jt.Schema.APSchema) {
		ctx.problem = fmt.Sprintf("additional property values of Go type %s do not encode as JSON %q", elem, jt.Schema.APSchema.Type)
	}
	return ctx
}

// ---------------------------------------------------------------- array components
//
//	emitted func (A).marshalJSONInnerBody(out io.Writer) error           [array schemas]
//	  requires jst(trace, out) in {20, 99}                      -- just "[" written (or a failed write)
//	  ensures  err == nil && old state != 99 ==> jst(trace, out) == (len(c) > 0 ? 22 : 20)
//	  loop #0 invariant (processed == 0 && comma == "" && jst == 20) || (processed > 0 && comma == "," && jst == 22)
//	emitted func (A).MarshalJSON() ([]byte, error)    ensures err == nil ==> doc_st(result) == 24 (one closed array)
//	emitted func marshalJSONInnerBody$writeItem(v any)  ensures err == nil ==> old(err) == nil && one value (or null) written
//	emitted func (*A).UnmarshalJSON(bs []byte) error  requires fresh receiver; ensures a non-null non-array document is rejected
//
// The values of the items (sequence of encoded elements, decoded elements) are
// not under contract: see DESIGN §0.7, limits.

func (jf *JSONFamily) installWriteItem(g, parent *ssa.Function) {
	errA, outA, encA := closureCell(parent, g, isErrorT), closureCell(parent, g, isWriterT), closureCell(parent, g, isEncoderPtrT)
	if errA == nil || outA == nil || encA == nil {
		jf.note(parent.String() + ": writeItem closure without the expected captured variables")
		return
	}
	c := newFamilyContract(g)
	c.Options["family"] = "json-writeItem"
	cellT := func(al *ssa.Alloc) types.Type { return al.Type().Underlying().(*types.Pointer).Elem() }
	dd := NewDecls()
	modKeys := map[string]bool{dd.heapKey(cellT(errA)): true}
	c.Modifies = modKeys
	c.PreHook = func(e *FuncEnc, args []string) []NamedFormula {
		e.jsonEvents()
		e.D.UF("enc_writer", []string{"Int"}, "Iface")
		w := e.cellLoad(e.cur, outA)
		enc := e.cellLoad(e.cur, encA)
		e.noteWriter(w)
		return []NamedFormula{{Name: "encoder-writes-to-out", Props: []string{"C06"}, Formula: and(not(eq(sx("if_tag", w), "0")), not(eq(enc, "0")), eq(sx("enc_writer", enc), w))}}
	}
	spec := func(e *FuncEnc, v string, pre, post *state) []NamedFormula {
		e.jsonEvents()
		w := e.cellLoad(pre, outA)
		e0, e1 := e.cellLoad(pre, errA), e.cellLoad(post, errA)
		nil0, nil1 := eq(sx("if_tag", e0), "0"), eq(sx("if_tag", e1), "0")
		tokNull := sx("tr_cons", pre.trace, sx("ev_jw_tok", w, itoa(jkNull), "str_empty", "str_empty", "true"))
		enc := sx("tr_cons", pre.trace, sx("ev_jw_enc", w, v))
		return []NamedFormula{
			{Name: "ensures#skipped-after-error", Props: []string{"C06"}, Formula: implies(not(nil0), and(eq(e1, e0), viewsEq(post.trace, pre.trace, w)))},
			{Name: "ensures#item-written", Props: []string{"C06", "C07"}, Formula: implies(nil1, and(nil0, ite(eq(sx("if_tag", v), "0"), viewsEq(post.trace, tokNull, w), viewsEq(post.trace, enc, w))))},
			{Name: "ensures#bad-stays-bad", Props: []string{"C06"}, Formula: implies(eq(sx("jst", pre.trace, w), "99"), eq(sx("jst", post.trace, w), "99"))},
		}
	}
	c.RetHook = func(e *FuncEnc, results []string) []NamedFormula {
		out := spec(e, e.val[g.Params[0]], e.entry, e.cur)
		frame := "true"
		if e.cur.epoch != e.entry.epoch {
			frame = "false"
		}
		for _, k := range sortedKeys(e.cur.heaps) {
			n := e.cur.heaps[k]
			if modKeys[k] || k == fsKey {
				continue
			}
			if srt, ok := e.heapSorts[k]; ok && e.heapName(e.entry, k, srt) != n {
				frame = "false"
			}
		}
		return append(out, NamedFormula{Name: "frame#only-err-written", Props: []string{"C06"}, Formula: frame})
	}
	c.PostHook = func(e *FuncEnc, args, results []string, pre, post *state) []NamedFormula {
		return spec(e, args[0], pre, post)
	}
	jf.Em.W.Contracts[g.String()] = c
}

func (jf *JSONFamily) installArrayInner(f *ssa.Function, jt *jsonType) {
	c := newFamilyContract(f)
	c.Options["family"] = "json-marshal-array-inner"
	errA, commaA := codecCell(f, isErrorT), codecCell(f, isStringT)
	c.PreHook = func(e *FuncEnc, args []string) []NamedFormula {
		e.jsonEvents()
		e.noteWriter(args[1])
		st := sx("jst", e.cur.trace, args[1])
		return []NamedFormula{{Name: "start-state", Props: []string{"C06"}, Formula: and(not(eq(sx("if_tag", args[1]), "0")), or(eq(st, "20"), eq(st, "99")))}}
	}
	elemT := jt.Named.Underlying().(*types.Slice).Elem()
	itemProblem := ""
	if !goKindMatches(elemT, jt.Schema.Items) {
		itemProblem = fmt.Sprintf("items of Go type %s do not encode as the declared item type", elemT)
		jf.note(jt.Named.Obj().Name() + ": " + itemProblem)
	}
	// items(e, cv, st, alen0, aidx, upto): the items at positions [alen0, alen0+upto) of aidx are
	// the encodings of c[0..upto), earlier positions are those of aidx0
	items := func(e *FuncEnc, cv string, st *state, alen0, aidx0, aidx, upto string) string {
		if itemProblem != "" {
			return "false"
		}
		base, off := constOf(e, "arr_base", "Int", sx("sl_base", cv)), constOf(e, "arr_off", "Int", sx("sl_off", cv))
		el := e.load(st, sx("elem", base, "qa"), elemT)
		want := sx("j_some", sx("jv_enc", e.ifaceOf(elemT, el)))
		ax := constOf(e, "arr_idx", "(Array Int JOpt)", aidx)
		_ = aidx0
		return fmt.Sprintf("(forall ((qa Int)) (! (=> (and (<= %s qa) (< qa (+ %s %s))) (= (select %s (+ %s (- qa %s))) %s)) :pattern ((elem %s qa))))", off, off, upto, ax, alen0, off, want, base)
	}
	spec := func(e *FuncEnc, cv, out, err, tr0, tr1 string, st0s *state) []NamedFormula {
		e.jsonEvents()
		st0, st1 := sx("jst", tr0, out), sx("jst", tr1, out)
		ok := and(eq(sx("if_tag", err), "0"), not(eq(st0, "99")))
		n := sx("sl_len", cv)
		return []NamedFormula{
			{Name: "ensures#state", Props: []string{"C06"}, Formula: implies(ok, eq(st1, ite(sx(">", n, "0"), "22", "20")))},
			{Name: "ensures#bad-stays-bad", Props: []string{"C06"}, Formula: implies(eq(st0, "99"), eq(st1, "99"))},
			{Name: "ensures#items", Props: []string{"C07"}, Formula: implies(ok, and(eq(sx("jalen", tr1, out), sx("+", sx("jalen", tr0, out), n)), items(e, cv, st0s, sx("jalen", tr0, out), sx("jaidx", tr0, out), sx("jaidx", tr1, out), n)))},
		}
	}
	c.RetHook = func(e *FuncEnc, results []string) []NamedFormula {
		return spec(e, e.val[f.Params[0]], e.val[f.Params[1]], results[0], e.entry.trace, e.cur.trace, e.entry)
	}
	c.PostHook = func(e *FuncEnc, args, results []string, pre, post *state) []NamedFormula {
		fs := spec(e, args[0], args[1], results[0], pre.trace, post.trace, pre)
		for _, w := range e.jsonWriters() {
			if w != args[1] {
				fs = append(fs, NamedFormula{Name: "frame", Formula: implies(not(eq(w, args[1])), viewsEq(post.trace, pre.trace, w))})
			}
		}
		return fs
	}
	c.Modifies = map[string]bool{}
	if errA != nil {
		c.LoopHook = func(e *FuncEnc, ord int, env *cenv) []NamedFormula {
			e.jsonEvents()
			st := env.st
			out := e.val[f.Params[1]]
			e1 := e.cellLoad(st, errA)
			var c1 string
			if commaA != nil {
				c1 = e.cellLoad(st, commaA)
			} else if cv, ok := phiOfType(env, isStringT); ok {
				c1 = cv.s
			}
			// no separator variable: the code decides by the index (`if i > 0 { write(",") }`);
			// the invariant is then about the writer state alone
			commaIs := func(lit string) string {
				if c1 == "" {
					return "true"
				}
				return eq(c1, lit)
			}
			st0, st1 := sx("jst", e.entry.trace, out), sx("jst", st.trace, out)
			dn, ok := env.vars["#done"]
			if !ok {
				return []NamedFormula{{Name: "invariant#shape", Props: []string{"C06"}, Formula: "false"}}
			}
			done := dn.s
			G := and(eq(sx("if_tag", e1), "0"), not(eq(st0, "99")))
			cv := e.val[f.Params[0]]
			tr0, tr1 := e.entry.trace, st.trace
			return []NamedFormula{
				{Name: "invariant#range", Props: []string{"C06"}, Formula: and(sx("<=", "0", done), sx("<=", done, sx("sl_len", cv)))},
				{Name: "invariant#comma-state", Props: []string{"C06"}, Formula: implies(G, or(and(eq(done, "0"), commaIs("str_empty"), eq(st1, "20")), and(sx(">", done, "0"), commaIs("lit_comma"), eq(st1, "22"))))},
				{Name: "invariant#bad-stays-bad", Props: []string{"C06"}, Formula: implies(eq(st0, "99"), eq(st1, "99"))},
				{Name: "invariant#items", Props: []string{"C07"}, Formula: implies(G, and(eq(sx("jalen", tr1, out), sx("+", sx("jalen", tr0, out), done)), items(e, cv, e.entry, sx("jalen", tr0, out), sx("jaidx", tr0, out), sx("jaidx", tr1, out), done)))},
			}
		}
	}
	jf.Em.W.Contracts[f.String()] = c
}

func (jf *JSONFamily) installArrayOuter(f *ssa.Function, jt *jsonType) {
	c := newFamilyContract(f)
	c.Options["family"] = "json-marshal-array"
	elemT := jt.Named.Underlying().(*types.Slice).Elem()
	spec := func(e *FuncEnc, cv, res, err string, st0s *state) []NamedFormula {
		e.jsonEvents()
		e.D.UF("doc_st", []string{"Slice"}, "Int")
		e.D.UF("doc_alen", []string{"Slice"}, "Int")
		e.D.UF("doc_aidx", []string{"Slice"}, "(Array Int JOpt)")
		ok := eq(sx("if_tag", err), "0")
		out := []NamedFormula{{Name: "ensures#valid", Props: []string{"C06"}, Formula: implies(ok, eq(sx("doc_st", res), "24"))}}
		if goKindMatches(elemT, jt.Schema.Items) {
			base, off := constOf(e, "arr_base", "Int", sx("sl_base", cv)), constOf(e, "arr_off", "Int", sx("sl_off", cv))
			el := e.load(st0s, sx("elem", base, "qa"), elemT)
			want := sx("j_some", sx("jv_enc", e.ifaceOf(elemT, el)))
			ax := constOf(e, "arr_idx", "(Array Int JOpt)", sx("doc_aidx", res))
			out = append(out, NamedFormula{Name: "ensures#items", Props: []string{"C07"}, Formula: implies(ok, and(eq(sx("doc_alen", res), sx("sl_len", cv)),
				fmt.Sprintf("(forall ((qa Int)) (! (=> (and (<= %s qa) (< qa (+ %s (sl_len %s)))) (= (select %s (- qa %s)) %s)) :pattern ((elem %s qa))))", off, off, cv, ax, off, want, base)))})
		}
		return out
	}
	c.RetHook = func(e *FuncEnc, results []string) []NamedFormula {
		return spec(e, e.val[f.Params[0]], results[0], results[1], e.entry)
	}
	c.PostHook = func(e *FuncEnc, args, results []string, pre, post *state) []NamedFormula {
		return spec(e, args[0], results[0], results[1], pre)
	}
	c.Modifies = map[string]bool{}
	jf.Em.W.Contracts[f.String()] = c
}

func (jf *JSONFamily) installArrayUnOuter(f *ssa.Function, jt *jsonType) {
	c := newFamilyContract(f)
	c.Options["family"] = "json-unmarshal-array"
	T := jt.Named
	c.PreHook = func(e *FuncEnc, args []string) []NamedFormula {
		e.needUn()
		return []NamedFormula{{Name: "fresh-receiver", Props: []string{"C06", "C08"}, Formula: and(not(eq(args[0], "0")), jf.zeroReceiver(e, e.cur, args[0], T))}}
	}
	spec := func(e *FuncEnc, cptr, bs, err string, post *state, goal bool) []NamedFormula {
		e.needUn()
		d := sx("rawdoc", bs)
		okk := eq(sx("if_tag", err), "0")
		ef, vf := e.udecFns(T)
		out := []NamedFormula{
			{Name: "ensures#strict-array", Props: []string{"C08"}, Formula: implies(and(not(sx("docNull", d)), not(eq(sx("docKind", d), "2"))), not(okk))},
		}
		elemT := T.Underlying().(*types.Slice).Elem()
		if fl, vl, problem := jf.decodeSpec(e, "(docItem "+d+" qi)", "(doc_rawitem "+d+" qi)", elemT, jt.Schema.Items); problem == "" {
			e.D.UF("docLen", []string{"Doc"}, "Int")
			e.D.UF("docItem", []string{"Doc", "Int"}, "Doc")
			e.D.UF("doc_rawitem", []string{"Doc", "Int"}, "Slice")
			e.D.Axiom("doc_rawitem", "(forall ((d Doc) (i Int)) (! (and (= (rawdoc (doc_rawitem d i)) (docItem d i)) (> (sl_base (doc_rawitem d i)) 0)) :pattern ((doc_rawitem d i))))")
			res := e.load(post, cptr, T)
			rb, ro := constOf(e, "ua_rb", "Int", sx("sl_base", res)), constOf(e, "ua_ro", "Int", sx("sl_off", res))
			// keyed by the absolute cell index ra of the result; the item index is ra - ro
			flQ := fl
			fl = strings.ReplaceAll(fl, " qi)", " (- ra "+ro+"))")
			vl = strings.ReplaceAll(vl, " qi)", " (- ra "+ro+"))")
			got := e.load(post, sx("elem", rb, "ra"), elemT)
			n := ite(sx("docNull", d), "0", sx("docLen", d))
			out = append(out,
				NamedFormula{Name: "ensures#items-decoded", Props: []string{"C08", "C06"}, Formula: implies(okk, and(eq(sx("sl_len", res), n),
					skolemIf(e, goal, "ra", fmt.Sprintf("(=> (and (<= %s ra) (< ra (+ %s %s))) (and (not %s) %s))", ro, ro, n, fl, jf.sameDecoded(e, got, vl, elemT)), sx("elem", rb, "ra"))))},
				NamedFormula{Name: "ensures#rejects-only-faulty", Props: []string{"C08"}, Formula: implies(not(okk), or(sx(e.rawListErrFn(), d), fmt.Sprintf("(exists ((qi Int)) (and (<= 0 qi) (< qi %s) %s))", n, flQ)))})
		}
		out = append(out, NamedFormula{Name: "def#udec", Formula: and(eq(okk, not(sx(ef, d))), implies(okk, eq(e.load(post, cptr, T), sx(vf, d))))})
		return out
	}
	c.RetHook = func(e *FuncEnc, results []string) []NamedFormula {
		var out []NamedFormula
		for _, nf := range spec(e, e.val[f.Params[0]], e.val[f.Params[1]], results[0], e.cur, true) {
			if !strings.HasPrefix(nf.Name, "def#") {
				out = append(out, nf)
			}
		}
		return pruneByReturn(e, out)
	}
	c.PostHook = func(e *FuncEnc, args, results []string, pre, post *state) []NamedFormula {
		fs := spec(e, args[0], args[1], results[0], post, false)
		e.Assumed["the outcome of UnmarshalJSON on a fresh receiver is a function of the document (uerr_T, udec_T name it)"] = true
		return append(fs, jf.receiverFrame(e, args[0], T, pre, post)...)
	}
	c.Modifies = jf.receiverKeys(T, nil)
	jf.Em.W.Contracts[f.String()] = c
}

// skolemIf: a universally quantified clause over an Int variable: as an
// assumption the quantifier with its trigger, as a proof goal the body for a
// fresh constant (explicit skolemisation keeps the trigger terms ground).
func skolemIf(e *FuncEnc, goal bool, v, body, trigger string) string {
	if goal {
		sk := e.newSym("sk_"+v, "Int")
		return replaceVar(body, v, sk)
	}
	return fmt.Sprintf("(forall ((%s Int)) (! %s :pattern (%s)))", v, body, trigger)
}

// ---------------------------------------------------------------- oneOf components (encoding)
//
//	emitted func (O).MarshalJSON() ([]byte, error)                      [oneOf schemas]
//	  ensures err == nil ==> some variant is set, and for the first set variant V (in schema order)
//	          the result is the document MarshalJSON of V's value yields (closed object, V's members)
//	  ensures no variant set ==> err != nil
//
// Decoding of oneOf components (discriminator switch, first-success probing) is
// not under contract.

type oneOfVariant struct {
	field int
	jt    *jsonType
}

func (jf *JSONFamily) oneOfVariants(jt *jsonType) ([]oneOfVariant, string) {
	st := jt.Named.Underlying().(*types.Struct)
	var out []oneOfVariant
	for _, v := range jt.Schema.OneOf {
		if v.Component == "" {
			return nil, "inline oneOf variant"
		}
		idx := -1
		for i := 0; i < st.NumFields(); i++ {
			if normName(st.Field(i).Name()) == normName(v.Component) {
				idx = i
			}
		}
		if idx < 0 {
			return nil, "no field for oneOf variant " + v.Component
		}
		k, inner := wrapperOf(st.Field(idx).Type())
		n, ok := inner.(*types.Named)
		if k != "Maybe" || !ok {
			return nil, "oneOf variant field is not Maybe[T]"
		}
		vj := jf.Types[n.Obj().Name()]
		if vj == nil || vj.Problem != "" || !vj.Schema.IsObjectLike() {
			return nil, "oneOf variant " + v.Component + " is not an object type under contract"
		}
		out = append(out, oneOfVariant{field: idx, jt: vj})
	}
	return out, ""
}

func (jf *JSONFamily) installOneOfOuter(f *ssa.Function, jt *jsonType) {
	vars, problem := jf.oneOfVariants(jt)
	if problem != "" {
		jf.note(jt.Named.Obj().Name() + ": " + problem)
		return
	}
	c := newFamilyContract(f)
	c.Options["family"] = "json-marshal-oneof"
	spec := func(e *FuncEnc, cv, res, err string, st0 *state) []NamedFormula {
		e.jsonEvents()
		ok := eq(sx("if_tag", err), "0")
		var out []NamedFormula
		var earlier []string
		var anySet []string
		for _, v := range vars {
			ft := jt.Named.Underlying().(*types.Struct).Field(v.field).Type()
			fld := sx(e.D.FieldSelector(jt.Named, v.field), cv)
			is := sx(e.D.FieldSelector(ft, structFieldIndex(ft, "IsSet")), fld)
			val := sx(e.D.FieldSelector(ft, structFieldIndex(ft, "Value")), fld)
			chosen := and(append([]string{is}, earlier...)...)
			for _, nf := range jf.outerSpec(e, v.jt, val, res, err, st0) {
				nf.Name = nf.Name + "@" + v.jt.Named.Obj().Name()
				nf.Formula = implies(chosen, nf.Formula)
				out = append(out, nf)
			}
			earlier = append(earlier, not(is))
			anySet = append(anySet, is)
		}
		out = append(out, NamedFormula{Name: "ensures#some-variant", Props: []string{"C06", "C07"}, Formula: implies(ok, or(anySet...))})
		return out
	}
	c.RetHook = func(e *FuncEnc, results []string) []NamedFormula {
		return spec(e, e.val[f.Params[0]], results[0], results[1], e.entry)
	}
	c.PostHook = func(e *FuncEnc, args, results []string, pre, post *state) []NamedFormula {
		return spec(e, args[0], results[0], results[1], pre)
	}
	c.Modifies = map[string]bool{}
	jf.Em.W.Contracts[f.String()] = c
}

func isWrapperType(t types.Type) bool {
	k, _ := wrapperOf(types.Unalias(t))
	return k != ""
}
