package vc

import (
	"fmt"
	"go/constant"
	"go/types"
	"strings"
	"unicode"

	"golang.org/x/tools/go/ssa"
)

// ParamsFamily instantiates, for every operation, the contract of the emitted
// new<Op>Params(r) (DESIGN §4.4, §4.5):
//
//	ensures err != nil ==> refFailQH(r) || refFailPath(r) || bodyFailed
//	ensures err == nil ==> !refFailQH(r) && !refFailPath(r)
//	ensures err == nil ==> params.<loc>.<F> == refValue_P(r)        for every declared query / header parameter P
//	ensures err != nil && !bodyFailed ==> exists failing P: mentions(err, P)
//	ensures dispatched(r) && err == nil ==> params.Path.<F> == lexVal_T(seg_k(R))   (C05)
//	ensures dispatched(r) && (seg_k(R) == "" || !lexOK_T(seg_k(R))) ==> err != nil && mentions(err, name)
//
// refValue / refFail use the reference parser skeleton: the stdlib parser of
// the declared type applied to the supplied text (uninterpreted, total).

type paramBinding struct {
	P        RefParam
	LocField int // field of Params struct: Query / Headers / Path
	Field    int // field inside the location struct
	FieldT   types.Type
	SegIndex int // for path parameters: index of the template segment
}

// partialSegmentVars: a template segment like "{a}-sep-{b}".
func partialSegmentVars(op *RefOp) bool {
	for _, sg := range op.Segs {
		if (!sg.IsVar && strings.ContainsAny(sg.Lit, "{}")) || (sg.IsVar && strings.ContainsAny(sg.Var, "{}")) {
			return true
		}
	}
	return false
}

// withCredentialParams: the header credential carriers of the operation's security
// schemes (Authorization, apiKey headers) are single-valued optional string parameters of the request (goag
// exposes them to the handler as such): a request repeating one is malformed.
func withCredentialParams(op *RefOp) *RefOp {
	cp := *op
	cp.Params = append([]RefParam{}, op.Params...)
	have := func(in, name string) bool {
		for _, p := range cp.Params {
			if p.In == in && strings.EqualFold(p.Name, name) {
				return true
			}
		}
		return false
	}
	for _, alt := range op.Security {
		for _, sc := range alt {
			in, name := "", ""
			switch sc.Kind() {
			case "bearer":
				in, name = "header", "Authorization"
			case "apikey-header":
				in, name = "header", sc.Name
			}
			if in != "" && !have(in, name) {
				// required when no alternative of the requirement does without it
				inAll := true
				for _, alt2 := range op.Security {
					found := false
					for _, s2 := range alt2 {
						if s2.Key == sc.Key {
							found = true
						}
					}
					if !found {
						inAll = false
					}
				}
				cp.Params = append(cp.Params, RefParam{Name: name, In: in, Required: inAll, Type: "string", Schema: map[string]any{"type": "string"}})
			}
		}
	}
	return &cp
}

type ParamsFamily struct {
	Skipped []string
	Em  *Emitted
	RF  *RouteFamily
	Fns map[*ssa.Function]*RefOp
}

func normName(s string) string {
	var b strings.Builder
	for _, r := range s {
		if unicode.IsLetter(r) || unicode.IsDigit(r) {
			b.WriteRune(unicode.ToLower(r))
		}
	}
	return b.String()
}

// NewParamsFamily finds new<Op>Params for every operation by following the
// static calls HandlerFunc.ServeHTTP -> <Op>HTTPRequest -> Parse -> new<Op>Params.
func NewParamsFamily(em *Emitted, rf *RouteFamily) *ParamsFamily {
	pf := &ParamsFamily{Em: em, RF: rf, Fns: map[*ssa.Function]*RefOp{}}
	for k, idx := range rf.opField {
		var op *RefOp
		for _, o := range em.Ref.Ops {
			if o.Method == k[0] && o.Template == k[1] {
				op = o
			}
		}
		if op == nil {
			continue
		}
		ft, ok := rf.api.Struct.Field(idx).Type().(*types.Named)
		if !ok {
			continue
		}
		var serve *ssa.Function
		for j := 0; j < ft.NumMethods(); j++ {
			if ft.Method(j).Name() == "ServeHTTP" {
				serve = em.W.Prog.FuncValue(ft.Method(j))
			}
		}
		if serve == nil {
			continue
		}
		// ServeHTTP -> constructor returning the request interface
		for _, c := range staticCallees(serve) {
			if c.Pkg == nil || c.Pkg != em.Pkg || c.Signature.Results().Len() != 1 {
				continue
			}
			// the constructor makes an interface from a struct whose Parse calls newXParams
			for _, b := range c.Blocks {
				for _, in := range b.Instrs {
					mi, ok := in.(*ssa.MakeInterface)
					if !ok {
						continue
					}
					nt, ok := mi.X.Type().(*types.Named)
					if !ok {
						continue
					}
					for j := 0; j < nt.NumMethods(); j++ {
						if nt.Method(j).Name() != "Parse" {
							continue
						}
						parse := em.W.Prog.FuncValue(nt.Method(j))
						for _, g := range staticCallees(parse) {
							if g.Pkg == em.Pkg && len(g.Params) == 1 && isHTTPRequestPtr(g.Params[0].Type()) {
								if partialSegmentVars(op) {
									pf.Skipped = append(pf.Skipped, fmt.Sprintf("%s %s: a path segment mixes literal text and variables (outside the reference path matcher): %s is not under contract", op.Method, op.Template, relName(g)))
									continue
								}
								pf.Fns[g] = withCredentialParams(op)
							}
						}
					}
				}
			}
		}
	}
	return pf
}

func staticCallees(f *ssa.Function) []*ssa.Function {
	var out []*ssa.Function
	if f == nil {
		return nil
	}
	for _, b := range f.Blocks {
		for _, in := range b.Instrs {
			if c, ok := in.(ssa.CallInstruction); ok {
				if g := c.Common().StaticCallee(); g != nil {
					out = append(out, g)
				}
			}
		}
	}
	return out
}

func structFieldByName(t types.Type, name string) (int, types.Type, bool) {
	st, ok := t.Underlying().(*types.Struct)
	if !ok {
		return 0, nil, false
	}
	for i := 0; i < st.NumFields(); i++ {
		if st.Field(i).Name() == name {
			return i, st.Field(i).Type(), true
		}
	}
	return 0, nil, false
}

// bind maps declared parameters to fields of the Params struct (normalised
// name comparison; ambiguity or absence is reported as a failed obligation).
func (pf *ParamsFamily) bind(fn *ssa.Function, op *RefOp) ([]paramBinding, []string) {
	return pf.bindType(fn.Signature.Results().At(0).Type(), op)
}

func (pf *ParamsFamily) bindType(pt types.Type, op *RefOp) ([]paramBinding, []string) {
	var out []paramBinding
	var problems []string
	loc := map[string]string{"query": "Query", "header": "Headers", "path": "Path"}
	for _, p := range op.Params {
		ln, ok := loc[p.In]
		if !ok {
			continue // cookie parameters are parsed and ignored
		}
		li, lt, ok := structFieldByName(pt, ln)
		if !ok {
			problems = append(problems, fmt.Sprintf("params struct has no %s section for %s parameter %q", ln, p.In, p.Name))
			continue
		}
		st := lt.Underlying().(*types.Struct)
		found := -1
		for i := 0; i < st.NumFields(); i++ {
			if normName(st.Field(i).Name()) == normName(p.Name) {
				if found >= 0 {
					problems = append(problems, fmt.Sprintf("parameter %q: ambiguous field", p.Name))
				}
				found = i
			}
		}
		if found < 0 {
			problems = append(problems, fmt.Sprintf("no field for %s parameter %q", p.In, p.Name))
			continue
		}
		b := paramBinding{P: p, LocField: li, Field: found, FieldT: st.Field(found).Type(), SegIndex: -1}
		if p.In == "path" {
			for k, s := range op.Segs {
				if s.IsVar && s.Var == p.Name {
					b.SegIndex = k
				}
			}
		}
		out = append(out, b)
	}
	return out, problems
}

// ---------------------------------------------------------------- reference parser skeleton

type lexer struct {
	ok  func(e *FuncEnc, s string) string // Bool: s is in the lexical space
	val func(e *FuncEnc, s string) string // value term of sort(goT)
	goT string                            // expected Go type of the field value
}

func libRes(e *FuncEnc, fn string, i int, args []string, sorts []string, res string) string {
	f := e.D.UF(fmt.Sprintf("lib_%s_r%d", mangle(fn), i), sorts, res)
	return sx(f, args...)
}

func parseIntLexer(bits int, goT string, kind types.BasicKind) lexer {
	b := itoa(int64(bits))
	return lexer{
		ok: func(e *FuncEnc, s string) string {
			return eq(sx("if_tag", libRes(e, "strconv.ParseInt", 1, []string{s, "10", b}, []string{"Str", "Int", "Int"}, "Iface")), "0")
		},
		val: func(e *FuncEnc, s string) string {
			return libRes(e, "strconv.ParseInt", 0, []string{s, "10", b}, []string{"Str", "Int", "Int"}, "Int")
		},
		goT: goT,
	}
}

func lexerFor(p RefParam) (lexer, bool) {
	switch p.Type {
	case "integer":
		switch p.Format {
		case "int32":
			return parseIntLexer(32, "int32", types.Int32), true
		case "int64":
			return parseIntLexer(64, "int64", types.Int64), true
		default:
			// formats other than the two defined for integers carry no constraint (OAS 3.0 §4.4: open-valued)
			return parseIntLexer(0, "int", types.Int), true
		}
	case "number":
		bits := "64"
		goT := "float64"
		if p.Format == "float" {
			bits, goT = "32", "float32"
		} else if p.Format != "" && p.Format != "double" {
			return lexer{}, false
		}
		return lexer{
			ok: func(e *FuncEnc, s string) string {
				return eq(sx("if_tag", libRes(e, "strconv.ParseFloat", 1, []string{s, bits}, []string{"Str", "Int"}, "Iface")), "0")
			},
			val: func(e *FuncEnc, s string) string {
				v := libRes(e, "strconv.ParseFloat", 0, []string{s, bits}, []string{"Str", "Int"}, "Real")
				return v
			},
			goT: goT,
		}, true
	case "boolean":
		return lexer{
			ok: func(e *FuncEnc, s string) string {
				return eq(sx("if_tag", libRes(e, "strconv.ParseBool", 1, []string{s}, []string{"Str"}, "Iface")), "0")
			},
			val: func(e *FuncEnc, s string) string {
				return libRes(e, "strconv.ParseBool", 0, []string{s}, []string{"Str"}, "Bool")
			},
			goT: "bool",
		}, true
	case "string":
		if p.Format == "date-time" {
			return lexer{}, false // needs the layout constant: handled by timeLexer
		}
		return lexer{
			ok:  func(e *FuncEnc, s string) string { return "true" },
			val: func(e *FuncEnc, s string) string { return s },
			goT: "string",
		}, true
	}
	return lexer{}, false
}

// queryMapTerm: r.URL.Query() as the pure library model names it.
func queryMapTerm(e *FuncEnc, u string) string {
	f := e.D.UF("lib_"+mangle("(*net/url.URL).Query")+"_r0", []string{"Int"}, "Int")
	return sx(f, u)
}

func headerValuesTerm(e *FuncEnc, h string, name string) string {
	f := e.D.UF("lib_"+mangle("(net/http.Header).Values")+"_r0", []string{"Int", "Str"}, "Slice")
	return sx(f, h, e.D.Lit(name))
}

type refValues struct {
	present string // Bool: at least one value supplied
	count   string // Int
	slice   string // Slice holding the values
	at      func(i string) string
	abs     func(k string) string // by absolute cell index
	base    string
	off     string
	heap    string
}

func (pf *ParamsFamily) requestParts(e *FuncEnc, fn *ssa.Function, st *state) (r, u, path, hdr string, urlT types.Type) {
	r = e.val[fn.Params[0]]
	reqS := fn.Params[0].Type().(*types.Pointer).Elem()
	rst := reqS.Underlying().(*types.Struct)
	for i := 0; i < rst.NumFields(); i++ {
		switch rst.Field(i).Name() {
		case "URL":
			urlT = rst.Field(i).Type()
			u = e.load(st, "("+e.D.FieldAddrFn(reqS, i)+" "+r+")", urlT)
		case "Header":
			hdr = e.load(st, "("+e.D.FieldAddrFn(reqS, i)+" "+r+")", rst.Field(i).Type())
		}
	}
	urlS := urlT.Underlying().(*types.Pointer).Elem()
	ust := urlS.Underlying().(*types.Struct)
	for i := 0; i < ust.NumFields(); i++ {
		if ust.Field(i).Name() == "Path" {
			path = e.load(st, "("+e.D.FieldAddrFn(urlS, i)+" "+u+")", types.Typ[types.String])
		}
	}
	return
}

func (pf *ParamsFamily) supplied(e *FuncEnc, p RefParam, u, hdr string, st *state) refValues {
	key := "supplied:" + p.In + ":" + p.Name
	if v, ok := e.Cache[key]; ok {
		return v.(refValues)
	}
	v := pf.suppliedBuild(e, p, u, hdr, st)
	e.Cache[key] = v
	return v
}

func (pf *ParamsFamily) suppliedBuild(e *FuncEnc, p RefParam, u, hdr string, st *state) refValues {
	strHeap := e.heapName(st, e.D.heapKey(types.Typ[types.String]), e.D.heapSort(types.Typ[types.String]))
	var sl string
	var present string
	if p.In == "query" {
		qm := queryMapTerm(e, u)
		mt := types.NewMap(types.Typ[types.String], types.NewSlice(types.Typ[types.String]))
		// url.Values is a named map type: find it through the library signature is
		// overkill; the heap key is by the underlying map type string of url.Values
		vk, hk, vs, hs, _, _ := e.mapKeys(pf.urlValuesType(mt))
		has := and(not(eq(qm, "0")), sx("select", sx("select", e.heapName(st, hk, hs), qm), e.D.Lit(p.Name)))
		val := sx("select", sx("select", e.heapName(st, vk, vs), qm), e.D.Lit(p.Name))
		sl = e.define("ref_q_"+mangle(p.Name), "Slice", ite(has, val, "slice_nil"))
		present = e.define("ref_has_"+mangle(p.Name), "Bool", and(has, sx(">", sx("sl_len", sl), "0")))
	} else {
		sl = e.define("ref_h_"+mangle(p.Name), "Slice", headerValuesTerm(e, hdr, p.Name))
		present = sx(">", sx("sl_len", sl), "0")
	}
	sb := constOf(e, "ref_base_"+mangle(p.Name), "Int", sx("sl_base", sl))
	so := constOf(e, "ref_off_"+mangle(p.Name), "Int", sx("sl_off", sl))
	return refValues{present: present, count: sx("sl_len", sl), slice: sl, base: sb, off: so, heap: strHeap, at: func(i string) string {
		return sx("select", strHeap, sx("elem", sb, sx("+", so, i)))
	}, abs: func(k string) string { return sx("select", strHeap, sx("elem", sb, k)) }}
}

// urlValuesType returns net/url.Values as the emitted package sees it.
func (pf *ParamsFamily) urlValuesType(fallback *types.Map) *types.Map {
	for _, p := range pf.Em.W.Pkgs {
		for _, imp := range p.Types.Imports() {
			if imp.Path() == "net/url" {
				if o := imp.Scope().Lookup("Values"); o != nil {
					if m, ok := o.Type().Underlying().(*types.Map); ok {
						return m
					}
				}
			}
		}
	}
	return fallback
}

// ---------------------------------------------------------------- contract

func (pf *ParamsFamily) Install() {
	for fn, op := range pf.Fns {
		fn, op := fn, op
		key := fn.String()
		c := pf.Em.W.Contracts[key]
		if c == nil {
			c = &Contract{Name: key, Emitted: true, LoopInv: map[int][]*Clause{}, LoopDec: map[int]*Clause{}, Options: map[string]string{}}
			pf.Em.W.Contracts[key] = c
		}
		binds, problems := pf.bind(fn, op)
		c.RetHook = func(e *FuncEnc, results []string) []NamedFormula {
			return pf.retObligations(e, fn, op, binds, problems, results)
		}
		c.LoopHook = func(e *FuncEnc, ord int, env *cenv) []NamedFormula {
			return pf.loopInvariants(e, fn, op, binds, ord, env)
		}
	}
}

// errMentions: does the returned error name the parameter?
func (pf *ParamsFamily) errMentions(e *FuncEnc, err string, p RefParam) string {
	var alts []string
	// ErrParseParam{In: ..., Parameter: ...}
	if o := pf.Em.Pkg.Pkg.Scope().Lookup("ErrParseParam"); o != nil {
		t := o.Type()
		tag := e.D.TypeTag(t)
		_, unbox := e.D.Box(t)
		if unbox != "" {
			v := sx(unbox, sx("if_val", err))
			conds := []string{eq(sx("if_tag", err), itoa(int64(tag)))}
			if i, _, ok := structFieldByName(t, "Parameter"); ok {
				conds = append(conds, eq(sx(e.D.FieldSelector(t, i), v), e.D.Lit(p.Name)))
			}
			if i, _, ok := structFieldByName(t, "In"); ok {
				conds = append(conds, eq(sx(e.D.FieldSelector(t, i), v), e.D.Lit(p.In)))
			}
			alts = append(alts, and(conds...))
		}
	}
	// fmt.Errorf("... 'name' ...") : the format literal is remembered by the library model
	for _, lit := range sortedKeys(e.ErrFormats) {
		sym := e.ErrFormats[lit]
		if strings.Contains(lit, "'"+p.Name+"'") || strings.Contains(lit, "\""+p.Name+"\"") || strings.Contains(lit, " "+p.Name+" ") {
			alts = append(alts, eq(sx("errfmt", err), sym))
		}
	}
	return or(alts...)
}

func (pf *ParamsFamily) fieldValue(e *FuncEnc, params string, pt types.Type, b paramBinding) (string, types.Type) {
	lt := pt.Underlying().(*types.Struct).Field(b.LocField).Type()
	loc := sx(e.D.FieldSelector(pt, b.LocField), params)
	return sx(e.D.FieldSelector(lt, b.Field), loc), b.FieldT
}

// maybeParts: for Maybe[T] / Nullable[T] wrappers returns (isSet, value, T).
func maybeParts(e *FuncEnc, v string, t types.Type) (string, string, types.Type, bool) {
	n, ok := t.(*types.Named)
	if !ok || !(strings.HasPrefix(n.Obj().Name(), "Maybe") || strings.HasPrefix(n.Obj().Name(), "Nullable")) {
		return "", "", nil, false
	}
	i, _, ok1 := structFieldByName(t, "IsSet")
	j, vt, ok2 := structFieldByName(t, "Value")
	if !ok1 || !ok2 {
		return "", "", nil, false
	}
	return sx(e.D.FieldSelector(t, i), v), sx(e.D.FieldSelector(t, j), v), vt, true
}

func convTo(e *FuncEnc, v string, lx lexer, t types.Type) string {
	// the emitted code converts the parser's int64/float64 to the field type;
	// within the parser's guaranteed range this is the identity
	return v
}

func (pf *ParamsFamily) retObligations(e *FuncEnc, fn *ssa.Function, op *RefOp, binds []paramBinding, problems []string, results []string) []NamedFormula {
	var out []NamedFormula
	for _, p := range problems {
		out = append(out, NamedFormula{Name: "ensures#binding/" + sanitize(p), Props: []string{"C04"}, Formula: "false"})
	}
	if len(results) < 2 {
		// the operation has nothing that can fail to parse
		results = append(results, "iface_nil")
	}
	params, err := results[0], results[1]
	pt := fn.Signature.Results().At(0).Type()
	st := e.entry
	_, u, path, hdr, _ := pf.requestParts(e, fn, st)
	isErr := not(eq(sx("if_tag", err), "0"))
	noErr := eq(sx("if_tag", err), "0")
	// syntactic shortcut: `return params, nil` / `return zero, <constructed error>`
	if e.curRet != nil && len(e.curRet.Results) == 2 {
		switch rv := e.curRet.Results[1].(type) {
		case *ssa.Const:
			if rv.Value == nil {
				isErr, noErr = "false", "true"
			}
		case *ssa.MakeInterface:
			isErr, noErr = "true", "false"
		case *ssa.Call:
			if g := rv.Call.StaticCallee(); g != nil && (g.String() == "fmt.Errorf" || g.String() == "errors.New") {
				isErr, noErr = "true", "false"
			}
		}
	}
	e.D.UF("errfmt", []string{"Iface"}, "Str")

	var failQH []string
	var mentionQH []string
	failByParam := map[string]string{}
	for _, b := range binds {
		p := b.P
		if p.In != "query" && p.In != "header" {
			continue
		}
		var lx lexer
		var ok bool
		if p.Type == "string" && p.Format == "date-time" {
			lx, ok = pf.timeLexer(e, fn)
		} else {
			lx, ok = lexerFor(p)
		}
		if !ok {
			continue // type outside the reference table (custom, object...): not decided
		}
		vs := pf.supplied(e, p, u, hdr, st)
		var fail string
		fv, ft := pf.fieldValue(e, params, pt, b)
		var valueOK string
		if p.IsArray {
			lo, hi := vs.off, sx("+", vs.off, vs.count)
			bad := fmt.Sprintf("(exists ((qk Int)) (! (and (<= %s qk) (< qk %s) (not %s)) :pattern (%s)))", lo, hi, lx.ok(e, vs.abs("qk")), vs.abs("qk"))
			fail = or(and(boolLit(p.Required), not(vs.present)), bad)
			// value: list of parsed elements
			target, tt := fv, ft
			setCond := "true"
			if isSet, val, vt, isMaybe := maybeParts(e, fv, ft); isMaybe {
				target, tt = val, vt
				setCond = eq(isSet, vs.present)
			}
			elemT := tt.Underlying().(*types.Slice).Elem()
			eh := constOf(e, "ref_heap", e.D.heapSort(elemT), e.heapName(e.cur, e.D.heapKey(elemT), e.D.heapSort(elemT)))
			tb := constOf(e, "ref_tb_"+mangle(p.Name), "Int", sx("sl_base", target))
			to := constOf(e, "ref_to_"+mangle(p.Name), "Int", sx("sl_off", target))
			cell := sx("select", eh, sx("elem", tb, "qk"))
			srcIdx := sx("+", vs.off, sx("-", "qk", to))
			all := fmt.Sprintf("(forall ((qk Int)) (! (=> (and (<= %s qk) (< qk (+ %s %s))) (= %s %s)) :pattern (%s)))", to, to, vs.count, cell, lx.val(e, vs.abs(srcIdx)), cell)
			valueOK = and(setCond, implies(vs.present, and(eq(sx("sl_len", target), vs.count), all)))
		} else {
			first := vs.at("0")
			fail = or(and(boolLit(p.Required), not(vs.present)), sx(">", vs.count, "1"), and(vs.present, not(lx.ok(e, first))))
			want := lx.val(e, first)
			if isSet, val, _, isMaybe := maybeParts(e, fv, ft); isMaybe {
				valueOK = and(eq(isSet, vs.present), implies(vs.present, eq(val, want)))
			} else {
				valueOK = implies(vs.present, eq(fv, want))
			}
		}
		if c, ok := e.Cache["fail:"+p.In+":"+p.Name]; ok {
			fail = c.(string)
		} else {
			fail = e.define("ref_fail_"+mangle(p.In+"_"+p.Name), "Bool", fail)
			e.Cache["fail:"+p.In+":"+p.Name] = fail
		}
		failQH = append(failQH, fail)
		failByParam[p.In+":"+p.Name] = fail
		mentionQH = append(mentionQH, and(fail, pf.errMentions(e, err, p)))
		out = append(out, NamedFormula{Name: "ensures#value/" + p.In + ":" + p.Name, Props: []string{"C04", "C09"}, Formula: implies(noErr, valueOK)})
	}
	refFailQH := e.define("refFailQH", "Bool", or(failQH...))

	// path parameters (C05): under "the reference dispatches this request here"
	var failPath, mentionPath []string
	dispatched, segTerm := pf.dispatchedTerm(e, op, path)
	for _, b := range binds {
		p := b.P
		if p.In != "path" || b.SegIndex < 0 {
			continue
		}
		var lx lexer
		var ok bool
		if p.Type == "string" && p.Format == "date-time" {
			lx, ok = pf.timeLexer(e, fn)
		} else {
			lx, ok = lexerFor(p)
		}
		if !ok {
			continue
		}
		seg := segTerm[b.SegIndex]
		fv, _ := pf.fieldValue(e, params, pt, b)
		fail := e.define("ref_fail_path_"+mangle(p.Name), "Bool", or(eq(sx("slen", seg), "0"), not(lx.ok(e, seg))))
		failPath = append(failPath, fail)
		failByParam["path:"+p.Name] = fail
		mentionPath = append(mentionPath, and(fail, pf.errMentions(e, err, p)))
		out = append(out, NamedFormula{Name: "ensures#pathvalue/" + p.Name, Props: []string{"C05"}, Formula: implies(and(dispatched, noErr), eq(fv, lx.val(e, seg)))})
		out = append(out, NamedFormula{Name: "ensures#pathreject/" + p.Name, Props: []string{"C05"}, Formula: implies(and(dispatched, fail), isErr)})
	}
	refFailPath := e.define("refFailPath", "Bool", or(failPath...))
	bodyFailed := e.define("bodyFailed", "Bool", or(e.BodyErrs...))

	// an error return that names a parameter syntactically: prove the stronger,
	// cheaper claim that this very parameter is malformed
	if pn, pin, ok := namedParamAtReturn(e); ok && isErr == "true" {
		for key, f := range failByParam {
			if key == pin+":"+pn {
				out = append(out,
					NamedFormula{Name: "ensures#reject-only-malformed", Props: []string{"C04"}, Formula: implies(dispatched, f)},
					NamedFormula{Name: "ensures#error-names-parameter", Props: []string{"C04", "C05"}, Formula: "true"},
				)
				return out
			}
		}
	}
	out = append(out,
		NamedFormula{Name: "ensures#reject-only-malformed", Props: []string{"C04"}, Formula: implies(and(isErr, dispatched), or(refFailQH, refFailPath, bodyFailed))},
		NamedFormula{Name: "ensures#accept-only-wellformed", Props: []string{"C04"}, Formula: implies(noErr, not(refFailQH))},
		NamedFormula{Name: "ensures#error-names-parameter", Props: []string{"C04", "C05"}, Formula: implies(and(isErr, dispatched, not(bodyFailed)), or(append(mentionQH, mentionPath...)...))},
	)
	return out
}

// constOf names a term by a declared constant (keeps quantifier patterns simple).
func constOf(e *FuncEnc, prefix, sort, term string) string {
	c := e.newSym(prefix, sort)
	e.emit("(assert (= " + c + " " + term + "))")
	return c
}

// dispatchedTerm: the reference dispatches the request to this operation
// (template segments in absolute positions of r.URL.Path); cached per function.
func (pf *ParamsFamily) dispatchedTerm(e *FuncEnc, op *RefOp, path string) (string, map[int]string) {
	if c, ok := e.Cache["dispatched"]; ok {
		return c.(string), e.Cache["segterms"].(map[int]string)
	}
	underBase := "true"
	if B := pf.Em.Ref.NormBase(); B != "" {
		underBase = hasPrefixLit(path, B)
	}
	dconds := []string{underBase}
	segTerm := map[int]string{}
	pos := itoa(int64(len(pf.Em.Ref.NormBase()))) // absolute position in r.URL.Path
	plen := sx("slen", path)
	for k, s := range op.Segs {
		// the segment starts with '/' at pos
		dconds = append(dconds, sx("<", pos, plen), eq(sx("sat", path, pos), "47"))
		end := e.define(fmt.Sprintf("ref_end%d", k), "Int", sx("segat", path, pos))
		e.assume("true", segatIndexLemma(path, pos))
		if !s.IsVar {
			lit := s.Lit
			dconds = append(dconds, eq(sx("-", end, pos), itoa(int64(len(lit)+1))))
			for j := 0; j < len(lit); j++ {
				dconds = append(dconds, eq(sx("sat", path, sx("+", pos, itoa(int64(j+1)))), itoa(int64(lit[j]))))
			}
		} else {
			segTerm[k] = e.define(fmt.Sprintf("ref_seg%d", k), "Str", sx("ssub", path, sx("+", pos, "1"), end))
		}
		pos = end
	}
	dconds = append(dconds, eq(pos, plen))
	d := e.define("ref_dispatched", "Bool", and(dconds...))
	e.Cache["dispatched"] = d
	e.Cache["segterms"] = segTerm
	return d, segTerm
}

// segatIndexLemma: segat(s,i) in terms of strings.Index on the rest of the
// string (proved once per run from the axioms: obligation lemma#segat-index).
func segatIndexLemma(s, i string) string {
	t := sx("ssub", s, sx("+", i, "1"), sx("slen", s))
	return implies(and(sx("<=", "0", i), sx("<", i, sx("slen", s))),
		eq(sx("segat", s, i), ite(eq(sx("sidx", t, "47"), "(- 1)"), sx("slen", s), sx("+", i, "1", sx("sidx", t, "47")))))
}

// SegatLemmaScript: the proof obligation behind segatIndexLemma.
func SegatLemmaScript() string {
	return NewDecls().String() + `(declare-const s Str)
(declare-const i Int)
(assert (not ` + segatIndexLemma("s", "i") + `))
(check-sat)
`
}

func boolLit(b bool) string {
	if b {
		return "true"
	}
	return "false"
}

// timeLexer: date-time values: time.Parse with an RFC 3339 layout. The layout
// constant is read from the emitted call (hint) and must be one of the two
// RFC 3339 layouts of the standard library.
func (pf *ParamsFamily) timeLexer(e *FuncEnc, fn *ssa.Function) (lexer, bool) {
	layout := ""
	for _, b := range fn.Blocks {
		for _, in := range b.Instrs {
			if c, ok := in.(*ssa.Call); ok {
				if g := c.Call.StaticCallee(); g != nil && g.String() == "time.Parse" {
					if k, ok := c.Call.Args[0].(*ssa.Const); ok && k.Value != nil && k.Value.Kind() == constant.String {
						layout = constant.StringVal(k.Value)
					}
				}
			}
		}
	}
	if layout != "2006-01-02T15:04:05Z07:00" && layout != "2006-01-02T15:04:05.999999999Z07:00" {
		return lexer{}, false
	}
	timeSort := ""
	for _, p := range pf.Em.W.Pkgs {
		for _, imp := range p.Types.Imports() {
			if imp.Path() == "time" {
				if o := imp.Scope().Lookup("Time"); o != nil {
					timeSort = e.D.SortOf(o.Type())
				}
			}
		}
	}
	if timeSort == "" {
		return lexer{}, false
	}
	lay := layout
	return lexer{
		ok: func(e *FuncEnc, s string) string {
			return eq(sx("if_tag", libRes(e, "time.Parse", 1, []string{e.D.Lit(lay), s}, []string{"Str", "Str"}, "Iface")), "0")
		},
		val: func(e *FuncEnc, s string) string {
			return libRes(e, "time.Parse", 0, []string{e.D.Lit(lay), s}, []string{"Str", "Str"}, timeSort)
		},
		goT: "time.Time",
	}, true
}

// loopInvariants for array parameters: the loop over the supplied values has
// parsed every earlier element successfully into the result slice.
func (pf *ParamsFamily) loopInvariants(e *FuncEnc, fn *ssa.Function, op *RefOp, binds []paramBinding, ord int, env *cenv) []NamedFormula {
	// find the loop header and the slice it ranges over
	var header *ssa.BasicBlock
	for h, o := range e.loopOrd {
		if o == ord {
			header = h
		}
	}
	if header == nil {
		return nil
	}
	li := e.loops[header]
	// pattern: for i := range q { v, err := parse(q[i]); if err != nil {return}; out[i] = conv(v) }
	var idxPhi *ssa.Phi
	for _, in := range header.Instrs {
		if phi, ok := in.(*ssa.Phi); ok && e.D.SortOf(phi.Type()) == "Int" {
			idxPhi = phi
		}
	}
	if idxPhi == nil {
		return nil
	}
	var src, dst ssa.Value
	var parseCall *ssa.Call
	for _, b := range li.blocks() {
		for _, in := range b.Instrs {
			switch x := in.(type) {
			case *ssa.IndexAddr:
				if refs := x.Referrers(); refs != nil {
					for _, r := range *refs {
						switch r.(type) {
						case *ssa.UnOp:
							if src == nil {
								src = x.X
							}
						case *ssa.Store:
							dst = x.X
						}
					}
				}
			case *ssa.Call:
				if g := x.Call.StaticCallee(); g != nil && (strings.HasPrefix(g.String(), "strconv.Parse") || g.String() == "time.Parse") {
					parseCall = x
				}
			}
		}
	}
	if src == nil || dst == nil {
		return nil
	}
	i := env.vars[strings.TrimPrefix(idxPhi.Comment, "#")]
	if i.s == "" {
		for _, v := range env.vars {
			_ = v
		}
		return nil
	}
	srcS, dstS := e.v(src), e.v(dst)
	strT := types.Typ[types.String]
	strHeap := e.heapName(e.entry, e.D.heapKey(strT), e.D.heapSort(strT))
	elemT := dst.Type().Underlying().(*types.Slice).Elem()
	eh := constOf(e, "inv_heap", e.D.heapSort(elemT), e.heapName(env.st, e.D.heapKey(elemT), e.D.heapSort(elemT)))
	key := fmt.Sprintf("loop%d", ord)
	if e.loopConsts == nil {
		e.loopConsts = map[string][4]string{}
	}
	cs, ok := e.loopConsts[key]
	if !ok {
		cs = [4]string{constOf(e, "inv_sb", "Int", sx("sl_base", srcS)), constOf(e, "inv_so", "Int", sx("sl_off", srcS)), constOf(e, "inv_db", "Int", sx("sl_base", dstS)), constOf(e, "inv_do", "Int", sx("sl_off", dstS))}
		e.loopConsts[key] = cs
	}
	sb, so, db, do := cs[0], cs[1], cs[2], cs[3]
	srcAbs := func(k string) string { return sx("select", strHeap, sx("elem", sb, k)) }
	dstAbs := func(k string) string { return sx("select", eh, sx("elem", db, k)) }
	parsed := func(srcTerm string) (string, string) {
		if parseCall == nil {
			return "true", srcTerm
		}
		g := parseCall.Call.StaticCallee().String()
		var args, sorts []string
		for _, a := range parseCall.Call.Args {
			sorts = append(sorts, e.D.SortOf(a.Type()))
			if _, isConst := a.(*ssa.Const); isConst {
				args = append(args, e.v(a))
			} else {
				args = append(args, srcTerm)
			}
		}
		rt := parseCall.Call.Signature().Results()
		return eq(sx("if_tag", libRes(e, g, 1, args, sorts, "Iface")), "0"), libRes(e, g, 0, args, sorts, e.D.SortOf(rt.At(0).Type()))
	}
	// rangeindex loops: the phi is the index before increment (-1 initially)
	done := sx("+", i.s, "1")
	okS, _ := parsed(srcAbs("qk"))
	_, valD := parsed(srcAbs(sx("+", so, sx("-", "qk", do))))
	invOK := fmt.Sprintf("(forall ((qk Int)) (! (=> (and (<= %s qk) (< qk (+ %s %s))) %s) :pattern (%s)))", so, so, done, okS, srcAbs("qk"))
	invVal := fmt.Sprintf("(forall ((qk Int)) (! (=> (and (<= %s qk) (< qk (+ %s %s))) (= %s %s)) :pattern (%s)))", do, do, done, dstAbs("qk"), valD, dstAbs("qk"))
	inv := and(invOK, invVal)
	return []NamedFormula{
		{Name: "invariant#parsed-prefix", Props: []string{"C04"}, Formula: inv},
		{Name: "invariant#len", Props: []string{"C04", "C14"}, Formula: and(eq(sx("sl_len", dstS), sx("sl_len", srcS)), sx("<=", done, sx("sl_len", srcS)))},
	}
}

// namedParamAtReturn: the parameter (name, location) the error value returned
// at the current return site names syntactically: an ErrParseParam literal with
// constant In / Parameter fields.
func namedParamAtReturn(e *FuncEnc) (name, in string, ok bool) {
	if e.curRet == nil || len(e.curRet.Results) != 2 {
		return "", "", false
	}
	mi, isMI := e.curRet.Results[1].(*ssa.MakeInterface)
	if !isMI {
		return "", "", false
	}
	ld, isLoad := mi.X.(*ssa.UnOp)
	if !isLoad {
		return "", "", false
	}
	al, isAlloc := ld.X.(*ssa.Alloc)
	if !isAlloc || al.Referrers() == nil {
		return "", "", false
	}
	for _, r := range *al.Referrers() {
		fa, isFA := r.(*ssa.FieldAddr)
		if !isFA || fa.Referrers() == nil {
			continue
		}
		for _, rr := range *fa.Referrers() {
			st, isSt := rr.(*ssa.Store)
			if !isSt || st.Addr != fa {
				continue
			}
			sv, isC := constString(st.Val)
			if !isC {
				continue
			}
			switch fieldName(fa) {
			case "Parameter":
				name = sv
			case "In":
				in = sv
			}
		}
	}
	return name, in, name != "" && in != ""
}
