package vc

import (
	"bytes"
	"encoding/json"
	"fmt"
	"os"
	"os/exec"
	"path/filepath"
	"regexp"
	"sort"
	"strings"
	"sync"

	"golang.org/x/tools/go/ssa"
	"gopkg.in/yaml.v3"
)

// UnprovedList: obligations that do not discharge on the unchanged tree and
// are therefore NOT claimed (listed in evidence as left unchecked).
type UnprovedList struct {
	Names map[string]bool
	// Paths: the same obligations by kind and field path (the function and the
	// name of the local variable at the root dropped): moving code into a helper
	// or renaming a variable does not turn an unclaimed obligation into a new one.
	Paths map[string]bool
	// Funcs: the functions swept when the baseline was recorded. A function that
	// is not among them is a new helper: it has no contract, so what its
	// parameters point to is unknown to a modular check; a dereference in it whose
	// field path is the tail of a baseline path (the same access, now rooted at a
	// parameter) stays unclaimed instead of being reported.
	Funcs map[string]bool
	Cut   map[string]bool // paths whose description was cut at the depth limit
	// Ctx: for each unclaimed obligation, the validators (module functions with
	// an error result) that had run on every path before it when the baseline was
	// recorded (baseline/C15-context.json). An obligation stays unclaimed only
	// while those still run before it: the same dereference moved in front of the
	// call that used to reject the bad document is a new, claimed obligation.
	Ctx     map[string][]string
	PathCtx map[string][][]string
	PathFn  map[string][]string
	byFn    map[string][]unprovedEntry
	HasCtx  bool
}

func subsetOf(a, b []string) bool {
	have := map[string]bool{}
	for _, x := range b {
		have[x] = true
	}
	for _, x := range a {
		if !have[x] {
			return false
		}
	}
	return true
}

type unprovedEntry struct {
	fn, kind, tail, ptr string
	cut                 bool
	ctx                 []string
}

var reLastField = regexp.MustCompile(`(\.[A-Za-z_][A-Za-z0-9_]*(\(\))?|\.\([^()]*\))$`)

// splitObl: function, kind, root variable, path after the root, and the
// pointer path (the path of the value that is dereferenced: the path without
// its last step; qualified by the root when nothing else is left).
func splitObl(name string) (fn, kind, root, tail, ptr string, ok bool) {
	m := reOblName.FindStringSubmatch(name)
	if m == nil {
		return
	}
	fn, kind = m[1], m[2]
	detail := m[3]
	tail = detail
	if r := reLocalRoot.FindStringSubmatch(detail); r != nil {
		tail = r[1]
		root = detail[:len(detail)-len(tail)]
	}
	ptr = tail
	if kind == "nil" || kind == "nilinvoke" || kind == "nilcall" || kind == "nilmap" {
		ptr = reLastField.ReplaceAllString(tail, "")
	}
	if ptr == "" {
		ptr = "@" + root
	}
	return fn, kind, root, tail, ptr, true
}

// sameAccess: two descriptions (within one function) name a dereference of the
// same pointer: equal paths, equal pointer paths, or one a depth-limited cut of
// the other.
func sameAccess(a, b unprovedEntry) bool {
	if a.kind != b.kind {
		return false
	}
	if a.tail == b.tail || (a.ptr == b.ptr && !strings.HasPrefix(a.ptr, "@_")) {
		return true
	}
	if a.cut || b.cut {
		short, long := a.tail, b.tail
		if len(short) > len(long) {
			short, long = long, short
		}
		if strings.Count(short, ".") >= 2 && strings.HasSuffix(long, short) {
			return true
		}
		sp, lp := a.ptr, b.ptr
		if len(sp) > len(lp) {
			sp, lp = lp, sp
		}
		if strings.Count(sp, ".") >= 2 && strings.HasSuffix(lp, sp) {
			return true
		}
	}
	return false
}

func (u *UnprovedList) skip(fn, name string, params map[string]bool, ctx []string) bool {
	// (1) the obligation itself, while the validators that ran before it still do
	if u.Names[name] && (!u.HasCtx || subsetOf(u.Ctx[name], ctx)) {
		return true
	}
	f2, kind, root, tail, ptr, ok := splitObl(name)
	if !ok {
		return false
	}
	_ = f2
	me := unprovedEntry{fn: fn, kind: kind, tail: tail, ptr: ptr, cut: strings.HasPrefix(root, "_")}
	// (2) within the function: another dereference of a pointer that is already
	// unclaimed there (same path, same pointer, or a cut of it), under the same
	// validator rule
	for _, e := range u.byFn[fn] {
		if sameAccess(me, e) && (!u.HasCtx || subsetOf(e.ctx, ctx)) {
			return true
		}
	}
	// (3) a function that did not exist when the baseline was recorded
	if u.isNew(fn) {
		if tail == "" {
			return true
		}
		// rooted at a parameter of the new helper: what the parameter points to is
		// the caller's business; the helper is unfolded at its call sites (when it
		// is loop-free) and the dereference is checked there, in context
		if params[root] {
			return true
		}
		for q := range u.Paths {
			if strings.HasPrefix(q, kind+"/") && strings.HasSuffix(q, tail) {
				return true
			}
		}
	}
	return false
}

var reOblName = regexp.MustCompile(`^(.*)/(nil|nilinvoke|nilcall|nilmap|index|slice|typeassert)/(.*?)(#\d+)*$`)
var reLocalRoot = regexp.MustCompile(`^(?:_|[a-z][A-Za-z0-9_]*|t\d+)(?:#\d+)?((?:[.\[(].*)?)$`)

var reOblRoot = regexp.MustCompile(`^(?:_|[a-z][A-Za-z0-9_]*)`)

// isNew: no function of that name, and no other instance of the same generic
// function, was swept when the baseline was recorded.
func (u *UnprovedList) isNew(fn string) bool {
	return len(u.Funcs) > 0 && !u.Funcs[fn] && !u.Funcs[stripTypeArgs(fn)]
}


// unprovedPath: "generator.NewRouter/nil/sec.Scheme.Type#2" -> "nil/.Scheme.Type"; "" for other kinds.
func unprovedPath(name string) string {
	m := reOblName.FindStringSubmatch(name)
	if m == nil {
		return ""
	}
	detail := m[3]
	if r := reLocalRoot.FindStringSubmatch(detail); r != nil {
		detail = r[1]
	}
	return m[2] + "/" + detail
}

func LoadUnproved(path string) *UnprovedList {
	u := &UnprovedList{Names: map[string]bool{}, Paths: map[string]bool{}, Funcs: map[string]bool{}, Cut: map[string]bool{}, Ctx: map[string][]string{}, PathCtx: map[string][][]string{}, PathFn: map[string][]string{}, byFn: map[string][]unprovedEntry{}}
	if cd, err := os.ReadFile(strings.TrimSuffix(path, "-unproved.json") + "-context.json"); err == nil {
		if json.Unmarshal(cd, &u.Ctx) == nil && len(u.Ctx) > 0 {
			u.HasCtx = true
		}
	}
	if fd, err := os.ReadFile(strings.TrimSuffix(path, "-unproved.json") + "-functions.json"); err == nil {
		var fs []string
		if json.Unmarshal(fd, &fs) == nil {
			for _, f := range fs {
				u.Funcs[f] = true
				u.Funcs[stripTypeArgs(f)] = true
			}
		}
	}
	data, err := os.ReadFile(path)
	if err != nil {
		return u
	}
	var names []string
	if json.Unmarshal(data, &names) == nil {
		for _, n := range names {
			u.Names[n] = true
			if fn, kind, root, tail, ptr, ok := splitObl(n); ok {
				u.byFn[fn] = append(u.byFn[fn], unprovedEntry{fn: fn, kind: kind, tail: tail, ptr: ptr, cut: strings.HasPrefix(root, "_"), ctx: u.Ctx[n]})
			}
			if p := unprovedPath(n); p != "" {
				u.Paths[p] = true
				u.PathCtx[p] = append(u.PathCtx[p], u.Ctx[n])
				if m := reOblName.FindStringSubmatch(n); m != nil {
					u.PathFn[p] = append(u.PathFn[p], m[1])
				} else {
					u.PathFn[p] = append(u.PathFn[p], "")
				}
				if m := reOblName.FindStringSubmatch(n); m != nil && strings.HasPrefix(m[3], "_") {
					u.Cut[p] = true
				}
			}
		}
	}
	return u
}

// SweepOptions selects what a safety sweep verifies.
type SweepOptions struct {
	Prop       string
	Unproved   *UnprovedList
	Record     bool // baseline mode: record failures instead of reporting them
	SafetyProp string
	CtxOut     map[string][]string // record mode: validators before each unproved obligation
}

// sweepFunctions verifies the safety and thin-contract obligations of fns.
func (cr *CheckRun) sweepFunctions(w *World, fns []*ssa.Function, nameOf func(*ssa.Function) string, opt SweepOptions, replay func(f *Failure)) (unproved []string) {
	var mu sync.Mutex
	sem := make(chan struct{}, 14)
	var wg sync.WaitGroup
	skipped := 0
	for _, f := range fns {
		f := f
		wg.Add(1)
		sem <- struct{}{}
		go func() {
			defer wg.Done()
			defer func() { <-sem }()
			defer func() {
				if r := recover(); r != nil {
					cr.mu.Lock()
					cr.EngineErrors = append(cr.EngineErrors, fmt.Sprintf("%s: engine panic: %v", f.String(), r))
					cr.mu.Unlock()
				}
			}()
			e := &FuncEnc{W: w, Fn: f, Name: nameOf(f), D: NewDecls(), Contract: w.ContractFor(f)}
			e.PostEncode = func() { tagProps(e, opt.SafetyProp) }
			e.TrackValidators = true
			params := map[string]bool{}
			for _, p := range f.Params {
				params[p.Name()] = true
			}
			filter := func(o *Obligation) bool {
				has := false
				for _, p := range o.Props {
					if p == opt.Prop {
						has = true
					}
				}
				if !has {
					return false
				}
				if !opt.Record && opt.Unproved != nil && opt.Unproved.skip(e.Name, o.Name, params, o.Ctx) {
					mu.Lock()
					skipped++
					mu.Unlock()
					return false
				}
				return true
			}
			if opt.Record {
				e.Encode()
				var mine []*Obligation
				for _, o := range e.Obls {
					if filter(o) {
						mine = append(mine, o)
					}
				}
				all := e.Obls
				e.Obls = mine
				e.Verify(cr.Scratch, 5)
				e.Obls = all
				mu.Lock()
				for _, o := range mine {
					cr.Obligations++
					if o.Status == "proved" {
						cr.Discharged++
					} else {
						unproved = append(unproved, o.Name)
						if opt.CtxOut != nil {
							c := o.Ctx
							if c == nil {
								c = []string{}
							}
							opt.CtxOut[o.Name] = c
						}
					}
				}
				mu.Unlock()
				return
			}
			cr.VerifyFunc(e, "layer-G", filter, replay)
		}()
	}
	wg.Wait()
	cr.Extra["listed_unproved_not_claimed"] = skipped
	sort.Strings(unproved)
	return unproved
}

func repoFnName(f *ssa.Function) string {
	s := f.String()
	s = strings.ReplaceAll(s, repoPkg+"/", "")
	s = strings.ReplaceAll(s, repoPkg, "goag")
	return s
}

var firstInstance = map[*ssa.Function]string{}

// CheckGeneratorSafety: C15 sweep over the generator's packages.
func (cr *CheckRun) CheckGeneratorSafety(record bool) {
	rw, err := LoadRepoWorld(cr.Repo)
	if err != nil {
		cr.EngineErrors = append(cr.EngineErrors, "load repo: "+err.Error())
		return
	}
	w := rw.W
	listPath := filepath.Join(cr.VerifDir, "baseline", "C15-unproved.json")
	opt := SweepOptions{Prop: "C15", Unproved: LoadUnproved(listPath), Record: record, SafetyProp: "C15"}
	var fns []*ssa.Function
	seenOrigin := map[*ssa.Function]bool{}
	for _, f := range w.Functions() {
		if f.Pkg != nil && strings.HasSuffix(f.Pkg.Pkg.Path(), "_test") {
			continue
		}
		// one instantiation per generic function (the first in name order)
		o := f
		for o.Parent() != nil {
			o = o.Parent()
		}
		if g := o.Origin(); g != nil {
			key := g
			if f != o {
				// closures inside generic instances: keyed by (origin, closure name)
				if seenOrigin[g] && !strings.HasPrefix(f.String(), firstInstance[g]) {
					continue
				}
			} else {
				if seenOrigin[key] {
					continue
				}
				seenOrigin[key] = true
				firstInstance[g] = f.String()
			}
		}
		fns = append(fns, f)
	}
	var binOnce sync.Once
	var bin string
	var crashes []crashReport
	replay := func(f *Failure) {
		binOnce.Do(func() {
			bin, _ = BuildGoag(cr.Repo, cr.Scratch)
			if bin != "" {
				crashes = mutationCampaign(bin, cr)
			}
		})
		fn := regexp.MustCompile(`\[[^\[\]]*\]`).ReplaceAllString(f.Obl.Func, "")
		fn = regexp.MustCompile(`\[[^\[\]]*\]`).ReplaceAllString(fn, "")
		short := fn[strings.LastIndex(fn, ".")+1:]
		for _, c := range crashes {
			if strings.Contains(c.Trace, short+"(") || strings.Contains(c.Trace, short+"[") {
				f.Replay = &ReplayResult{Reproduced: true, Input: c.Mutation, Expected: "error or success, exit status 0/1 without panic", Observed: truncate(c.Trace, 600), Cmd: "goag on a structurally mutated corpus spec"}
				return
			}
		}
		f.Replay = &ReplayResult{Reproduced: false, Input: fmt.Sprintf("%d structural mutations of corpus specs", mutationCount), Observed: fmt.Sprintf("%d crashes, none in %s", len(crashes), short), Cmd: "goag on structurally mutated corpus specs"}
	}
	if !record {
		// helpers that did not exist when the baseline was recorded are unfolded
		// at their call sites (loop-free ones): their dereferences are checked in
		// the caller's context and named after the caller's argument
		w.InlineNamed = func(f *ssa.Function) bool { return opt.Unproved.isNew(repoFnName(f)) }
	}
	if record {
		opt.CtxOut = map[string][]string{}
	}
	unproved := cr.sweepFunctions(w, fns, repoFnName, opt, replay)
		cr.Assumed["machine integers treated as mathematical (overflow obligations off for this sweep)"] = true
	cr.Assumed[fmt.Sprintf("%d safety obligations that do not discharge on the unchanged tree are listed in baseline/C15-unproved.json and are not claimed; they are matched by name or by kind and field path (%d paths), so the same dereference moved into a helper stays unclaimed", len(opt.Unproved.Names), len(opt.Unproved.Paths))] = true
	if record {
		_ = os.MkdirAll(filepath.Dir(listPath), 0o755)
		data, _ := json.MarshalIndent(unproved, "", " ")
		_ = os.WriteFile(listPath, data, 0o644)
		fmt.Printf("recorded %d unproved obligations in %s\n", len(unproved), listPath)
		var names []string
		for _, f := range fns {
			names = append(names, repoFnName(f))
		}
		sort.Strings(names)
		data, _ = json.MarshalIndent(names, "", " ")
		_ = os.WriteFile(strings.TrimSuffix(listPath, "-unproved.json")+"-functions.json", data, 0o644)
		data, _ = json.MarshalIndent(opt.CtxOut, "", " ")
		_ = os.WriteFile(strings.TrimSuffix(listPath, "-unproved.json")+"-context.json", data, 0o644)
	}
	// exit status: main must reach log.Fatalf whenever generation returned an error
	cr.checkMainExit(w)
	if cr.Tier == "thorough" {
		// bounded stand-in for the unclaimed (baseline) obligations: structural
		// mutation campaign through the real binary; never counted as proved
		binOnce.Do(func() {
			bin, _ = BuildGoag(cr.Repo, cr.Scratch)
			if bin != "" {
				crashes = mutationCampaign(bin, cr)
			}
		})
		re := regexp.MustCompile(`(?m)^(github.com/vkd/goag[^\s(]*)\(`)
		seen := map[string]bool{}
		for _, c := range crashes {
			key := "?"
			if m := re.FindStringSubmatch(c.Trace); m != nil {
				key = m[1]
			}
			if seen[key] {
				continue
			}
			seen[key] = true
			o := &Obligation{Name: "campaign/crash/" + key, Func: key, Class: "bounded", Props: []string{"C15"}, Status: "failed", Formula: "goag exits 0/1 without panic on a structurally mutated corpus spec", Model: truncate(c.Trace, 600)}
			f := &Failure{Prop: "C15", Obl: o, Entry: "campaign", Replay: &ReplayResult{Reproduced: true, Input: c.Mutation, Expected: "error or success, exit status 0/1 without panic", Observed: truncate(c.Trace, 600), Cmd: "goag on a structurally mutated corpus spec"}}
			cr.triageBounded(f)
		}
		cr.Bounded = append(cr.Bounded, map[string]any{"what": "structural mutation campaign through the real binary (bounded, not proved)", "mutations": mutationCount, "crashes": len(crashes), "distinct_crash_sites": len(seen)})
	}
}

func (cr *CheckRun) checkMainExit(w *World) {
	main := w.funcByName(repoPkg + "/cmd/goag.main")
	cr.Obligations++
	o := &Obligation{Name: "cmd/goag.main/exit-status", Func: "cmd/goag.main", Class: "control-flow", Props: []string{"C15"}}
	ok := false
	why := "main not found"
	if main != nil {
		why = "no `if err != nil { log.Fatalf }` on the generator's error"
		for _, b := range main.Blocks {
			iff, isIf := b.Instrs[len(b.Instrs)-1].(*ssa.If)
			if !isIf {
				continue
			}
			bin, isBin := iff.Cond.(*ssa.BinOp)
			if !isBin || bin.Op.String() != "!=" || !isErrorType(bin.X.Type()) {
				continue
			}
			// the error must come from GenerateDir / GenerateFile
			fromGen := false
			var srcs []ssa.Value
			if phi, isPhi := bin.X.(*ssa.Phi); isPhi {
				srcs = phi.Edges
			} else {
				srcs = []ssa.Value{bin.X}
			}
			n := 0
			for _, s := range srcs {
				if c, isCall := s.(*ssa.Call); isCall {
					if g := c.Call.StaticCallee(); g != nil && strings.HasPrefix(g.Name(), "Generate") {
						n++
					}
				}
			}
			fromGen = n == len(srcs) && n > 0
			fatal := false
			for _, in := range b.Succs[0].Instrs {
				if c, isCall := in.(*ssa.Call); isCall {
					if g := c.Call.StaticCallee(); g != nil && (g.String() == "log.Fatalf" || g.String() == "log.Fatal" || g.String() == "os.Exit") {
						fatal = true
					}
				}
			}
			if fromGen && fatal {
				ok = true
			}
		}
	}
	if ok {
		cr.Discharged++
		cr.ProvedNames = append(cr.ProvedNames, o.Name)
		return
	}
	o.Status, o.Formula = "failed", why
	cr.Failures = append(cr.Failures, &Failure{Prop: "C15", Obl: o, Entry: "layer-G", Verdict: "violation"})
}

// ---------------------------------------------------------------- mutation campaign (replay search)

type crashReport struct {
	Mutation string
	Trace    string
}

var mutationCount int

// mutationCampaign: structural mutations of a few corpus specs through the
// real binary; returns the runs that panicked.
func mutationCampaign(bin string, cr *CheckRun) []crashReport {
	var bases []string
	for _, n := range []string{"tests/json", "tests/components", "tests/response_header", "tests/security_jwt_apikey_query", "tests/router", "examples/petstore", "tests/schema_one_of", "tests/schema_array"} {
		bases = append(bases, filepath.Join(cr.Repo, n, "openapi.yaml"))
	}
	if mf, _ := filepath.Glob(filepath.Join(cr.VerifDir, "corpus", "mapfat", "mapfat.yaml")); len(mf) > 0 {
		bases = append(bases, mf...)
	}
	type job struct {
		name string
		data []byte
	}
	var jobs []job
	for _, b := range bases {
		raw, err := os.ReadFile(b)
		if err != nil {
			continue
		}
		var root yaml.Node
		if yaml.Unmarshal(raw, &root) != nil {
			continue
		}
		muts := enumerateMutations(&root)
		for i, m := range muts {
			var doc yaml.Node
			_ = yaml.Unmarshal(raw, &doc)
			if !applyMutation(&doc, m) {
				continue
			}
			out, err := yaml.Marshal(&doc)
			if err != nil {
				continue
			}
			jobs = append(jobs, job{fmt.Sprintf("%s: %s", strings.TrimPrefix(b, cr.Repo+"/"), m.describe()), out})
			_ = i
		}
	}
	mutationCount = len(jobs)
	var crashes []crashReport
	var mu sync.Mutex
	sem := make(chan struct{}, 16)
	var wg sync.WaitGroup
	root, _ := os.MkdirTemp(cr.Scratch, "mut")
	for i, j := range jobs {
		i, j := i, j
		wg.Add(1)
		sem <- struct{}{}
		go func() {
			defer wg.Done()
			defer func() { <-sem }()
			dir := filepath.Join(root, fmt.Sprint(i))
			_ = os.MkdirAll(dir, 0o755)
			spec := filepath.Join(dir, "openapi.yaml")
			_ = os.WriteFile(spec, j.data, 0o644)
			cmd := exec.Command(bin, "-file", spec, "-out", dir, "-package", "emitted", "-client")
			cmd.Dir = dir
			var out bytes.Buffer
			cmd.Stdout, cmd.Stderr = &out, &out
			_ = cmd.Run()
			if (strings.Contains(out.String(), "panic:") || strings.Contains(out.String(), "goroutine 1 [running]") || strings.Contains(out.String(), "stack overflow")) && !crashInDependency(out.String()) {
				mu.Lock()
				crashes = append(crashes, crashReport{Mutation: j.name, Trace: out.String()})
				mu.Unlock()
			}
			os.RemoveAll(dir)
		}()
	}
	wg.Wait()
	os.RemoveAll(root)
	sort.Slice(crashes, func(a, b int) bool { return crashes[a].Mutation < crashes[b].Mutation })
	return crashes
}

type mutation struct {
	path []string // keys / indices from the document root
	kind string   // delete | null | int | bool | list | map | rename-content
}

func (m mutation) describe() string { return m.kind + " " + strings.Join(m.path, "/") }

func enumerateMutations(root *yaml.Node) []mutation {
	var out []mutation
	var walk func(n *yaml.Node, path []string, depth int)
	walk = func(n *yaml.Node, path []string, depth int) {
		if depth > 14 {
			return
		}
		switch n.Kind {
		case yaml.DocumentNode:
			for _, c := range n.Content {
				walk(c, path, depth)
			}
		case yaml.MappingNode:
			for i := 0; i+1 < len(n.Content); i += 2 {
				k := n.Content[i].Value
				p := append(append([]string{}, path...), k)
				out = append(out, mutation{p, "delete"}, mutation{p, "null"})
				v := n.Content[i+1]
				if v.Kind == yaml.ScalarNode {
					out = append(out, mutation{p, "int"}, mutation{p, "list"}, mutation{p, "map"})
				}
				if k == "schema" {
					out = append(out, mutation{p, "rename-content"})
				}
				walk(v, p, depth+1)
			}
		case yaml.SequenceNode:
			for i, c := range n.Content {
				p := append(append([]string{}, path...), fmt.Sprintf("[%d]", i))
				walk(c, p, depth+1)
			}
		}
	}
	walk(root, nil, 0)
	return out
}

func applyMutation(root *yaml.Node, m mutation) bool {
	n := root
	if n.Kind == yaml.DocumentNode && len(n.Content) > 0 {
		n = n.Content[0]
	}
	for pi, key := range m.path {
		last := pi == len(m.path)-1
		switch n.Kind {
		case yaml.MappingNode:
			found := false
			for i := 0; i+1 < len(n.Content); i += 2 {
				if n.Content[i].Value != key {
					continue
				}
				found = true
				if !last {
					n = n.Content[i+1]
					break
				}
				switch m.kind {
				case "delete":
					n.Content = append(n.Content[:i], n.Content[i+2:]...)
				case "null":
					n.Content[i+1] = &yaml.Node{Kind: yaml.ScalarNode, Tag: "!!null", Value: "null"}
				case "int":
					n.Content[i+1] = &yaml.Node{Kind: yaml.ScalarNode, Tag: "!!int", Value: "1"}
				case "bool":
					n.Content[i+1] = &yaml.Node{Kind: yaml.ScalarNode, Tag: "!!bool", Value: "true"}
				case "list":
					n.Content[i+1] = &yaml.Node{Kind: yaml.SequenceNode, Tag: "!!seq"}
				case "map":
					n.Content[i+1] = &yaml.Node{Kind: yaml.MappingNode, Tag: "!!map"}
				case "rename-content":
					// `schema: S` -> `content: {application/json: {schema: S}}`
					s := n.Content[i+1]
					n.Content[i].Value = "content"
					n.Content[i+1] = &yaml.Node{Kind: yaml.MappingNode, Tag: "!!map", Content: []*yaml.Node{
						{Kind: yaml.ScalarNode, Tag: "!!str", Value: "application/json"},
						{Kind: yaml.MappingNode, Tag: "!!map", Content: []*yaml.Node{{Kind: yaml.ScalarNode, Tag: "!!str", Value: "schema"}, s}},
					}}
				}
				return true
			}
			if !found {
				return false
			}
		case yaml.SequenceNode:
			var idx int
			if _, err := fmt.Sscanf(key, "[%d]", &idx); err != nil || idx >= len(n.Content) {
				return false
			}
			n = n.Content[idx]
		default:
			return false
		}
	}
	return false
}

var _ = regexp.MustCompile

// PrintCrashes: development aid.
func PrintCrashes(bin string, cr *CheckRun) {
	cs := mutationCampaign(bin, cr)
	fmt.Printf("%d mutations, %d crashes\n", mutationCount, len(cs))
	seen := map[string]int{}
	first := map[string]string{}
	re := regexp.MustCompile(`(?m)^(github.com/vkd/goag[^\s(]*)\(`)
	for _, c := range cs {
		key := "?"
		lines := strings.Split(c.Trace, "\n")
		head := ""
		for _, l := range lines {
			if strings.HasPrefix(l, "panic:") || strings.Contains(l, "stack overflow") {
				head = l
				break
			}
		}
		if m := re.FindStringSubmatch(c.Trace); m != nil {
			key = m[1]
		}
		key = key + " :: " + head
		seen[key]++
		if first[key] == "" {
			first[key] = c.Mutation
		}
	}
	var keys []string
	for k := range seen {
		keys = append(keys, k)
	}
	sort.Strings(keys)
	for _, k := range keys {
		fmt.Printf("%4d %s\n       e.g. %s\n", seen[k], k, first[k])
	}
}

// crashInDependency: the innermost frame is not goag code (e.g. the loader
// itself panics: the document was not "accepted").
func crashInDependency(trace string) bool {
	i := strings.Index(trace, "[running]:")
	if i < 0 {
		return false
	}
	rest := strings.TrimSpace(trace[i+len("[running]:"):])
	first := strings.SplitN(rest, "\n", 2)[0]
	if strings.HasPrefix(first, "panic(") || strings.HasPrefix(first, "runtime.") {
		// skip runtime frames
		for _, l := range strings.Split(rest, "\n") {
			if strings.HasPrefix(l, "\t") || strings.HasPrefix(l, "panic(") || strings.HasPrefix(l, "runtime.") {
				continue
			}
			first = l
			break
		}
	}
	return !strings.HasPrefix(first, "github.com/vkd/goag") && !strings.HasPrefix(first, "main.")
}
