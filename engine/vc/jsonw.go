package vc

import (
	"fmt"
	"go/constant"
	"go/token"
	"go/types"
	"strings"
	"unicode/utf8"

	"golang.org/x/tools/go/ssa"
)

// Ghost JSON writer (DESIGN §0.7): every io.Writer the emitted codecs write to
// has a view over the event trace
//
//	jst(t, w)   protocol state of the text written to w so far
//	jobj(t, w)  members written so far: name -> optional value term
//	jdup(t, w)  some member name was written twice
//	jkey(t, w)  the name awaiting its value (state K)
//	jalen(t, w), jaidx(t, w)  number of items written so far and the items by position (array documents)
//
// The events are produced by the library models of Write / Encode below. What
// a Write call writes is classified from the way the emitted code builds the
// string (a concatenation of literals, the comma variable, a member name), so
// the classification is exact; text of any other shape moves the writer to BAD.
//
// States: 0 nothing written; bare member list: 1 key pending, 2 after a value,
// 3 after a comma; object: 10 after "{", 11, 12, 13 likewise, 14 closed; array:
// 20 after "[", 22 after an item, 23 after a comma, 24 closed; 99 BAD.
// "Closed" (14/24) means: the text is one syntactically valid JSON value,
// provided Encode writes one complete value (assumed contract of encoding/json).

const (
	jkLBrace int64 = iota + 1
	jkRBrace
	jkLBrack
	jkRBrack
	jkKey     // c ++ quoted(n) ++ ":"
	jkKeyNull // c ++ quoted(n) ++ ":null"
	jkRaw     // c alone (the comma variable)
	jkNull    // null
)

var jsonViewNames = []string{"jst", "jobj", "jdup", "jkey", "jalen", "jaidx"}

const jsonPrelude = `(declare-sort JVal 0)
(declare-datatypes ((JOpt 0)) (((j_none) (j_some (j_val JVal)))))
(declare-fun jv_null () JVal)
(declare-fun jv_enc (Iface) JVal)
(assert (forall ((v Iface)) (! (not (= (jv_enc v) jv_null)) :pattern ((jv_enc v)))))
(assert (forall ((v Iface) (u Iface)) (! (=> (= (jv_enc v) (jv_enc u)) (= v u)) :pattern ((jv_enc v) (jv_enc u)))))
(declare-fun jst (Trace Iface) Int)
(declare-fun jobj (Trace Iface) (Array Str JOpt))
(declare-fun jdup (Trace Iface) Bool)
(declare-fun jkey (Trace Iface) Str)
(declare-fun jalen (Trace Iface) Int)
(declare-fun jaidx (Trace Iface) (Array Int JOpt))
(declare-const j_noitems (Array Int JOpt))
(assert (forall ((i Int)) (! (= (select j_noitems i) j_none) :pattern ((select j_noitems i)))))
(define-fun j_start ((s Int) (c Str)) Bool (or (and (or (= s 0) (= s 10) (= s 3) (= s 13)) (= c str_empty)) (and (or (= s 2) (= s 12)) (= c lit_comma))))
(define-fun j_base ((s Int)) Int (ite (< s 10) 0 10))
(declare-const j_empty (Array Str JOpt))
(assert (forall ((k Str)) (! (= (select j_empty k) j_none) :pattern ((select j_empty k)))))`

func (e *FuncEnc) needJSON() {
	e.D.needSeq()
	// the comma literal under a fixed name
	e.D.Lit("")
	c := e.D.Lit(",")
	e.D.add("lit:lit_comma", "(define-fun lit_comma () Str "+c+")")
	e.D.add("json-prelude", jsonPrelude)
}

// jsonNeutral: an event that is not a JSON writer event leaves all views alone.
func (e *FuncEnc) jsonNeutral(fn string, bs []string, ev string) {
	if e.W == nil || !e.W.JSONViews {
		return
	}
	e.needJSON()
	q := strings.Join(bs, " ")
	for _, view := range jsonViewNames {
		e.D.Axiom("json:"+view+":"+fn, fmt.Sprintf("(forall ((t Trace) (w Iface) %s) (! (= (%s (tr_cons t %s) w) (%s t w)) :pattern ((%s (tr_cons t %s) w))))", q, view, ev, view, view, ev))
	}
}

// jsonEvents declares the three writer events with their view axioms.
func (e *FuncEnc) jsonEvents() {
	e.needJSON()
	if e.Cache["jsonEvents"] != nil {
		return
	}
	e.Cache["jsonEvents"] = true
	tok := e.declareEvent("jw_tok", []string{"Iface", "Int", "Str", "Str", "Bool"})
	enc := e.declareEvent("jw_enc", []string{"Iface", "Iface"})
	spl := e.declareEvent("jw_splice", []string{"Iface", "Iface"})
	bad := e.declareEvent("jw_bad", []string{"Iface"})
	ax := func(key, vars, ev, view, sort, val string) {
		// view(tr_cons(t, ev), x) = ite(x == w, val, view(t, x))
		e.D.Axiom("json:"+view+":"+key, fmt.Sprintf("(forall ((t Trace) (x Iface) %s) (! (= (%s (tr_cons t %s) x) (ite (= x w) %s (%s t x))) :pattern ((%s (tr_cons t %s) x))))", vars, view, ev, val, view, view, ev))
	}
	// --- token
	{
		vars := "(w Iface) (k Int) (c Str) (n Str) (safe Bool)"
		ev := "(" + tok + " w k c n safe)"
		s := "(jst t w)"
		st := fmt.Sprintf(`(ite (= k %d) (ite (= %s 0) 10 99)
 (ite (= k %d) (ite (or (= %s 10) (= %s 12)) 14 99)
 (ite (= k %d) (ite (= %s 0) 20 99)
 (ite (= k %d) (ite (or (= %s 20) (= %s 22)) 24 99)
 (ite (= k %d) (ite (and (j_start %s c) safe) (+ (j_base %s) 1) 99)
 (ite (= k %d) (ite (and (j_start %s c) safe) (+ (j_base %s) 2) 99)
 (ite (= k %d) (ite (and (= c lit_comma) (or (= %s 2) (= %s 12) (= %s 22))) (+ %s 1) 99)
 (ite (= k %d) (ite (or (= %s 20) (= %s 23)) 22 99)
 99))))))))`, jkLBrace, s, jkRBrace, s, s, jkLBrack, s, jkRBrack, s, s, jkKey, s, s, jkKeyNull, s, s, jkRaw, s, s, s, s, jkNull, s, s)
		ax("tok", vars, ev, "jst", "Int", st)
		ax("tok", vars, ev, "jobj", "", fmt.Sprintf("(ite (= k %d) (store (jobj t w) n (j_some jv_null)) (jobj t w))", jkKeyNull))
		ax("tok", vars, ev, "jdup", "", fmt.Sprintf("(or (jdup t w) (and (or (= k %d) (= k %d)) ((_ is j_some) (select (jobj t w) n))))", jkKeyNull, jkKey))
		ax("tok", vars, ev, "jkey", "", fmt.Sprintf("(ite (= k %d) n (jkey t w))", jkKey))
		arrSt := "(or (= (jst t w) 20) (= (jst t w) 23))"
		ax("tok", vars, ev, "jalen", "", fmt.Sprintf("(ite (and (= k %d) %s) (+ (jalen t w) 1) (jalen t w))", jkNull, arrSt))
		ax("tok", vars, ev, "jaidx", "", fmt.Sprintf("(ite (and (= k %d) %s) (store (jaidx t w) (jalen t w) (j_some jv_null)) (jaidx t w))", jkNull, arrSt))
	}
	// --- encode one value
	{
		vars := "(w Iface) (v Iface)"
		ev := "(" + enc + " w v)"
		s := "(jst t w)"
		ax("enc", vars, ev, "jst", "", fmt.Sprintf("(ite (or (= %s 1) (= %s 11)) (+ %s 1) (ite (or (= %s 20) (= %s 23)) 22 99))", s, s, s, s, s))
		ax("enc", vars, ev, "jobj", "", fmt.Sprintf("(ite (or (= %s 1) (= %s 11)) (store (jobj t w) (jkey t w) (j_some (jv_enc v))) (jobj t w))", s, s))
		ax("enc", vars, ev, "jdup", "", "(jdup t w)")
		ax("enc", vars, ev, "jkey", "", "(jkey t w)")
		ax("enc", vars, ev, "jalen", "", fmt.Sprintf("(ite (or (= %s 20) (= %s 23)) (+ (jalen t w) 1) (jalen t w))", s, s))
		ax("enc", vars, ev, "jaidx", "", fmt.Sprintf("(ite (or (= %s 20) (= %s 23)) (store (jaidx t w) (jalen t w) (j_some (jv_enc v))) (jaidx t w))", s, s))
	}
	// --- splice the complete bare member list of another writer
	{
		vars := "(w Iface) (u Iface)"
		ev := "(" + spl + " w u)"
		s := "(jst t w)"
		ok := fmt.Sprintf("(and (= (jst t u) 2) (not (= u w)) (or (= %s 0) (= %s 10) (= %s 3) (= %s 13)))", s, s, s, s)
		ax("spl", vars, ev, "jst", "", fmt.Sprintf("(ite %s (+ (j_base %s) 2) 99)", ok, s))
		e.D.Axiom("json:jobj:spl", fmt.Sprintf("(forall ((t Trace) (x Iface) (k Str) %s) (! (= (select (jobj (tr_cons t %s) x) k) (ite (and (= x w) ((_ is j_some) (select (jobj t u) k))) (select (jobj t u) k) (select (jobj t x) k))) :pattern ((select (jobj (tr_cons t %s) x) k))))", vars, ev, ev))
		e.D.UF("j_overlap", []string{"(Array Str JOpt)", "(Array Str JOpt)"}, "Bool")
		e.D.UF("j_ow", []string{"(Array Str JOpt)", "(Array Str JOpt)"}, "Str")
		e.D.Axiom("json:overlap-witness", "(forall ((a (Array Str JOpt)) (b (Array Str JOpt))) (! (=> (j_overlap a b) (and ((_ is j_some) (select a (j_ow a b))) ((_ is j_some) (select b (j_ow a b))))) :pattern ((j_overlap a b))))")
		ax("spl", vars, ev, "jdup", "", "(or (jdup t w) (jdup t u) (j_overlap (jobj t w) (jobj t u)))")
		ax("spl", vars, ev, "jkey", "", "(jkey t w)")
		ax("spl", vars, ev, "jalen", "", "(jalen t w)")
		ax("spl", vars, ev, "jaidx", "", "(jaidx t w)")
	}
	// --- failed / short / unclassified write
	{
		vars := "(w Iface)"
		ev := "(" + bad + " w)"
		ax("bad", vars, ev, "jst", "", "99")
		ax("bad", vars, ev, "jobj", "", "(jobj t w)")
		ax("bad", vars, ev, "jdup", "", "(jdup t w)")
		ax("bad", vars, ev, "jkey", "", "(jkey t w)")
		ax("bad", vars, ev, "jalen", "", "(jalen t w)")
		ax("bad", vars, ev, "jaidx", "", "(jaidx t w)")
	}
}


// ---------------------------------------------------------------- classification

type jatom struct {
	lit   string
	isLit bool
	val   ssa.Value
}

// origin resolves a parameter of an unfolded closure to the actual argument.
func (e *FuncEnc) origin(v ssa.Value) ssa.Value {
	for i := 0; i < 8; i++ {
		p, ok := v.(*ssa.Parameter)
		if !ok {
			return v
		}
		found := false
		for k := len(e.inlineStack) - 1; k >= 0; k-- {
			fr := e.inlineStack[k]
			if fr.fn == p.Parent() {
				for j, q := range fr.fn.Params {
					if q == p && j < len(fr.argVals) {
						v = fr.argVals[j]
						found = true
					}
				}
				break
			}
		}
		if !found {
			return v
		}
	}
	return v
}

func (e *FuncEnc) flattenConcat(v ssa.Value, out *[]jatom) {
	v = e.origin(v)
	switch x := v.(type) {
	case *ssa.BinOp:
		if x.Op == token.ADD {
			e.flattenConcat(x.X, out)
			e.flattenConcat(x.Y, out)
			return
		}
	case *ssa.Const:
		if x.Value != nil && x.Value.Kind() == constant.String {
			s := constant.StringVal(x.Value)
			*out = append(*out, jatom{lit: s, isLit: true, val: v})
			return
		}
	}
	*out = append(*out, jatom{val: v})
}

// jsonSafeKey: the text between the quotes of a member name is a JSON string
// body as it stands.
func jsonSafeKey(s string) bool {
	if !utf8.ValidString(s) {
		return false
	}
	for _, r := range s {
		if r < 0x20 || r == '"' || r == '\\' {
			return false
		}
	}
	return true
}

type jchunk struct {
	kind   int64
	c, n   string // SMT terms
	safe   string
	splice string // writer term, kind == 0 && splice != ""
	ok     bool
}

// valTerm: the SMT term of a (possibly closure-parameter) value.
func (e *FuncEnc) valTerm(v ssa.Value) string { return e.v(v) }

// classifyChunk: what the text built as `v` is, as a token of the protocol.
// v is the string (or []byte(string)) operand of a Write.
func (e *FuncEnc) classifyChunk(v ssa.Value) jchunk {
	v = e.origin(v)
	if cv, ok := v.(*ssa.Convert); ok {
		v = e.origin(cv.X)
	}
	var flat []jatom
	e.flattenConcat(v, &flat)
	// adjacent literals are one piece of text however the code spells them
	// (`:` + `null`, a prefix kept in a local)
	var atoms []jatom
	for _, a := range flat {
		if a.isLit && a.lit == "" && len(flat) > 1 {
			continue
		}
		if n := len(atoms); n > 0 && a.isLit && atoms[n-1].isLit {
			atoms[n-1].lit += a.lit
			continue
		}
		atoms = append(atoms, a)
	}
	lit := func(i int) (string, bool) {
		if i < len(atoms) && atoms[i].isLit {
			return atoms[i].lit, true
		}
		return "", false
	}
	empty := e.D.Lit("")
	switch len(atoms) {
	case 1:
		if s, ok := lit(0); ok {
			switch s {
			case "{":
				return jchunk{kind: jkLBrace, c: empty, n: empty, safe: "true", ok: true}
			case "}":
				return jchunk{kind: jkRBrace, c: empty, n: empty, safe: "true", ok: true}
			case "[":
				return jchunk{kind: jkLBrack, c: empty, n: empty, safe: "true", ok: true}
			case "]":
				return jchunk{kind: jkRBrack, c: empty, n: empty, safe: "true", ok: true}
			case "null":
				return jchunk{kind: jkNull, c: empty, n: empty, safe: "true", ok: true}
			case ",":
				return jchunk{kind: jkRaw, c: e.D.Lit(","), n: empty, safe: "true", ok: true}
			}
			return jchunk{}
		}
		// text of another buffer
		if call, ok := atoms[0].val.(*ssa.Call); ok {
			if f := call.Call.StaticCallee(); f != nil && f.String() == "(*bytes.Buffer).String" {
				return jchunk{splice: e.ifaceOfPtr(call.Call.Args[0]), ok: true}
			}
		}
		// a string variable alone: the comma
		if e.D.SortOf(atoms[0].val.Type()) == "Str" {
			return jchunk{kind: jkRaw, c: e.valTerm(atoms[0].val), n: empty, safe: "true", ok: true}
		}
	case 3, 4:
		// [c] "\"" n "\":" | "\":null"      (c may be missing when it is the literal "")
		i := 0
		c := empty
		if !atoms[0].isLit {
			c = e.valTerm(atoms[0].val)
			i = 1
		}
		q, ok1 := lit(i)
		tail, ok2 := lit(i + 2)
		if !ok1 || !ok2 || i+3 != len(atoms) {
			break
		}
		if q == `,"` && i == 0 {
			c, q = e.D.Lit(","), `"`
		}
		if q != `"` {
			break
		}
		nv := e.origin(atoms[i+1].val)
		n := e.valTerm(atoms[i+1].val)
		safe := sx(e.D.UF("safekey", []string{"Str"}, "Bool"), n)
		if cst, ok := nv.(*ssa.Const); ok && cst.Value != nil && cst.Value.Kind() == constant.String {
			safe = "false"
			if jsonSafeKey(constant.StringVal(cst.Value)) {
				safe = "true"
			}
		}
		switch tail {
		case `":`:
			return jchunk{kind: jkKey, c: c, n: n, safe: safe, ok: true}
		case `":null`:
			return jchunk{kind: jkKeyNull, c: c, n: n, safe: safe, ok: true}
		}
	}
	// [c] string(json.Marshal(name)) ":" | ":null": an escaped member name
	if len(atoms) == 3 && !atoms[0].isLit && !atoms[1].isLit && atoms[2].isLit {
		if name, ok := e.jsonQuotedName(atoms[1].val); ok {
			switch atoms[2].lit {
			case ":":
				return jchunk{kind: jkKey, c: e.valTerm(atoms[0].val), n: name, safe: "true", ok: true}
			case ":null":
				return jchunk{kind: jkKeyNull, c: e.valTerm(atoms[0].val), n: name, safe: "true", ok: true}
			}
		}
	}
	return jchunk{}
}

// jsonQuotedName: v is string(bs) with bs, _ := json.Marshal(name), name a
// string: the JSON string literal of name. Returns the term of name.
func (e *FuncEnc) jsonQuotedName(v ssa.Value) (string, bool) {
	v = e.origin(v)
	cv, ok := v.(*ssa.Convert)
	if !ok {
		return "", false
	}
	ex, ok := e.origin(cv.X).(*ssa.Extract)
	if !ok || ex.Index != 0 {
		return "", false
	}
	call, ok := ex.Tuple.(*ssa.Call)
	if !ok {
		return "", false
	}
	f := call.Call.StaticCallee()
	if f == nil || f.String() != "encoding/json.Marshal" {
		return "", false
	}
	mi, ok := e.origin(call.Call.Args[0]).(*ssa.MakeInterface)
	if !ok {
		return "", false
	}
	if b, ok := mi.X.Type().Underlying().(*types.Basic); !ok || b.Kind() != types.String {
		return "", false
	}
	return e.valTerm(mi.X), true
}

// ifaceOfPtr: the interface value a pointer would have as an io.Writer.
func (e *FuncEnc) ifaceOfPtr(p ssa.Value) string {
	return e.ifaceOf(p.Type(), e.v(p))
}

func (e *FuncEnc) ifaceOf(t types.Type, v string) string {
	tag := e.D.TypeTag(t)
	box, _ := e.D.Box(t)
	if box != "" {
		v = sx(box, v)
	}
	return sx("mk_iface", itoa(int64(tag)), v)
}

// ---------------------------------------------------------------- library models

func (e *FuncEnc) jsonAppend(ev string, guard string) {
	nt := sx("tr_cons", e.cur.trace, ev)
	e.cur.trace = e.define("tr", "Trace", ite(guard, nt, e.cur.trace))
}

// jsonWrite models w.Write(bs): results (n, err); on a complete write the
// classified token is appended, otherwise the writer is BAD.
func (e *FuncEnc) jsonWrite(in ssa.Instruction, w string, data ssa.Value, dataTerm string, rts []types.Type, res ssa.Value) {
	e.jsonEvents()
	e.noteWriter(w)
	rs := e.freshResults("write", rts)
	e.setResult(res, rs)
	n, werr := rs[0], rs[1]
	e.assume(e.curReach, and(sx("<=", "0", n), sx("<=", n, sx("sl_len", dataTerm))))
	ch := e.classifyChunk(data)
	full := and(eq(sx("if_tag", werr), "0"), eq(n, sx("sl_len", dataTerm)))
	var good string
	switch {
	case !ch.ok:
		e.Abstracted = append(e.Abstracted, fmt.Sprintf("%s: text written at %s is not of a known shape (writer goes BAD)", e.Name, e.Fn.Prog.Fset.Position(in.Pos())))
		good = sx("ev_jw_bad", w)
	case ch.splice != "":
		good = sx("ev_jw_splice", w, ch.splice)
	default:
		good = sx("ev_jw_tok", w, itoa(ch.kind), ch.c, ch.n, ch.safe)
	}
	switch {
	case ch.ok && ch.splice == "":
		// a short / failed write is an unsafe token: BAD
		good = sx("ev_jw_tok", w, itoa(ch.kind), ch.c, ch.n, and(ch.safe, full))
		e.cur.trace = e.define("tr", "Trace", sx("tr_cons", e.cur.trace, good))
	default:
		nt := ite(full, sx("tr_cons", e.cur.trace, good), sx("tr_cons", e.cur.trace, sx("ev_jw_bad", w)))
		e.cur.trace = e.define("tr", "Trace", nt)
	}
}

func InstallJSONLibrary(w *World) {
	w.JSONViews = true
	// the per-variant helpers of oneOf decoders are part of UnmarshalJSON
	prevInline := w.InlineNamed
	w.InlineNamed = func(f *ssa.Function) bool {
		return strings.HasPrefix(f.Name(), "unmarshalJSON_") || (prevInline != nil && prevInline(f))
	}
	if w.Library == nil {
		w.Library = map[string]LibModel{}
	}
	L := w.Library
	L["encoding/json.NewEncoder"] = LibModel{Doc: "returns a fresh non-nil encoder bound to the writer", Fn: func(e *FuncEnc, in ssa.Instruction, av []ssa.Value, a []string, rts []types.Type, res ssa.Value) bool {
		e.needJSON()
		rs := e.freshResults("encoder", rts)
		e.allocIdx++
		e.assume(e.curReach, fmt.Sprintf("(and (> %s 0) (= (atime %s) (+ T0 %d)))", rs[0], rs[0], e.allocIdx))
		f := e.D.UF("enc_writer", []string{"Int"}, "Iface")
		e.assume(e.curReach, eq(sx(f, rs[0]), a[0]))
		e.setResult(res, rs)
		return true
	}}
	L["(*encoding/json.Encoder).Encode"] = LibModel{Doc: "on success exactly one complete JSON value (and a newline) is written to the encoder's writer; on error nothing is written", Event: true, Fn: func(e *FuncEnc, in ssa.Instruction, av []ssa.Value, a []string, rts []types.Type, res ssa.Value) bool {
		e.jsonEvents()
		rs := e.freshResults("encode", rts)
		e.setResult(res, rs)
		f := e.D.UF("enc_writer", []string{"Int"}, "Iface")
		e.jsonAppend(sx("ev_jw_enc", sx(f, a[0]), a[1]), eq(sx("if_tag", rs[0]), "0"))
		return true
	}}
	L["(*bytes.Buffer).Write"] = LibModel{Doc: "appends the bytes (n == len(p), err == nil) or reports a short write", Event: true, Fn: func(e *FuncEnc, in ssa.Instruction, av []ssa.Value, a []string, rts []types.Type, res ssa.Value) bool {
		e.jsonWrite(in, e.ifaceOfPtr(av[0]), av[1], a[1], rts, res)
		return true
	}}
	L["(*bytes.Buffer).Bytes"] = LibModel{Doc: "the text written so far (ghost document attributes of the returned slice)", Fn: func(e *FuncEnc, in ssa.Instruction, av []ssa.Value, a []string, rts []types.Type, res ssa.Value) bool {
		e.jsonEvents()
		rs := e.freshResults("bytes", rts)
		e.setResult(res, rs)
		w := e.ifaceOfPtr(av[0])
		e.assume(e.curReach, sx(">", sx("sl_base", rs[0]), "0"))
		e.assumeDoc(rs[0], w)
		return true
	}}
	L["(*bytes.Buffer).Len"] = LibModel{Doc: "0 iff nothing was written", Fn: func(e *FuncEnc, in ssa.Instruction, av []ssa.Value, a []string, rts []types.Type, res ssa.Value) bool {
		e.jsonEvents()
		rs := e.freshResults("buflen", rts)
		e.setResult(res, rs)
		w := e.ifaceOfPtr(av[0])
		st := sx("jst", e.cur.trace, w)
		e.assume(e.curReach, and(sx(">=", rs[0], "0"), implies(eq(st, "0"), eq(rs[0], "0")), implies(and(sx(">", st, "0"), sx("<", st, "99")), sx(">", rs[0], "0"))))
		return true
	}}
	strUF := pureUF("")
	L["(*bytes.Buffer).String"] = LibModel{Doc: "the text written so far (empty iff nothing was written)", Fn: func(e *FuncEnc, in ssa.Instruction, av []ssa.Value, a []string, rts []types.Type, res ssa.Value) bool {
		e.jsonEvents()
		strUF.Fn(e, in, av, a, rts, res)
		w := e.ifaceOfPtr(av[0])
		st := sx("jst", e.cur.trace, w)
		n := sx("slen", e.v(res))
		e.assume(e.curReach, and(implies(eq(st, "0"), eq(n, "0")), implies(and(sx(">", st, "0"), sx("<", st, "99")), sx(">", n, "0"))))
		return true
	}}
}

// assumeDoc: ghost attributes of a byte slice holding the text of writer w.
func (e *FuncEnc) assumeDoc(bs, w string) {
	e.D.UF("doc_st", []string{"Slice"}, "Int")
	e.D.UF("doc_obj", []string{"Slice"}, "(Array Str JOpt)")
	e.D.UF("doc_dup", []string{"Slice"}, "Bool")
	e.D.UF("doc_alen", []string{"Slice"}, "Int")
	e.D.UF("doc_aidx", []string{"Slice"}, "(Array Int JOpt)")
	t := e.cur.trace
	e.assume(e.curReach, and(eq(sx("doc_st", bs), sx("jst", t, w)), eq(sx("doc_obj", bs), sx("jobj", t, w)), eq(sx("doc_dup", bs), sx("jdup", t, w)), eq(sx("doc_alen", bs), sx("jalen", t, w)), eq(sx("doc_aidx", bs), sx("jaidx", t, w))))
}

// jsonInvoke models out.Write(bs) on an io.Writer.
func jsonInvoke(e *FuncEnc, in ssa.Instruction, c *ssa.CallCommon, res ssa.Value) bool {
	if c.Method.Name() != "Write" || !isNamed(c.Value.Type(), "io", "Writer") || len(c.Args) != 1 {
		return false
	}
	sig := c.Signature()
	e.jsonWrite(in, e.v(c.Value), c.Args[0], e.v(c.Args[0]), resultTypes(sig), res)
	e.Assumed["io.Writer.Write on the codec's writer: n == len(p) and err == nil mean the bytes were appended"] = true
	return true
}

// freshBufferFacts: a bytes.Buffer that was just allocated has no text.
func (e *FuncEnc) freshBufferFacts(x *ssa.Alloc, addr string) {
	if e.W == nil || !e.W.JSONViews {
		return
	}
	t := x.Type().Underlying().(*types.Pointer).Elem()
	if !isNamed(t, "bytes", "Buffer") {
		return
	}
	e.jsonEvents()
	w := e.ifaceOf(x.Type(), addr)
	e.noteWriter(w)
	// a writer handed in by the caller existed before this buffer did
	root := e.Fn
	for _, p := range root.Params {
		if e.D.SortOf(p.Type()) == "Iface" {
			if pv, ok := e.val[p]; ok {
				e.assume("true", not(eq(pv, w)))
			}
		}
	}
	tr := e.cur.trace
	e.assume("true", and(eq(sx("jst", tr, w), "0"), eq(sx("jobj", tr, w), "j_empty"), not(sx("jdup", tr, w)), eq(sx("jalen", tr, w), "0"), eq(sx("jaidx", tr, w), "j_noitems")))
	e.Assumed["a bytes.Buffer variable starts empty"] = true
}

// mergeTraces: the trace at a control-flow join. In general the ite of the
// incoming traces; when the ghost JSON views are in use and writers are known,
// a fresh trace whose views (for those writers) are the ite of the incoming
// views: the solver then works on integer / array ite chains of linear size
// instead of unfolding view axioms over nested trace conditionals.
func (e *FuncEnc) mergeTraces(conds, trs []string) string {
	same := true
	for _, t := range trs[1:] {
		if t != trs[0] {
			same = false
		}
	}
	if same {
		return trs[0]
	}
	ws := e.jsonWriters()
	if e.W == nil || !e.W.JSONViews || len(ws) == 0 {
		tr := trs[len(trs)-1]
		for i := len(trs) - 2; i >= 0; i-- {
			tr = ite(conds[i], trs[i], tr)
		}
		return e.define("tr", "Trace", tr)
	}
	e.jsonEvents()
	m := e.newSym("trm", "Trace")
	for _, w := range ws {
		for _, view := range jsonViewNames {
			expr := sx(view, trs[len(trs)-1], w)
			for i := len(trs) - 2; i >= 0; i-- {
				expr = ite(conds[i], sx(view, trs[i], w), expr)
			}
			e.emit("(assert (= " + sx(view, m, w) + " " + expr + "))")
		}
	}
	e.Assumed["at control-flow joins of codec functions only the JSON writer views of the trace are carried over (other trace facts are dropped: incomplete, not unsound)"] = true
	return m
}
