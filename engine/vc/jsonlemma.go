package vc

import (
	"fmt"
	"go/token"
	"go/types"
)

// Round-trip lemma (C06): for every object type T under contract,
//
//	decode(encode(v)) is v
//
// follows from the two proved contracts and the wire assumptions about
// encoding/json, member by member:
//
//	(M)  the member entry a_p written for property p satisfies memberOK_p(a_p, v)      [proved: MarshalJSON]
//	(W0) parsing the text yields exactly the members written: docObj(d)[p] is docOf(a_p)  [assumed]
//	(U)  decoding sets field p to (present ? decoded : zero), fails iff some member fails [proved: UnmarshalJSON]
//	(W1) docOf(null) is null; docOf(enc(x)) has the JSON kind of x's Go type
//	(W2) json.Unmarshal inverts Encode on the leaf types (string, bool, integers, floats, slices of them;
//	     slices compared by content, nil and empty alike), time.Parse inverts Time.Format for the same layout
//	(IH) the lemma for the schema-derived types nested in T (structural induction on the value)
//
// goal per member:  decoding does not fail, and the decoded field is the field
// (optionals: same IsSet and, when set, same value; likewise nullables).
func (jf *JSONFamily) RoundTripLemma(cr *CheckRun, jt *jsonType, job *EmittedJob) {
	entry := job.Em.Entry.Name
	T := jt.Named
	e := &FuncEnc{W: jf.Em.W, Name: "emitted[" + entry + "].lemma(" + T.Obj().Name() + ")", D: NewDecls()}
	e.init()
	e.NoSafety = true
	e.cur = &state{heaps: map[string]string{}, trace: "tr0"}
	e.entry = e.cur
	e.curReach = "true"
	e.D.Const("tr0", "Trace")
	e.needUn()
	e.jsonEvents()
	cv := e.newSym("v", e.D.SortOf(T))
	has := e.newSym("HAS", "(Array Str Bool)")
	val := e.newSym("VAL", "(Array Str Slice)")
	docOf := e.D.UF("docOf", []string{"JVal"}, "Doc")
	e.D.Axiom("wire:null", "(docNull (docOf jv_null))")
	e.D.Axiom("wire:notnull", "(forall ((x Iface)) (! (not (docNull (docOf (jv_enc x)))) :pattern ((docOf (jv_enc x)))))")
	e.Assumed["wire (W0): parsing the text a codec wrote yields exactly the members it wrote, each with the document of the value written"] = true
	e.Assumed["wire (W1/W2): json.Unmarshal inverts Encoder.Encode on strings, booleans, integers, floats and slices of them (slices by content, nil and empty alike; floats as reals); time.Parse inverts Time.Format for the same layout"] = true
	e.Assumed["induction hypothesis: the round-trip lemma of the schema-derived types nested in the value"] = true
	us := jf.unMembers(e, jt, "0", has, val)
	for i, m := range jt.Members {
		u := us[i]
		if u.problem != "" {
			continue
		}
		lit := e.D.Lit(m.Name)
		a := e.newSym("a_"+mangle(m.Name), "JOpt")
		f, _, problem := jf.memberOK(e, a, "j_none", cv, m)
		if problem != "" {
			continue
		}
		e.emit("(assert " + f + ")")
		// W0
		e.emit("(assert " + eq(sx("select", has, lit), "((_ is j_some) "+a+")") + ")")
		e.emit("(assert " + implies("((_ is j_some) "+a+")", eq(sx("rawdoc", sx("select", val, lit)), sx(docOf, sx("j_val", a)))) + ")")
		// wire / induction axioms for the types on this member's path
		jf.wireAxioms(e, m.Type, m.Schema, docOf)
		field := e.selPath(cv, m)
		jf.assumeWF(e, field, m.Type)
		got := ite(u.present, u.value, u.zero)
		e.obligeNamed("lemma#roundtrip-decodes:"+m.Name, "", implies(u.present, not(u.fails)), token.NoPos)
		e.Obls[len(e.Obls)-1].Props = []string{"C06"}
		e.obligeNamed("lemma#roundtrip-value:"+m.Name, "", jf.sameValue(e, got, field, m.Type), token.NoPos)
		e.Obls[len(e.Obls)-1].Props = []string{"C06"}
	}
	if len(e.Obls) == 0 {
		return
	}
	// vacuity guard: the assumptions of the lemma must be satisfiable
	r := Solve(e.prefix(len(e.body))+"(check-sat)\n", cr.Scratch, e.Name+".consistent", 10)
	if r.Status == "unsat" {
		cr.mu.Lock()
		cr.EngineErrors = append(cr.EngineErrors, e.Name+": the assumptions of the round-trip lemma are contradictory (vacuous)")
		cr.mu.Unlock()
		return
	}
	cr.VerifyEncoded(e, entry, nil, func(fl *Failure) { jf.ReplayJSON(cr, job, fl) })
}

// sameValue: equality of Go values as the property means it: an unset
// optional is unset whatever its Value holds; likewise a null nullable.
func (jf *JSONFamily) sameValue(e *FuncEnc, a, b string, t types.Type) string {
	kind, inner := wrapperOf(t)
	if kind == "Maybe" || kind == "Nullable" {
		is := e.D.FieldSelector(t, structFieldIndex(t, "IsSet"))
		vl := e.D.FieldSelector(t, structFieldIndex(t, "Value"))
		return and(eq(sx(is, a), sx(is, b)), implies(sx(is, a), jf.sameValue(e, sx(vl, a), sx(vl, b), inner)))
	}
	if isRawMessage(t) {
		return eq(sx("rawdoc", a), sx("rawdoc", b))
	}
	if _, ok := t.Underlying().(*types.Slice); ok {
		if n, isNamed := t.(*types.Named); !isNamed || n.Obj().Pkg() == nil || n.Obj().Pkg().Path() != "emitted" {
			f := e.D.UF("same_content", []string{"Slice", "Slice"}, "Bool")
			e.D.Axiom("same_content:refl", "(forall ((s Slice)) (! (same_content s s) :pattern ((same_content s s))))")
			return sx(f, a, b)
		}
	}
	return eq(a, b)
}

// wireAxioms: W1/W2/IH for the Go type of a member (after unwrapping).
func (jf *JSONFamily) wireAxioms(e *FuncEnc, t types.Type, s *RefSchema, docOf string) {
	for {
		k, in := wrapperOf(t)
		if k == "" {
			break
		}
		t = in
	}
	srt := e.D.SortOf(t)
	n := mangle(typeKey(t))
	iface := func(x string) string { return e.ifaceOf(t, x) }
	if isRawMessage(t) {
		// Encode writes the document a raw message holds
		e.D.Axiom("wire:raw", fmt.Sprintf("(forall ((x Slice)) (! (= (%s (jv_enc %s)) (rawdoc x)) :pattern ((%s (jv_enc %s)))))", docOf, iface("x"), docOf, iface("x")))
		return
	}
	if nt, ok := t.(*types.Named); ok && nt.Obj().Pkg() != nil && nt.Obj().Pkg().Path() == "emitted" && hasMethod(nt, "UnmarshalJSON") {
		ef, vf := e.udecFns(t)
		e.D.Axiom("ih:"+n, fmt.Sprintf("(forall ((x %s)) (! (and (not (%s (%s (jv_enc %s)))) (= (%s (%s (jv_enc %s))) x)) :pattern ((%s (jv_enc %s)))))", srt, ef, docOf, iface("x"), vf, docOf, iface("x"), docOf, iface("x")))
		return
	}
	if isNamed(t, "time", "Time") {
		// encoded as the formatted string, decoded through time.Parse with the same layout
		st := types.Typ[types.String]
		ef, vf := e.decFns(st)
		sI := func(x string) string { return e.ifaceOf(st, x) }
		e.D.Axiom("wire:string", fmt.Sprintf("(forall ((x Str)) (! (and (not (%s (%s (jv_enc %s)))) (= (%s (%s (jv_enc %s))) x)) :pattern ((%s (jv_enc %s)))))", ef, docOf, sI("x"), vf, docOf, sI("x"), docOf, sI("x")))
		name := mangle("time.Parse")
		p0 := e.D.UF("lib_"+name+"_r0", []string{"Str", "Str"}, srt)
		p1 := e.D.UF("lib_"+name+"_r1", []string{"Str", "Str"}, "Iface")
		fm := e.D.UF("lib_"+mangle("(time.Time).Format")+"_r0", []string{srt, "Str"}, "Str")
		e.D.Axiom("wire:time", fmt.Sprintf("(forall ((x %s) (l Str)) (! (and (= (if_tag (%s l (%s x l))) 0) (= (%s l (%s x l)) x)) :pattern ((%s x l))))", srt, p1, fm, p0, fm, fm))
		return
	}
	dt := t
	if b, ok := t.Underlying().(*types.Basic); ok && b.Kind() == types.Float32 {
		dt = types.Typ[types.Float64]
	}
	ef, vf := e.decFns(dt)
	if _, isSlice := t.Underlying().(*types.Slice); isSlice {
		f := e.D.UF("same_content", []string{"Slice", "Slice"}, "Bool")
		_, unbox := e.D.Box(t)
		_ = unbox
		e.D.Axiom("wire:"+n, fmt.Sprintf("(forall ((x %s)) (! (and (not (%s (%s (jv_enc %s)))) (%s (%s (%s (jv_enc %s))) x)) :pattern ((%s (jv_enc %s)))))", srt, ef, docOf, iface("x"), f, vf, docOf, iface("x"), docOf, iface("x")))
		// content equality ignores which empty slice it is
		e.D.Axiom("same_content:empty", "(forall ((a Slice) (b Slice) (c Slice)) (! (=> (and (same_content a b) (= (sl_len b) 0) (= (sl_len c) 0)) (same_content a c)) :pattern ((same_content a b) (same_content a c))))")
		return
	}
	e.D.Axiom("wire:"+n, fmt.Sprintf("(forall ((x %s)) (! (and (not (%s (%s (jv_enc %s)))) (= (%s (%s (jv_enc %s))) x)) :pattern ((%s (jv_enc %s)))))", srt, ef, docOf, iface("x"), vf, docOf, iface("x"), docOf, iface("x")))
}

// assumeWF: representation invariants of the slices inside a value.
func (jf *JSONFamily) assumeWF(e *FuncEnc, v string, t types.Type) {
	if k, in := wrapperOf(t); k != "" {
		jf.assumeWF(e, sx(e.D.FieldSelector(t, structFieldIndex(t, "Value")), v), in)
		return
	}
	if _, ok := t.Underlying().(*types.Slice); ok {
		e.emit("(assert " + e.sliceWF(v) + ")")
	}
}
