package vc

import (
	"fmt"
	"go/types"
	"strings"

	"golang.org/x/tools/go/ssa"
)

// Environment preconditions of emitted functions (DESIGN §4.14, §11): facts the
// Go runtime, net/http and the documented way of using the generated package
// establish for every call from outside the package. Inside the package they
// are obligations at every static call site.
//
//	*http.Request parameters   : non-nil, URL non-nil
//	other pointer parameters   : non-nil (receivers of pointer methods included)
//	http.ResponseWriter, io.Writer, http.Handler, context.Context parameters: non-nil
//	<Op>HandlerFunc receivers  : non-nil ("every operation handler is set")
//	value receivers with a `Request *http.Request` field: that field is non-nil, URL non-nil
//
//	response values with a raw `Body io.ReadCloser` field: Body is non-nil
//
// Security*Middleware receivers and API fields other than operation handlers
// are NOT assumed non-nil.

func isNamed(t types.Type, pkg, name string) bool {
	n, ok := t.(*types.Named)
	if !ok {
		return false
	}
	if n.Obj().Name() != name {
		return false
	}
	if pkg == "" {
		return true
	}
	return n.Obj().Pkg() != nil && n.Obj().Pkg().Path() == pkg
}

func isHTTPRequestPtr(t types.Type) bool {
	p, ok := t.(*types.Pointer)
	return ok && isNamed(p.Elem(), "net/http", "Request")
}

func requestFacts(e *FuncEnc, r string, t types.Type, st *state) []NamedFormula {
	reqS := t.(*types.Pointer).Elem()
	rst := reqS.Underlying().(*types.Struct)
	out := []NamedFormula{{Name: "request!=nil", Formula: not(eq(r, "0"))}}
	for i := 0; i < rst.NumFields(); i++ {
		if rst.Field(i).Name() == "URL" {
			u := e.load(st, "("+e.D.FieldAddrFn(reqS, i)+" "+r+")", rst.Field(i).Type())
			out = append(out, NamedFormula{Name: "request.URL!=nil", Formula: not(eq(u, "0"))})
		}
		if rst.Field(i).Name() == "Body" {
			b := e.load(st, "("+e.D.FieldAddrFn(reqS, i)+" "+r+")", rst.Field(i).Type())
			out = append(out, NamedFormula{Name: "request.Body!=nil", Formula: not(eq(sx("if_tag", b), "0"))})
		}
	}
	return out
}

// EnvPre computes the environment preconditions of f for the given argument terms.
func EnvPre(e *FuncEnc, f *ssa.Function, args []string, st *state) []NamedFormula {
	var out []NamedFormula
	for i, p := range f.Params {
		if i >= len(args) {
			break
		}
		a := args[i]
		t := p.Type()
		isRecv := i == 0 && f.Signature.Recv() != nil
		switch u := t.Underlying().(type) {
		case *types.Pointer:
			if isHTTPRequestPtr(t) {
				for _, nf := range requestFacts(e, a, t, st) {
					nf.Name = p.Name() + ":" + nf.Name
					out = append(out, nf)
				}
				continue
			}
			out = append(out, NamedFormula{Name: p.Name() + "!=nil", Formula: not(eq(a, "0"))})
		case *types.Interface:
			if isNamed(t, "net/http", "ResponseWriter") || isNamed(t, "io", "Writer") || isNamed(t, "net/http", "Handler") || isNamed(t, "context", "Context") || isNamed(t, "io", "Reader") {
				out = append(out, NamedFormula{Name: p.Name() + "!=nil", Formula: not(eq(sx("if_tag", a), "0"))})
			}
		case *types.Signature:
			if isRecv {
				if n, ok := t.(*types.Named); ok && !strings.HasPrefix(n.Obj().Name(), "Security") {
					out = append(out, NamedFormula{Name: p.Name() + "!=nil", Formula: not(eq(a, "0"))})
				}
			}
		case *types.Struct:
			if isRecv {
				for j := 0; j < u.NumFields(); j++ {
					if u.Field(j).Name() == "Body" && (isNamed(u.Field(j).Type(), "io", "ReadCloser") || isNamed(u.Field(j).Type(), "io", "Reader")) {
						out = append(out, NamedFormula{Name: p.Name() + ".Body!=nil", Formula: not(eq(sx("if_tag", sx(e.D.FieldSelector(t, j), a)), "0"))})
					}
					if isHTTPRequestPtr(u.Field(j).Type()) {
						fv := sx(e.D.FieldSelector(t, j), a)
						for _, nf := range requestFacts(e, fv, u.Field(j).Type(), st) {
							nf.Name = p.Name() + "." + u.Field(j).Name() + ":" + nf.Name
							out = append(out, nf)
						}
					}
				}
			}
		}
	}
	return out
}

// InstallEnvContracts attaches the environment preconditions to every emitted
// function (merging with family contracts that are already installed).
func InstallEnvContracts(em *Emitted) {
	for _, f := range em.W.Functions() {
		f := f
		key := f.String()
		if o := f.Origin(); o != nil {
			key = o.String()
		}
		c := em.W.ContractFor(f)
		if c == nil {
			c = &Contract{Name: key, Emitted: true, LoopInv: map[int][]*Clause{}, LoopDec: map[int]*Clause{}, Options: map[string]string{"env": "true"}}
			em.W.Contracts[key] = c
		}
		if c.Options == nil {
			c.Options = map[string]string{}
		}
		if c.Options["envdone"] == "true" {
			continue
		}
		c.Options["envdone"] = "true"
		prev := c.PreHook
		c.PreHook = func(e *FuncEnc, args []string) []NamedFormula {
			var out []NamedFormula
			if prev != nil {
				out = append(out, prev(e, args)...)
			}
			seen := map[string]bool{}
			for _, nf := range out {
				seen[nf.Formula] = true
			}
			for _, nf := range EnvPre(e, f, args, e.cur) {
				if !seen[nf.Formula] {
					nf.Name = "env:" + nf.Name
					out = append(out, nf)
				}
			}
			return out
		}
	}
}

var _ = fmt.Sprintf
