package vc

import (
	"go/constant"
	"go/types"
	"path/filepath"
	"strings"

	"golang.org/x/tools/go/ssa"
)

// Spec file handler family (C13, serving half):
//
//	emitted func SpecFileHandler$1(rw http.ResponseWriter, r *http.Request)
//	  ensures respBody(trace) == body_write(respBody(old(trace)), SpecFile)   -- the text written is the constant, byte for byte
//	  ensures respCore(trace) == core_wh(core_ct(respCore(old(trace)), "application/<ext>"), 200)
//
// SpecFile is the constant of spec_file.go (that it equals the input file is
// the generator-side lemma of C13). The body may be written from the constant
// directly (io.WriteString, rw.Write([]byte(SpecFile))) or from a package
// variable that is assigned once, in the package initialiser, []byte(SpecFile)
// (global fact below; that nothing writes package-level state afterwards is C20).

// specFileConst: the value of const SpecFile in the emitted package.
func specFileConst(pkg *ssa.Package) (string, bool) {
	if pkg == nil {
		return "", false
	}
	c, ok := pkg.Pkg.Scope().Lookup("SpecFile").(*types.Const)
	if !ok || c.Val().Kind() != constant.String {
		return "", false
	}
	return constant.StringVal(c.Val()), true
}

// initBytesOfConst: global g is assigned exactly once in the whole package, in
// its initialiser, the conversion of a constant string to bytes; returns the string.
func initBytesOfConst(g *ssa.Global) (string, bool) {
	pkg := g.Pkg
	if pkg == nil {
		return "", false
	}
	var text string
	stores := 0
	okShape := true
	for _, m := range pkg.Members {
		f, ok := m.(*ssa.Function)
		if !ok {
			continue
		}
		fns := append([]*ssa.Function{f}, f.AnonFuncs...)
		for _, fn := range fns {
			for _, b := range fn.Blocks {
				for _, in := range b.Instrs {
					st, ok := in.(*ssa.Store)
					if !ok || st.Addr != ssa.Value(g) {
						continue
					}
					stores++
					cv, ok := st.Val.(*ssa.Convert)
					if !ok || fn.Name() != "init" {
						okShape = false
						continue
					}
					s, ok := constString(cv.X)
					if !ok {
						okShape = false
						continue
					}
					text = s
				}
			}
		}
	}
	// methods
	for _, m := range pkg.Members {
		if t, ok := m.(*ssa.Type); ok {
			for _, recv := range []types.Type{t.Type(), types.NewPointer(t.Type())} {
				ms := pkg.Prog.MethodSets.MethodSet(recv)
				for i := 0; i < ms.Len(); i++ {
					fn := pkg.Prog.MethodValue(ms.At(i))
					if fn == nil || fn.Pkg != pkg {
						continue
					}
					for _, b := range fn.Blocks {
						for _, in := range b.Instrs {
							if st, ok := in.(*ssa.Store); ok && st.Addr == ssa.Value(g) {
								okShape = false
							}
						}
					}
				}
			}
		}
	}
	return text, okShape && stores == 1
}

// InstallSpecFileFamily attaches the contract to the closure of SpecFileHandler.
func InstallSpecFileFamily(em *Emitted) {
	text, ok := specFileConst(em.Pkg)
	for _, f := range em.W.Functions() {
		f := f
		if relName(f) != "SpecFileHandler$1" || len(f.Params) != 2 {
			continue
		}
		c := &Contract{Name: f.String(), Emitted: true, TraceSpecified: true, Options: map[string]string{}, LoopInv: map[int][]*Clause{}, LoopDec: map[int]*Clause{}}
		// the media type follows the name the spec is served under (the
		// -spec-handler name when given, else the name of the input file)
		served := em.Entry.Spec
		if em.Entry.SpecHandlerName != "" {
			served = em.Entry.SpecHandlerName
		}
		ext := strings.TrimPrefix(filepath.Ext(served), ".")
		c.RetHook = func(e *FuncEnc, results []string) []NamedFormula {
			if !ok {
				return []NamedFormula{{Name: "ensures#served-text", Props: []string{"C13"}, Formula: "false"}}
			}
			e.needProjections()
			tr0, tr1 := e.entry.trace, e.cur.trace
			lit := e.D.Lit(text)
			ct := e.D.Lit("application/" + ext)
			return []NamedFormula{
				{Name: "ensures#served-text", Props: []string{"C13"}, Formula: eq(sx("respBody", tr1), sx("body_write", sx("respBody", tr0), lit))},
				{Name: "ensures#served-head", Props: []string{"C13"}, Formula: eq(sx("respCore", tr1), sx("core_wh", sx("core_ct", sx("respCore", tr0), ct), "200"))},
			}
		}
		em.W.Contracts[f.String()] = c
	}
}
