package vc

import (
	"fmt"
	"go/token"
	"go/types"

	"golang.org/x/tools/go/ssa"
)

// selfEnv binds the function's own parameters (entry values) for its contract.
func (e *FuncEnc) selfEnv(st *state) *cenv {
	env := &cenv{e: e, vars: map[string]tv{}, st: st, old: e.entry}
	off := 0
	if e.Fn.Signature.Recv() != nil {
		off = 1
	}
	for i, p := range e.Fn.Params {
		env.vars[p.Name()] = tv{s: e.val[p], t: p.Type(), srt: e.D.SortOf(p.Type())}
		env.vars[p.Name()+"0"] = env.vars[p.Name()]
		if c := e.Contract; c != nil && i-off >= 0 && i-off < len(c.ParamNames) && c.ParamNames[i-off] != "_" {
			env.vars[c.ParamNames[i-off]] = env.vars[p.Name()]
		}
	}
	for _, fv := range e.Fn.FreeVars {
		env.vars[fv.Name()] = tv{s: e.val[fv], t: fv.Type(), srt: e.D.SortOf(fv.Type())}
	}
	return env
}

func (e *FuncEnc) assumeRequires() {
	c := e.Contract
	env := e.selfEnv(e.cur)
	for _, cl := range c.Requires {
		f, err := env.formula(cl)
		if err != nil {
			e.SpecErrors = append(e.SpecErrors, fmt.Sprintf("%s %s %q: %v", c.Name, cl.Name, cl.Text, err))
			continue
		}
		e.emit("(assert " + f + ")")
		e.RequiresFormulas = append(e.RequiresFormulas, f)
	}
	if c.PreHook != nil {
		var args []string
		for _, p := range e.Fn.Params {
			args = append(args, e.val[p])
		}
		for _, nf := range c.PreHook(e, args) {
			e.emit("(assert " + nf.Formula + ")")
			e.RequiresFormulas = append(e.RequiresFormulas, nf.Formula)
		}
	}
}

func (e *FuncEnc) checkEnsures(ret *ssa.Return) {
	c := e.Contract
	if c == nil {
		return
	}
	env := e.selfEnv(e.cur)
	env.bindResults(e.Fn, e.results)
	for _, cl := range c.Ensures {
		f, err := env.formula(cl)
		if err != nil {
			e.SpecErrors = append(e.SpecErrors, fmt.Sprintf("%s %s %q: %v", c.Name, cl.Name, cl.Text, err))
			continue
		}
		e.obligeNamed(cl.Name, fmt.Sprintf("ret%d", e.retCount), f, ret.Pos())
		e.Obls[len(e.Obls)-1].Props = cl.Props
		e.Obls[len(e.Obls)-1].Clause = cl.Name
	}
	if c.RetHook != nil {
		for _, nf := range c.RetHook(e, e.results) {
			if nf.Formula == "true" {
				continue // holds syntactically at this return site
			}
			e.obligeNamed(nf.Name, fmt.Sprintf("ret%d", e.retCount), nf.Formula, ret.Pos())
			e.Obls[len(e.Obls)-1].Props = nf.Props
		}
	}
	e.retCount++
}

// obligeNamed: obligation whose name is the clause name (not a running
// ordinal), so that contract clauses keep their identity.
func (e *FuncEnc) obligeNamed(clause, detail, formula string, pos token.Pos) {
	if formula == "true" {
		// still counted as an obligation that is trivially discharged
	}
	name := fmt.Sprintf("%s/%s/%s", e.Name, clause, detail)
	o := &Obligation{Name: name, Func: e.Name, Class: "contract", Detail: clause, Guard: e.curReach, Formula: formula, bodyPos: len(e.body)}
	if pos.IsValid() {
		o.Pos = e.Fn.Prog.Fset.Position(pos)
	}
	e.Obls = append(e.Obls, o)
}

// ---------------------------------------------------------------- loops

func (e *FuncEnc) computeLoopMods() {
	for _, li := range e.loopList() {
		for _, b := range li.blocks() {
			for _, in := range b.Instrs {
				switch x := in.(type) {
				case *ssa.Store:
					for _, lf := range e.leaves(x.Val.Type(), func(s string) string { return s }, 0) {
						li.modKeys[lf.key] = true
					}
				case *ssa.MapUpdate:
					vk, hk, _, _, _, _ := e.mapKeys(x.Map.Type().Underlying().(*types.Map))
					li.modKeys[vk] = true
					li.modKeys[hk] = true
				case *ssa.MakeMap:
					_, hk, _, _, _, _ := e.mapKeys(x.Type().Underlying().(*types.Map))
					li.modKeys[hk] = true
				case *ssa.Next:
					if rng, ok := x.Iter.(*ssa.Range); ok {
						if mt, ok := rng.X.Type().Underlying().(*types.Map); ok {
							key, _ := e.visitedKey(rng, mt)
							li.modKeys[key] = true
						}
					}
				case *ssa.Alloc:
					for _, lf := range e.leaves(x.Type().Underlying().(*types.Pointer).Elem(), func(s string) string { return s }, 0) {
						li.modKeys[lf.key] = true
					}
				case *ssa.MakeSlice:
					et := x.Type().Underlying().(*types.Slice).Elem()
					for _, lf := range e.leaves(et, func(s string) string { return s }, 0) {
						li.modKeys[lf.key] = true
					}
				case ssa.CallInstruction:
					e.callMods(x, li)
				}
			}
		}
	}
}

func (e *FuncEnc) callMods(x ssa.CallInstruction, li *loopInfo) {
	c := x.Common()
	if c.IsInvoke() {
		kind := CallHavoc
		if e.W != nil && e.W.DynamicPolicy != nil {
			kind = e.W.DynamicPolicy(e, x, shortType(c.Value.Type())+"."+c.Method.Name())
		}
		switch kind {
		case CallHavoc:
			li.modTop, li.modTrace = true, true
		case CallEvent:
			li.modTrace = true
		}
		return
	}
	var callee *ssa.Function
	switch f := c.Value.(type) {
	case *ssa.Builtin:
		switch f.Name() {
		case "append", "copy":
			if st, ok := c.Args[0].Type().Underlying().(*types.Slice); ok {
				for _, lf := range e.leaves(st.Elem(), func(s string) string { return s }, 0) {
					li.modKeys[lf.key] = true
				}
			}
		case "delete":
			_, hk, _, _, _, _ := e.mapKeys(c.Args[0].Type().Underlying().(*types.Map))
			li.modKeys[hk] = true
		}
		return
	case *ssa.Function:
		callee = f
	case *ssa.MakeClosure:
		callee = f.Fn.(*ssa.Function)
	default:
		if e.W != nil && e.W.InlineClosures {
			if mc := e.resolveClosure(c.Value, 0); mc != nil {
				callee = mc.Fn.(*ssa.Function)
				break
			}
		}
		kind := CallHavoc
		if e.W != nil && e.W.DynamicPolicy != nil {
			kind = e.W.DynamicPolicy(e, x, "func:"+shortType(c.Value.Type()))
		}
		switch kind {
		case CallHavoc:
			li.modTop, li.modTrace = true, true
		case CallEvent:
			li.modTrace = true
		}
		return
	}
	if e.W == nil {
		li.modTop = true
		return
	}
	if e.W.IsModule(callee) && callee.Blocks != nil {
		if ct := e.W.ContractFor(callee); ct != nil && ct.Pure {
			return
		}
		if ct := e.W.ContractFor(callee); ct != nil && ct.Modifies != nil {
			for k := range ct.Modifies {
				li.modKeys[k] = true
			}
			li.modTrace = true
			return
		}
		keys, top, tr := e.W.ModSet(callee)
		if top {
			li.modTop = true
		}
		if tr {
			li.modTrace = true
		}
		for k := range keys {
			li.modKeys[k] = true
		}
		return
	}
	mi := &modInfo{keys: map[string]bool{}}
	e.W.noteCallee(mi, map[*ssa.Function][]*ssa.Function{}, e.Fn, callee, c)
	if mi.top {
		li.modTop = true
	}
	if mi.trace {
		li.modTrace = true
	}
	for k := range mi.keys {
		li.modKeys[k] = true
	}
}

// loopInvariantFormulas builds the invariants of a loop for a given binding of
// the header phis and a heap state.
func (e *FuncEnc) loopInvariantFormulas(li *loopInfo, bind map[*ssa.Phi]string, st *state) []NamedFormula {
	var out []NamedFormula
	// inferred: monotone counters
	for _, in := range li.header.Instrs {
		phi, ok := in.(*ssa.Phi)
		if !ok {
			break
		}
		if e.D.SortOf(phi.Type()) != "Int" {
			continue
		}
		var entryVals []ssa.Value
		dir := 0
		okMono := true
		for i, p := range li.header.Preds {
			ev := phi.Edges[i]
			if li.body[p] {
				// back edge value must be phi +/- const, possibly via the increment instruction
				d, ok := stepOf(ev, phi)
				if !ok || d == 0 || (dir != 0 && (d > 0) != (dir > 0)) {
					okMono = false
					break
				}
				dir = d
			} else {
				entryVals = append(entryVals, ev)
			}
		}
		if !okMono || dir == 0 || len(entryVals) != 1 {
			continue
		}
		init := e.v(entryVals[0])
		if dir > 0 {
			out = append(out, NamedFormula{Name: "auto:" + phi.Comment + ">=init", Formula: sx(">=", bind[phi], init)})
		} else {
			out = append(out, NamedFormula{Name: "auto:" + phi.Comment + "<=init", Formula: sx("<=", bind[phi], init)})
		}
	}
	// inferred: range-index loops: the index stays below the length it is compared with
	if iff, ok := li.header.Instrs[len(li.header.Instrs)-1].(*ssa.If); ok {
		if cmp, ok := iff.Cond.(*ssa.BinOp); ok && cmp.Op == token.LSS {
			if inc, ok := cmp.X.(*ssa.BinOp); ok && inc.Op == token.ADD {
				if phi, ok := inc.X.(*ssa.Phi); ok && phi.Block() == li.header && phi.Comment == "rangeindex" {
					if in, isInstr := cmp.Y.(ssa.Instruction); !isInstr || !li.body[in.Block()] {
						if _, have := e.val[cmp.Y]; have || isConstLike(cmp.Y) {
							out = append(out, NamedFormula{Name: "auto:rangeindex<len", Formula: sx("<", bind[phi], sx("+", e.v(cmp.Y), "0"))})
						}
					}
				}
			}
		}
	}
	// inferred: `s = append(s, x)` once per iteration of a range-index loop with a
	// single body block: len(s) == len(s at entry) + number of iterations done
	if len(li.body) == 2 {
		var idx *ssa.Phi
		for _, in := range li.header.Instrs {
			if phi, ok := in.(*ssa.Phi); ok && phi.Comment == "rangeindex" {
				idx = phi
			}
		}
		for _, in := range li.header.Instrs {
			phi, ok := in.(*ssa.Phi)
			if !ok || idx == nil {
				break
			}
			if _, isSl := phi.Type().Underlying().(*types.Slice); !isSl {
				continue
			}
			var start ssa.Value
			okShape := true
			for i, p := range li.header.Preds {
				if li.body[p] {
					c, isCall := phi.Edges[i].(*ssa.Call)
					if !isCall {
						okShape = false
						break
					}
					bi, isB := c.Call.Value.(*ssa.Builtin)
					if !isB || bi.Name() != "append" || c.Call.Args[0] != phi {
						okShape = false
						break
					}
					// exactly one element appended: the variadic slice of a [1]T array
					sl, isS := c.Call.Args[1].(*ssa.Slice)
					if !isS {
						okShape = false
						break
					}
					al, isA := sl.X.(*ssa.Alloc)
					if !isA {
						okShape = false
						break
					}
					at, isArr := al.Type().Underlying().(*types.Pointer).Elem().Underlying().(*types.Array)
					if !isArr || at.Len() != 1 {
						okShape = false
					}
				} else {
					start = phi.Edges[i]
				}
			}
			if !okShape || start == nil {
				continue
			}
			out = append(out, NamedFormula{Name: "auto:len(" + phi.Comment + ")", Formula: eq(sx("sl_len", bind[phi]), sx("+", sx("sl_len", e.v(start)), sx("+", bind[idx], "1")))})
		}
	}
	// inferred: a loop whose body emits no response event keeps nResp
	if li.modTrace && e.loopResponseFree(li) {
		if entry := e.loopEntryTrace(li); entry != "" {
			e.D.UF("nResp", []string{"Trace"}, "Int")
			out = append(out, NamedFormula{Name: "auto:nResp", Formula: eq(sx("nResp", st.trace), sx("nResp", entry))})
		}
	}
	// contract invariants
	if e.Contract != nil {
		ord := e.loopOrd[li.header]
		env := e.selfEnv(st)
		for _, in := range li.header.Instrs {
			phi, ok := in.(*ssa.Phi)
			if !ok {
				break
			}
			if phi.Comment != "" {
				env.vars[phi.Comment] = tv{s: bind[phi], t: phi.Type(), srt: e.D.SortOf(phi.Type())}
			}
			// role-based access for family hooks: the loop-carried variables by position
			env.vars[fmt.Sprintf("#phi:%03d", len(env.vars))] = tv{s: bind[phi], t: phi.Type(), srt: e.D.SortOf(phi.Type())}
			// the number of completed iterations, however the loop counts them:
			// `for i := 0; ...; i++` (i itself) or a range loop (rangeindex + 1)
			if _, has := env.vars["#done"]; !has {
				if phi.Comment == "rangeindex" {
					env.vars["#done"] = tv{s: sx("+", bind[phi], "1"), t: phi.Type(), srt: "Int"}
				} else if e.countsFromZero(li, phi) {
					env.vars["#done"] = tv{s: bind[phi], t: phi.Type(), srt: "Int"}
				}
			}
		}
		for _, cl := range e.Contract.LoopInv[ord] {
			f, err := env.formula(cl)
			if err != nil {
				e.SpecErrors = append(e.SpecErrors, fmt.Sprintf("%s %s %q: %v", e.Contract.Name, cl.Name, cl.Text, err))
				continue
			}
			out = append(out, NamedFormula{Name: cl.Name, Formula: f})
		}
		if e.Contract.LoopHook != nil {
			out = append(out, e.Contract.LoopHook(e, ord, env)...)
		}
	}
	return out
}

func stepOf(v ssa.Value, phi *ssa.Phi) (int, bool) {
	b, ok := v.(*ssa.BinOp)
	if !ok {
		return 0, false
	}
	c, ok := b.Y.(*ssa.Const)
	if !ok || c.Value == nil {
		return 0, false
	}
	k := int(c.Int64())
	if b.Op == token.SUB {
		k = -k
	} else if b.Op != token.ADD {
		return 0, false
	}
	if b.X == phi {
		return k, true
	}
	// the increment may be computed from the phi in the header itself (rangeindex)
	return 0, false
}

func (e *FuncEnc) headerPhis(li *loopInfo) []*ssa.Phi {
	var out []*ssa.Phi
	for _, in := range li.header.Instrs {
		phi, ok := in.(*ssa.Phi)
		if !ok {
			break
		}
		out = append(out, phi)
	}
	return out
}

func (e *FuncEnc) assumeInvariants(li *loopInfo) {
	bind := map[*ssa.Phi]string{}
	for _, phi := range e.headerPhis(li) {
		bind[phi] = e.val[phi]
	}
	for _, nf := range e.loopInvariantFormulas(li, bind, e.cur) {
		e.assume(e.curReach, nf.Formula)
	}
}

// checkInvariants: at the end of block b, on the edge b->h.
func (e *FuncEnc) checkInvariants(b, h *ssa.BasicBlock, li *loopInfo, back bool) {
	bind := map[*ssa.Phi]string{}
	pi := -1
	for i, p := range h.Preds {
		if p == b {
			pi = i
		}
	}
	for _, phi := range e.headerPhis(li) {
		bind[phi] = e.v(phi.Edges[pi])
	}
	saved := e.curReach
	e.curReach = e.edge[[2]int{b.Index, h.Index}]
	kind := "entry"
	if back {
		kind = "step"
	}
	e.invAsGoal = true
	invs := e.loopInvariantFormulas(li, bind, e.cur)
	e.invAsGoal = false
	for _, nf := range invs {
		e.obligeNamed(fmt.Sprintf("loop%d/%s", e.loopOrd[h], nf.Name), kind, nf.Formula, h.Instrs[0].Pos())
		e.Obls[len(e.Obls)-1].Props = nf.Props
	}
	// termination measure
	if back && e.Contract != nil {
		if cl := e.Contract.LoopDec[e.loopOrd[h]]; cl != nil {
			// measure at header (phis) vs at back edge (incoming values)
			envH := e.selfEnv(e.cur)
			envB := e.selfEnv(e.cur)
			for _, phi := range e.headerPhis(li) {
				if phi.Comment != "" {
					envH.vars[phi.Comment] = tv{s: e.val[phi], t: phi.Type(), srt: "Int"}
					envB.vars[phi.Comment] = tv{s: bind[phi], t: phi.Type(), srt: "Int"}
				}
			}
			mh, err1 := envH.expr(cl.Text)
			mb, err2 := envB.expr(cl.Text)
			if err1 == nil && err2 == nil {
				e.obligeNamed(fmt.Sprintf("loop%d/decreases", e.loopOrd[h]), "step", and(sx(">=", mh.s, "0"), sx("<", mb.s, mh.s)), h.Instrs[0].Pos())
			}
		}
	}
	e.curReach = saved
}

// ---------------------------------------------------------------- C20 hooks

func (e *FuncEnc) checkSharedStore(x *ssa.Store) {
	if e.StoreHook != nil {
		e.StoreHook(e, x, x.Addr)
	}
}

func (e *FuncEnc) checkSharedMapUpdate(x *ssa.MapUpdate) {
	if e.StoreHook != nil {
		e.StoreHook(e, x, x.Map)
	}
}

// loopEntryTrace: the trace when the loop is entered (single entry edge).
func (e *FuncEnc) loopEntryTrace(li *loopInfo) string {
	tr := ""
	n := 0
	for _, p := range li.header.Preds {
		if li.body[p] {
			continue
		}
		if st, ok := e.exit[p]; ok {
			tr = st.trace
			n++
		}
	}
	if n != 1 {
		return ""
	}
	return tr
}

// loopResponseFree: no instruction in the loop can write a status line or
// delegate to a handler.
func (e *FuncEnc) loopResponseFree(li *loopInfo) bool {
	for _, b := range li.blocks() {
		for _, in := range b.Instrs {
			c, ok := in.(ssa.CallInstruction)
			if !ok {
				continue
			}
			cc := c.Common()
			if cc.IsInvoke() {
				name := shortType(cc.Value.Type()) + "." + cc.Method.Name()
				if respEvent(name) {
					return false
				}
				kind := CallHavoc
				if e.W != nil && e.W.DynamicPolicy != nil {
					kind = e.W.DynamicPolicy(e, in, name)
				}
				if kind == CallHavoc && !e.invokeKeepsResp(cc) {
					return false
				}
				continue
			}
			switch f := cc.Value.(type) {
			case *ssa.Builtin:
			case *ssa.Function:
				if !e.calleeKeepsResp(f) {
					return false
				}
			case *ssa.MakeClosure:
				if !e.calleeKeepsResp(f.Fn.(*ssa.Function)) {
					return false
				}
			default:
				// user hooks never see the ResponseWriter unless it is passed to them
				for _, a := range cc.Args {
					if isNamed(a.Type(), "net/http", "ResponseWriter") {
						return false
					}
				}
			}
		}
	}
	return true
}

func (e *FuncEnc) calleeKeepsResp(f *ssa.Function) bool {
	if e.W == nil {
		return false
	}
	if !e.W.IsModule(f) || f.Blocks == nil {
		full := f.String()
		if respEvent(full) {
			return false
		}
		// library functions that receive a ResponseWriter may write to it
		for _, p := range f.Params {
			if isNamed(p.Type(), "net/http", "ResponseWriter") {
				return false
			}
		}
		return true
	}
	if c := e.W.ContractFor(f); c != nil && (c.Pure || c.Options["keepsResp"] == "true") {
		return true
	}
	_, _, tr := e.W.ModSet(f)
	return !tr
}

func (e *FuncEnc) invokeKeepsResp(cc *ssa.CallCommon) bool { return false }

// countsFromZero: phi is 0 on every entry edge of the loop and phi+1 on every back edge.
func (e *FuncEnc) countsFromZero(li *loopInfo, phi *ssa.Phi) bool {
	b, ok := phi.Type().Underlying().(*types.Basic)
	if !ok || b.Info()&types.IsInteger == 0 {
		return false
	}
	h := li.header
	backs := 0
	for i, p := range h.Preds {
		if e.backEdge[[2]int{p.Index, h.Index}] {
			backs++
			add, ok := phi.Edges[i].(*ssa.BinOp)
			if !ok || add.Op != token.ADD || add.X != ssa.Value(phi) || !isConstInt(add.Y, 1) {
				return false
			}
		} else if !isConstInt(phi.Edges[i], 0) {
			return false
		}
	}
	return backs > 0
}
