package vc

import (
	"fmt"
	"go/constant"
	"go/token"
	"go/types"
	"strings"
	"unicode/utf8"

	"golang.org/x/tools/go/ssa"
)

// Quoting rule (DESIGN §4.13) for
//
//	//@ func encodeRawFileAsString(s string) string
//	//@   requires validUTF8(s) && noNUL(s)
//	//@   ensures goEvalOK(result) && goEval(result) == s
//
// The function is symbolically executed path by path. On each path the result
// must have the shape  D1 ++ ReplaceAll(s, C, T) ++ D2  (a single Go string
// literal whose body is s with one character class spliced) or
// strconv.Quote(s). The rule then generates:
//
//	lemma#fragment  (go/types constant evaluation): the Go expression D1 T D2 evaluates to C
//	lemma#codepoint (SMT, symbolic code point u): every u that can occur in s on
//	                 this path, other than C, is represented by itself inside a
//	                 literal of this mode (Go spec: String literals; BOM; NUL)
//
// and concludes goEval(result) == s by the homomorphism of literal evaluation
// over concatenation of per-code-point fragments (assumed, stated once).

type quotePath struct {
	conds  []string // human-readable
	absent map[rune]bool
	present map[rune]bool
	result ssa.Value
	ret    *ssa.Return
}

type QuoteObligation struct {
	Name    string
	Kind    string // smt | eval | shape
	Script  string // SMT script for kind smt
	OK      bool   // for eval / shape
	Detail  string
	Mode    string
	Absent  []rune
}

func runeSetOfConst(v ssa.Value) ([]rune, bool) {
	s, ok := constString(v)
	if !ok {
		return nil, false
	}
	return []rune(s), true
}

// AnalyzeQuoting produces the obligations of the quoting rule for fn.
func AnalyzeQuoting(fn *ssa.Function) []QuoteObligation {
	var out []QuoteObligation
	if len(fn.Params) != 1 {
		return []QuoteObligation{{Name: "shape", Kind: "shape", OK: false, Detail: "expected one string parameter"}}
	}
	s := fn.Params[0]
	var paths []quotePath
	var walk func(b *ssa.BasicBlock, from *ssa.BasicBlock, p quotePath, depth int)
	walk = func(b *ssa.BasicBlock, from *ssa.BasicBlock, p quotePath, depth int) {
		if depth > 32 {
			return
		}
		phiVal := map[*ssa.Phi]ssa.Value{}
		for _, in := range b.Instrs {
			switch x := in.(type) {
			case *ssa.Phi:
				for i, pr := range b.Preds {
					if pr == from {
						phiVal[x] = x.Edges[i]
					}
				}
			case *ssa.Return:
				q := p
				q.ret = x
				if len(x.Results) == 1 {
					r := x.Results[0]
					if ph, ok := r.(*ssa.Phi); ok && phiVal[ph] != nil {
						r = phiVal[ph]
					}
					q.result = r
				}
				paths = append(paths, q)
				return
			case *ssa.If:
				for i, succ := range b.Succs {
					q := quotePath{conds: append([]string{}, p.conds...), absent: map[rune]bool{}, present: map[rune]bool{}}
					for k := range p.absent {
						q.absent[k] = true
					}
					for k := range p.present {
						q.present[k] = true
					}
					applyCond(x.Cond, i == 0, s, &q)
					walk(succ, b, q, depth+1)
				}
				return
			case *ssa.Jump:
				walk(b.Succs[0], b, p, depth+1)
				return
			}
		}
	}
	walk(fn.Blocks[0], nil, quotePath{absent: map[rune]bool{}, present: map[rune]bool{}}, 0)
	if len(paths) == 0 {
		return []QuoteObligation{{Name: "shape", Kind: "shape", OK: false, Detail: "no return path found"}}
	}
	for pi, p := range paths {
		pre := fmt.Sprintf("path%d", pi)
		d1, c, t, d2, kind := resultShape(p.result, s)
		switch kind {
		case "quote":
			out = append(out, QuoteObligation{Name: pre + "/shape", Kind: "shape", OK: true, Detail: "strconv.Quote(s): assumed library contract goEval(Quote(s)) == s"})
			continue
		case "":
			out = append(out, QuoteObligation{Name: pre + "/shape", Kind: "shape", OK: false, Detail: "result is not D1 ++ ReplaceAll(s, C, T) ++ D2 nor strconv.Quote(s)"})
			continue
		}
		mode := ""
		switch {
		case d1 == "`" && d2 == "`":
			mode = "raw"
		case d1 == `"` && d2 == `"`:
			mode = "interpreted"
		default:
			out = append(out, QuoteObligation{Name: pre + "/shape", Kind: "shape", OK: false, Detail: fmt.Sprintf("delimiters %q %q are not a Go string literal", d1, d2)})
			continue
		}
		out = append(out, QuoteObligation{Name: pre + "/shape", Kind: "shape", OK: true, Mode: mode, Detail: fmt.Sprintf("%s literal, splice %q -> %q; path: %s", mode, c, t, strings.Join(p.conds, " && "))})
		// lemma#fragment: the Go expression D1 T D2 must evaluate to C (when C occurs)
		cr := []rune(c)
		fragOK := false
		detail := ""
		if len(cr) == 1 {
			expr := d1 + t + d2
			tv, err := types.Eval(token.NewFileSet(), nil, token.NoPos, expr)
			if err != nil {
				detail = fmt.Sprintf("Go expression %s does not evaluate: %v", expr, err)
			} else if tv.Value == nil || tv.Value.Kind() != constant.String {
				detail = fmt.Sprintf("Go expression %s is not a string constant", expr)
			} else if got := constant.StringVal(tv.Value); got != c {
				detail = fmt.Sprintf("Go expression %s evaluates to %q, not %q", expr, got, c)
			} else {
				fragOK = true
				detail = fmt.Sprintf("Go expression %s evaluates to %q (go/types constant evaluation)", expr, c)
			}
		} else {
			detail = "spliced class is not a single code point"
		}
		out = append(out, QuoteObligation{Name: pre + "/lemma#fragment", Kind: "eval", OK: fragOK, Detail: detail, Mode: mode})
		// lemma#codepoint
		var absent []rune
		for r := range p.absent {
			absent = append(absent, r)
		}
		var conds []string
		conds = append(conds, "(<= 0 u)", "(<= u 1114111)", "(not (and (<= 55296 u) (<= u 57343)))", "(not (= u 0))")
		for _, r := range absent {
			conds = append(conds, fmt.Sprintf("(not (= u %d))", r))
		}
		if len(cr) == 1 {
			conds = append(conds, fmt.Sprintf("(not (= u %d))", cr[0]))
		}
		script := quotePrelude + fmt.Sprintf("(declare-const u Int)\n(assert (and %s))\n(assert (not (%s u)))\n(check-sat)\n(get-value (u))\n", strings.Join(conds, " "), map[string]string{"raw": "rawPreserves", "interpreted": "interpPreserves"}[mode])
		out = append(out, QuoteObligation{Name: pre + "/lemma#codepoint", Kind: "smt", Script: script, Mode: mode, Absent: absent, Detail: strings.Join(p.conds, " && ")})
	}
	return out
}

// The Go specification, "String literals" / "Source code representation":
// raw literals may contain any character except back quote, carriage returns
// are discarded; interpreted literals may contain any character except newline
// and unescaped double quote, backslash starts an escape; a byte order mark
// (U+FEFF) is rejected anywhere but at the start of the source; NUL is rejected.
const quotePrelude = `(define-fun rawPreserves ((u Int)) Bool (and (not (= u 96)) (not (= u 13)) (not (= u 65279)) (not (= u 0))))
(define-fun interpPreserves ((u Int)) Bool (and (not (= u 34)) (not (= u 92)) (not (= u 10)) (not (= u 65279)) (not (= u 0))))
`

func applyCond(cond ssa.Value, truth bool, s ssa.Value, q *quotePath) {
	if u, ok := cond.(*ssa.UnOp); ok && u.Op == token.NOT {
		applyCond(u.X, !truth, s, q)
		return
	}
	c, ok := cond.(*ssa.Call)
	if !ok {
		q.conds = append(q.conds, "?")
		return
	}
	f := c.Call.StaticCallee()
	if f == nil || len(c.Call.Args) != 2 || c.Call.Args[0] != s {
		q.conds = append(q.conds, "?")
		return
	}
	rs, ok := runeSetOfConst(c.Call.Args[1])
	if !ok {
		q.conds = append(q.conds, "?")
		return
	}
	neg := ""
	if !truth {
		neg = "!"
	}
	switch f.String() {
	case "strings.Contains":
		q.conds = append(q.conds, fmt.Sprintf("%sContains(s, %q)", neg, string(rs)))
		if len(rs) == 1 {
			if truth {
				q.present[rs[0]] = true
			} else {
				q.absent[rs[0]] = true
			}
		}
	case "strings.ContainsAny":
		q.conds = append(q.conds, fmt.Sprintf("%sContainsAny(s, %q)", neg, string(rs)))
		if !truth {
			for _, r := range rs {
				q.absent[r] = true
			}
		}
	case "strings.ContainsRune":
	default:
		q.conds = append(q.conds, "?")
	}
}

// resultShape recognises D1 + ReplaceAll(s, C, T) + D2 and strconv.Quote(s).
func resultShape(v ssa.Value, s ssa.Value) (d1, c, t, d2, kind string) {
	if call, ok := v.(*ssa.Call); ok {
		if f := call.Call.StaticCallee(); f != nil && f.String() == "strconv.Quote" && len(call.Call.Args) == 1 && call.Call.Args[0] == s {
			return "", "", "", "", "quote"
		}
	}
	// flatten the concatenation
	var parts []ssa.Value
	var flat func(v ssa.Value)
	flat = func(v ssa.Value) {
		if b, ok := v.(*ssa.BinOp); ok && b.Op == token.ADD {
			flat(b.X)
			flat(b.Y)
			return
		}
		parts = append(parts, v)
	}
	flat(v)
	if len(parts) != 3 {
		return
	}
	a, ok1 := constString(parts[0])
	z, ok3 := constString(parts[2])
	call, ok2 := parts[1].(*ssa.Call)
	if !ok1 || !ok2 || !ok3 {
		return
	}
	f := call.Call.StaticCallee()
	if f == nil || f.String() != "strings.ReplaceAll" || call.Call.Args[0] != s {
		return
	}
	cc, okc := constString(call.Call.Args[1])
	tt, okt := constString(call.Call.Args[2])
	if !okc || !okt {
		return
	}
	return a, cc, tt, z, "splice"
}

// QuoteWitnessInput builds a file content exhibiting code point u in the mode.
func QuoteWitnessInput(mode string, u rune) []byte {
	var buf [4]byte
	n := utf8.EncodeRune(buf[:], u)
	ch := string(buf[:n])
	if mode == "raw" {
		return []byte("{\"openapi\": \"3.0.3\", \"info\": {\"title\": \"t" + ch + "\", \"version\": \"1\"},\n \"paths\": {}}\n")
	}
	return []byte("{\"openapi\": \"3.0.3\", \"info\": {\"title\": \"t" + ch + "\", \"version\": \"1\"}, \"paths\": {}}")
}
