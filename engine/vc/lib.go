package vc

import (
	"go/constant"
	"fmt"
	"go/types"
	"strings"

	"golang.org/x/tools/go/ssa"
)

// LibModel is an assumed contract of an external (library) function, written
// as an encoder. Every model used in a run is listed in the evidence.
type LibModel struct {
	Doc     string
	Event   bool
	ModKeys []string // ghost/heap keys the function writes
	WritesArgs bool  // writes through its pointer arguments (also when wrapped in an interface)
	Fn    func(e *FuncEnc, in ssa.Instruction, argVals []ssa.Value, args []string, rts []types.Type, res ssa.Value) bool
}

func (e *FuncEnc) libraryCall(in ssa.Instruction, full string, f *ssa.Function, argVals []ssa.Value, args []string, rts []types.Type, res ssa.Value) bool {
	var lm LibModel
	var ok bool
	if e.W != nil {
		lm, ok = e.W.Library[full]
	}
	if !ok {
		lm, ok = defaultLibrary[full]
	}
	if !ok {
		return false
	}
	if lm.Fn(e, in, argVals, args, rts, res) {
		e.Assumed["library contract "+full+": "+lm.Doc] = true
		return true
	}
	return false
}

func nonNilError(e *FuncEnc, s string) {
	e.assume("true", not(eq(sx("if_tag", s), "0")))
}

var defaultLibrary = map[string]LibModel{}

func init() {
	L := defaultLibrary
	L["strings.HasPrefix"] = LibModel{Doc: "len(s) >= len(p) and the first len(p) bytes are equal (expanded for literal p)", Fn: func(e *FuncEnc, in ssa.Instruction, av []ssa.Value, a []string, rts []types.Type, res ssa.Value) bool {
		if lit, ok := constString(av[1]); ok && len(lit) <= 64 {
			e.setVal(res, "Bool", hasPrefixLit(a[0], lit))
			return true
		}
		e.setVal(res, "Bool", sx("str_hasprefix", a[0], a[1]))
		return true
	}}
	L["strings.HasSuffix"] = LibModel{Doc: "len(s) >= len(p) and the last len(p) bytes are equal (expanded for literal p)", Fn: func(e *FuncEnc, in ssa.Instruction, av []ssa.Value, a []string, rts []types.Type, res ssa.Value) bool {
		if lit, ok := constString(av[1]); ok && len(lit) <= 64 {
			cs := []string{sx(">=", sx("slen", a[0]), itoa(int64(len(lit))))}
			for i := 0; i < len(lit); i++ {
				cs = append(cs, eq(sx("sat", a[0], sx("+", sx("-", sx("slen", a[0]), itoa(int64(len(lit)))), itoa(int64(i)))), itoa(int64(lit[i]))))
			}
			e.setVal(res, "Bool", and(cs...))
			return true
		}
		e.setVal(res, "Bool", sx("str_hassuffix", a[0], a[1]))
		return true
	}}
	L["strings.Index"] = LibModel{Doc: "least index of the separator, -1 if absent (one-byte literal separators exactly; others bounded only)", Fn: func(e *FuncEnc, in ssa.Instruction, av []ssa.Value, a []string, rts []types.Type, res ssa.Value) bool {
		if lit, ok := constString(av[1]); ok && len(lit) == 1 {
			e.setVal(res, "Int", sx("sidx", a[0], itoa(int64(lit[0]))))
			return true
		}
		f := e.D.UF("str_index", []string{"Str", "Str"}, "Int")
		e.D.Axiom("str_index", "(forall ((s Str) (p Str)) (! (and (>= (str_index s p) (- 1)) (<= (+ (str_index s p) (slen p)) (+ (slen s) (ite (= (str_index s p) (- 1)) (+ 1 (slen p)) 0)))) :pattern ((str_index s p))))")
		e.setVal(res, "Int", sx(f, a[0], a[1]))
		return true
	}}
	L["strings.LastIndex"] = LibModel{Doc: "greatest index of the separator, -1 if absent: a deterministic function of its arguments, bounded by -1 <= r and r + len(sep) <= len(s) when found", Fn: func(e *FuncEnc, in ssa.Instruction, av []ssa.Value, a []string, rts []types.Type, res ssa.Value) bool {
		f := e.D.UF("str_lastindex", []string{"Str", "Str"}, "Int")
		e.D.Axiom("str_lastindex", "(forall ((s Str) (p Str)) (! (and (>= (str_lastindex s p) (- 1)) (<= (+ (str_lastindex s p) (slen p)) (+ (slen s) (ite (= (str_lastindex s p) (- 1)) (+ 1 (slen p)) 0)))) :pattern ((str_lastindex s p))))")
		e.setVal(res, "Int", sx(f, a[0], a[1]))
		return true
	}}
	L["strings.IndexByte"] = LibModel{Doc: "least index of the byte, -1 if absent", Fn: func(e *FuncEnc, in ssa.Instruction, av []ssa.Value, a []string, rts []types.Type, res ssa.Value) bool {
		e.setVal(res, "Int", sx("sidx", a[0], a[1]))
		return true
	}}
	L["strings.IndexRune"] = LibModel{Doc: "least index of the rune, -1 if absent (constant ASCII runes exactly; others bounded only)", Fn: func(e *FuncEnc, in ssa.Instruction, av []ssa.Value, a []string, rts []types.Type, res ssa.Value) bool {
		if c, ok := av[1].(*ssa.Const); ok && c.Value != nil {
			if n, exact := constant.Int64Val(c.Value); exact && n >= 0 && n < 128 {
				e.setVal(res, "Int", sx("sidx", a[0], itoa(n)))
				return true
			}
		}
		f := e.D.UF("str_indexrune", []string{"Str", "Int"}, "Int")
		e.D.Axiom("str_indexrune", "(forall ((s Str) (c Int)) (! (and (>= (str_indexrune s c) (- 1)) (< (str_indexrune s c) (slen s))) :pattern ((str_indexrune s c))))")
		e.setVal(res, "Int", sx(f, a[0], a[1]))
		return true
	}}
	L["strings.Cut"] = LibModel{Doc: "before/after the first occurrence of a one-byte literal separator (others: deterministic only)", Fn: func(e *FuncEnc, in ssa.Instruction, av []ssa.Value, a []string, rts []types.Type, res ssa.Value) bool {
		lit, ok := constString(av[1])
		if !ok || len(lit) != 1 || res == nil {
			return false
		}
		idx := sx("sidx", a[0], itoa(int64(lit[0])))
		found := sx(">=", idx, "0")
		e.tuple[res] = []string{
			e.define(mangle(res.Name())+"_0", "Str", ite(found, sx("ssub", a[0], "0", idx), a[0])),
			e.define(mangle(res.Name())+"_1", "Str", ite(found, sx("ssub", a[0], sx("+", idx, "1"), sx("slen", a[0])), "str_empty")),
			e.define(mangle(res.Name())+"_2", "Bool", found),
		}
		return true
	}}
	L["strings.TrimPrefix"] = LibModel{Doc: "s[len(p):] if HasPrefix(s,p) else s", Fn: func(e *FuncEnc, in ssa.Instruction, av []ssa.Value, a []string, rts []types.Type, res ssa.Value) bool {
		var hp string
		var n string
		if lit, ok := constString(av[1]); ok && len(lit) <= 64 {
			hp = hasPrefixLit(a[0], lit)
			n = itoa(int64(len(lit)))
		} else {
			hp = sx("str_hasprefix", a[0], a[1])
			n = sx("slen", a[1])
		}
		e.setVal(res, "Str", ite(hp, sx("ssub", a[0], n, sx("slen", a[0])), a[0]))
		return true
	}}
	L["strings.TrimSuffix"] = LibModel{Doc: "s[:len(s)-len(p)] if HasSuffix(s,p) else s", Fn: func(e *FuncEnc, in ssa.Instruction, av []ssa.Value, a []string, rts []types.Type, res ssa.Value) bool {
		hp := sx("str_hassuffix", a[0], a[1])
		e.setVal(res, "Str", ite(hp, sx("ssub", a[0], "0", sx("-", sx("slen", a[0]), sx("slen", a[1]))), a[0]))
		return true
	}}
	L["strings.Split"] = LibModel{Doc: "non-nil fresh slice with len >= 1 when sep is a non-empty literal; elements deterministic in (s, sep)", Fn: func(e *FuncEnc, in ssa.Instruction, av []ssa.Value, a []string, rts []types.Type, res ssa.Value) bool {
		f := e.D.UF("str_split", []string{"Str", "Str"}, "Slice")
		r := e.define("split", "Slice", sx(f, a[0], a[1]))
		e.assume("true", e.sliceWF(r))
		e.assume("true", sx(">", sx("sl_base", r), "0"))
		if lit, ok := constString(av[1]); ok && lit != "" {
			e.assume("true", sx(">=", sx("sl_len", r), "1"))
		}
		e.allocIdx++
		e.assume("true", fmt.Sprintf("(= (atime (sl_base %s)) (+ T0 %d))", r, e.allocIdx))
		e.setResult(res, []string{r})
		// the element heap for strings gets the split parts
		key := e.D.heapKey(types.Typ[types.String])
		e.heapSorts[key] = e.D.heapSort(types.Typ[types.String])
		old := e.heapName(e.cur, key, e.heapSorts[key])
		nu := e.newSym(key, e.heapSorts[key])
		e.cur.heaps[key] = nu
		part := e.D.UF("str_split_part", []string{"Str", "Str", "Int"}, "Str")
		e.emit(fmt.Sprintf("(assert (forall ((a Int)) (! (= (select %s a) (ite (and (= (akind a) 1) (= (elem_base a) (sl_base %s))) (%s %s %s (elem_idx a)) (select %s a))) :pattern ((select %s a)))))", nu, r, part, a[0], a[1], old, nu))
		e.preservePrivate(key, old, nu)
		return true
	}}
	errFn := func(doc string) LibModel {
		return LibModel{Doc: doc, Fn: func(e *FuncEnc, in ssa.Instruction, av []ssa.Value, a []string, rts []types.Type, res ssa.Value) bool {
			rs := e.freshResults("err", rts)
			nonNilError(e, rs[0])
			e.setResult(res, rs)
			return true
		}}
	}
	L["fmt.Errorf"] = LibModel{Doc: "returns a non-nil error; the format literal is remembered in the ghost errfmt", Fn: func(e *FuncEnc, in ssa.Instruction, av []ssa.Value, a []string, rts []types.Type, res ssa.Value) bool {
		rs := e.freshResults("err", rts)
		nonNilError(e, rs[0])
		if lit, ok := constString(av[0]); ok {
			e.D.UF("errfmt", []string{"Iface"}, "Str")
			sym := e.D.Lit(lit)
			e.ErrFormats[lit] = sym
			e.assume("true", eq(sx("errfmt", rs[0]), sym))
		}
		e.setResult(res, rs)
		return true
	}}
	L["errors.New"] = errFn("returns a non-nil error")
	L["net/http.NotFoundHandler"] = LibModel{Doc: "returns a fixed non-nil handler", Fn: func(e *FuncEnc, in ssa.Instruction, av []ssa.Value, a []string, rts []types.Type, res ssa.Value) bool {
		c := e.D.Const("http_NotFoundHandler", "Iface")
		e.D.Axiom("http_NotFoundHandler", "(not (= (if_tag http_NotFoundHandler) 0))")
		e.setResult(res, []string{c})
		return true
	}}
	L["(*net/http.Request).Context"] = LibModel{Doc: "deterministic; never returns nil", Fn: func(e *FuncEnc, in ssa.Instruction, av []ssa.Value, a []string, rts []types.Type, res ssa.Value) bool {
		f := e.D.UF("lib_"+mangle("(*net/http.Request).Context")+"_r0", []string{"Int"}, "Iface")
		e.D.Axiom("reqctx:nonnil", "(forall ((r Int)) (! (not (= (if_tag ("+f+" r)) 0)) :pattern (("+f+" r))))")
		e.setVal(res, "Iface", sx(f, a[0]))
		return true
	}}
	L["net/http.CanonicalHeaderKey"] = pureUF("canonical MIME header key: a deterministic function of its argument")
	for _, n := range []string{"strings.ReplaceAll", "strings.Contains", "strings.ToLower", "strings.ToUpper", "strings.Title", "strings.Join", "strings.TrimSpace", "strings.Repeat", "strings.Count", "strings.EqualFold", "strings.ContainsRune", "strings.Trim", "strings.TrimLeft", "strings.TrimRight", "strings.Fields",
		"path.Dir", "path.Base", "path.Ext", "path/filepath.Join", "path/filepath.Base", "path/filepath.Ext", "path/filepath.Dir",
		"unicode.IsLetter", "unicode.IsUpper", "unicode.IsDigit", "unicode.IsLower", "unicode.ToUpper", "unicode.ToLower",
		"strconv.Itoa", "strconv.Quote", "strconv.FormatInt", "strconv.FormatFloat", "strconv.FormatBool", "strconv.FormatUint",
		"net/url.PathEscape", "net/url.QueryEscape", "(net/url.Values).Encode", "(time.Time).Format",
		"context.WithValue", "(*net/http.Request).WithContext",
		"(*golang.org/x/text/cases.Caser).String", "(golang.org/x/text/cases.Caser).String",
	} {
		L[n] = pureUF("deterministic function of its arguments, no effects")
	}
	L["path.Join"] = LibModel{Doc: "deterministic in its elements; injective in a plain last element", Fn: func(e *FuncEnc, in ssa.Instruction, av []ssa.Value, a []string, rts []types.Type, res ssa.Value) bool {
		e.D.needSeq()
		sl := av[0].Type().Underlying().(*types.Slice)
		seq := e.seqOf(a[0], sl.Elem(), e.cur)
		f := e.D.UF("lib_"+mangle("path.Join")+"_r0", []string{"GSeq"}, "Str")
		e.D.UF("path_base", []string{"Str"}, "Str")
		_, unbox := e.D.Box(types.Typ[types.String])
		e.D.Axiom("path.Join/base", fmt.Sprintf("(forall ((a Int) (b Int)) (! (= (path_base (%s (seq_cons (seq_cons seq_nil a) b))) (%s b)) :pattern ((%s (seq_cons (seq_cons seq_nil a) b)))))", f, unbox, f))
		e.Assumed["path.Join(dir, name) determines name for plain file names (injective in its last element)"] = true
		e.setVal(res, "Str", sx(f, seq))
		return true
	}}
	parse := func(doc string) LibModel {
		return LibModel{Doc: doc, Fn: func(e *FuncEnc, in ssa.Instruction, av []ssa.Value, a []string, rts []types.Type, res ssa.Value) bool {
			name := mangle(in.(ssa.CallInstruction).Common().StaticCallee().String())
			var sorts []string
			for _, v := range av {
				sorts = append(sorts, e.D.SortOf(v.Type()))
			}
			var rs []string
			for i, t := range rts {
				fn := e.D.UF(fmt.Sprintf("lib_%s_r%d", name, i), sorts, e.D.SortOf(t))
				s := e.define(name, e.D.SortOf(t), sx(fn, a...))
				rs = append(rs, s)
			}
			e.setResult(res, rs)
			return true
		}}
	}
	for _, n := range []string{"strconv.ParseUint", "strconv.ParseFloat", "strconv.ParseBool", "strconv.Atoi", "time.Parse"} {
		L[n] = parse("total deterministic function (value, err) of its arguments")
	}
	pi := parse("")
	L["strconv.ParseInt"] = LibModel{Doc: "total deterministic function (value, err) of (s, base, bitSize); on success the value fits the bit size", Fn: func(e *FuncEnc, in ssa.Instruction, av []ssa.Value, a []string, rts []types.Type, res ssa.Value) bool {
		pi.Fn(e, in, av, a, rts, res)
		name := mangle("strconv.ParseInt")
		f0, f1 := "lib_"+name+"_r0", "lib_"+name+"_r1"
		for _, bs := range [][3]string{{"32", "(- 2147483648)", "2147483647"}, {"64", "(- 9223372036854775808)", "9223372036854775807"}, {"0", "(- 9223372036854775808)", "9223372036854775807"}, {"16", "(- 32768)", "32767"}, {"8", "(- 128)", "127"}} {
			e.D.Axiom("parseint-range-"+bs[0], fmt.Sprintf("(forall ((s Str) (b Int)) (! (=> (= (if_tag (%s s b %s)) 0) (and (<= %s (%s s b %s)) (<= (%s s b %s) %s))) :pattern ((%s s b %s))))", f1, bs[0], bs[1], f0, bs[0], f0, bs[0], bs[2], f0, bs[0]))
		}
		return true
	}}
	L["(*net/url.URL).Query"] = LibModel{Doc: "deterministic; returns a non-nil map in which every present key has at least one value", Fn: func(e *FuncEnc, in ssa.Instruction, av []ssa.Value, a []string, rts []types.Type, res ssa.Value) bool {
		f := e.D.UF("lib_"+mangle("(*net/url.URL).Query")+"_r0", []string{"Int"}, "Int")
		e.D.Axiom("urlquery:nonnil", "(forall ((u Int)) (! (> ("+f+" u) 0) :pattern (("+f+" u))))")
		e.setVal(res, "Int", sx(f, a[0]))
		return true
	}}
	L["(net/http.Header).Values"] = pureUF("deterministic function of (header map, key)")
	bodyFail := func(doc string, errIdx int) LibModel {
		return LibModel{Doc: doc, Event: true, WritesArgs: true, Fn: func(e *FuncEnc, in ssa.Instruction, av []ssa.Value, a []string, rts []types.Type, res ssa.Value) bool {
			rs := e.freshResults("body", rts)
			e.setResult(res, rs)
			if errIdx < len(rs) {
				e.BodyErrs = append(e.BodyErrs, and(e.curReach, not(eq(sx("if_tag", rs[errIdx]), "0"))))
			}
			for _, v := range av {
				e.havocReachable(v)
			}
			return true
		}}
	}
	L["(*encoding/json.Decoder).Decode"] = bodyFail("reads and decodes the body into the pointed value; may fail", 0)
	L["io.ReadAll"] = bodyFail("reads the body; may fail", 1)
}

func pureUF(doc string) LibModel {
	return LibModel{Doc: doc, Fn: func(e *FuncEnc, in ssa.Instruction, av []ssa.Value, a []string, rts []types.Type, res ssa.Value) bool {
		// slice arguments are abstracted to their content sequence
		name := mangle(in.(ssa.CallInstruction).Common().StaticCallee().String())
		var sorts []string
		a = append([]string{}, a...)
		for i, v := range av {
			av2, as := e.abstractArg(a[i], v.Type(), e.cur)
			a[i] = av2
			sorts = append(sorts, as)
		}
		var rs []string
		for i, t := range rts {
			fn := e.D.UF(fmt.Sprintf("lib_%s_r%d", name, i), sorts, e.D.SortOf(t))
			expr := fn
			if len(a) > 0 {
				expr = sx(fn, a...)
			}
			s := e.define(name, e.D.SortOf(t), expr)
			e.paramLikeFacts(s, t)
			rs = append(rs, s)
		}
		e.setResult(res, rs)
		return true
	}}
}

var _ = strings.Join
