package vc

import (
	"fmt"
	"go/ast"
	"go/constant"
	"go/types"

	"golang.org/x/tools/go/ssa"
)

// Ghost file system (DESIGN §4.19): FS : path -> none | some(content).
const fsPrelude = `(declare-sort Bytes 0)
(declare-const bytes_empty Bytes)
(declare-datatypes ((FState 0)) (((fs_none) (fs_some (fs_content Bytes)))))
(declare-fun overlay (Bytes Bytes) Bytes)
(assert (forall ((c Bytes)) (! (= (overlay bytes_empty c) c) :pattern ((overlay bytes_empty c)))))
(declare-fun fmtOK (Bytes) Bool)
(declare-fun fmtOut (Bytes) Bytes)
(define-fun wr ((b Bytes)) Bytes (ite (fmtOK b) (fmtOut b) b))
(declare-fun freshWrite (FState) Bool)
(assert (forall ((b Bytes)) (! (freshWrite (fs_some (fmtOut b))) :pattern ((fmtOut b)))))
(declare-fun strbytes (Str) Bytes)
(declare-fun bcontent (Slice (Array Int Int)) Bytes)
(declare-fun fh_name (Int) Str)
(declare-fun isnotexist (Iface) Bool)
`

const fsKey = "FS"
const fsSort = "(Array Str FState)"

func (e *FuncEnc) useFS() {
	e.D.add("fs-prelude", fsPrelude)
	e.D.UF("path_base", []string{"Str"}, "Str")
	e.heapSorts[fsKey] = fsSort
}

func (e *FuncEnc) fsNow(st *state) string {
	e.useFS()
	return e.heapName(st, fsKey, fsSort)
}

func (e *FuncEnc) byteHeap(st *state) string {
	t := types.Typ[types.Uint8]
	return e.heapName(st, e.D.heapKey(t), e.D.heapSort(t))
}

func (e *FuncEnc) bcontent(slice string, st *state) string {
	e.useFS()
	return sx("bcontent", slice, e.byteHeap(st))
}

func constInt(v ssa.Value) (int64, bool) {
	if c, ok := v.(*ssa.Const); ok && c.Value != nil && c.Value.Kind() == constant.Int {
		return c.Int64(), true
	}
	return 0, false
}

const (
	oCREATE = 0x40
	oTRUNC  = 0x200
	oAPPEND = 0x400
)

// FSLibrary: assumed contracts of the os / path / imports functions goag.go uses.
func FSLibrary() map[string]LibModel {
	L := map[string]LibModel{}
	fresh := func(e *FuncEnc, rts []types.Type, res ssa.Value) []string {
		rs := e.freshResults("lib", rts)
		e.setResult(res, rs)
		return rs
	}
	L["os.MkdirAll"] = LibModel{Doc: "creates directories only: no file content changes", Fn: func(e *FuncEnc, in ssa.Instruction, av []ssa.Value, a []string, rts []types.Type, res ssa.Value) bool {
		e.useFS()
		fresh(e, rts, res)
		return true
	}}
	L["os.OpenFile"] = LibModel{Doc: "on success: O_TRUNC => content empty; O_CREATE on a missing file => empty; otherwise unchanged; handle remembers the name; on failure nothing changes", ModKeys: []string{fsKey}, Fn: func(e *FuncEnc, in ssa.Instruction, av []ssa.Value, a []string, rts []types.Type, res ssa.Value) bool {
		fs := e.fsNow(e.cur)
		rs := fresh(e, rts, res)
		f, err := rs[0], rs[1]
		ok := eq(sx("if_tag", err), "0")
		name := a[0]
		old := sx("select", fs, name)
		var newState string
		if flag, isConst := constInt(av[1]); isConst {
			switch {
			case flag&oTRUNC != 0 && flag&oCREATE != 0:
				newState = "(fs_some bytes_empty)"
			case flag&oTRUNC != 0:
				newState = ite(eq(old, "fs_none"), "fs_none", "(fs_some bytes_empty)")
			case flag&oCREATE != 0:
				newState = ite(eq(old, "fs_none"), "(fs_some bytes_empty)", old)
			default:
				newState = old
			}
			if flag&oAPPEND != 0 {
				e.Assumed["os.OpenFile with O_APPEND: writes are modelled at offset 0 (not supported)"] = true
			}
		} else {
			newState = e.newSym("openstate", "FState")
		}
		e.setHeap(e.cur, fsKey, fsSort, ite(ok, sx("store", fs, name, newState), fs))
		e.assume(e.curReach, implies(ok, and(not(eq(f, "0")), eq(sx("fh_name", f), name))))
		return true
	}}
	L["(*os.File).Write"] = LibModel{Doc: "first write after open, at offset 0: on success the content becomes overlay(old, bytes); on failure the file content is unspecified, other files unchanged", ModKeys: []string{fsKey}, Fn: func(e *FuncEnc, in ssa.Instruction, av []ssa.Value, a []string, rts []types.Type, res ssa.Value) bool {
		fs := e.fsNow(e.cur)
		rs := fresh(e, rts, res)
		ok := eq(sx("if_tag", rs[1]), "0")
		name := sx("fh_name", a[0])
		old := sx("select", fs, name)
		c := e.bcontent(a[1], e.cur)
		junk := e.newSym("partial", "FState")
		e.setHeap(e.cur, fsKey, fsSort, sx("store", fs, name, ite(ok, sx("fs_some", sx("overlay", sx("fs_content", old), c)), junk)))
		return true
	}}
	L["(*os.File).Close"] = LibModel{Doc: "no content change", Fn: func(e *FuncEnc, in ssa.Instruction, av []ssa.Value, a []string, rts []types.Type, res ssa.Value) bool {
		e.useFS()
		fresh(e, rts, res)
		return true
	}}
	L["os.Remove"] = LibModel{Doc: "success => the name is gone; IsNotExist(err) => it was not there; any failure changes nothing", ModKeys: []string{fsKey}, Fn: func(e *FuncEnc, in ssa.Instruction, av []ssa.Value, a []string, rts []types.Type, res ssa.Value) bool {
		fs := e.fsNow(e.cur)
		rs := fresh(e, rts, res)
		ok := eq(sx("if_tag", rs[0]), "0")
		e.setHeap(e.cur, fsKey, fsSort, ite(ok, sx("store", fs, a[0], "fs_none"), fs))
		e.assume(e.curReach, implies(and(not(ok), sx("isnotexist", rs[0])), eq(sx("select", fs, a[0]), "fs_none")))
		return true
	}}
	L["os.IsNotExist"] = LibModel{Doc: "a predicate of the error value", Fn: func(e *FuncEnc, in ssa.Instruction, av []ssa.Value, a []string, rts []types.Type, res ssa.Value) bool {
		e.useFS()
		e.setVal(res, "Bool", sx("isnotexist", a[0]))
		return true
	}}
	L["golang.org/x/tools/imports.Process"] = LibModel{Doc: "err == nil iff the source parses (fmtOK); the result is its formatted form fmtOut(src); deterministic", Fn: func(e *FuncEnc, in ssa.Instruction, av []ssa.Value, a []string, rts []types.Type, res ssa.Value) bool {
		e.useFS()
		rs := fresh(e, rts, res)
		src := e.bcontent(a[1], e.cur)
		ok := eq(sx("if_tag", rs[1]), "0")
		e.assume(e.curReach, eq(ok, sx("fmtOK", src)))
		e.assume(e.curReach, implies(ok, eq(e.bcontent(rs[0], e.cur), sx("fmtOut", src))))
		return true
	}}
	return L
}

func init() {
	// spec functions of the ghost file system
	specConsts["fs"] = func(env *cenv) (tv, error) {
		return tv{s: env.e.fsNow(env.st), srt: "FS"}, nil
	}
	specConsts["none"] = func(env *cenv) (tv, error) {
		env.e.useFS()
		return tv{s: "fs_none", srt: "FState"}, nil
	}
	un := func(name, smt, res string) {
		specFuncs[name] = func(env *cenv, a []tv, _ *ast.CallExpr) (tv, error) {
			env.e.useFS()
			return tv{s: sx(smt, a[0].s), srt: res}, nil
		}
	}
	un("some", "fs_some", "FState")
	un("fmtOK", "fmtOK", "Bool")
	un("fmtOut", "fmtOut", "Bytes")
	un("wr", "wr", "Bytes")
	un("strbytes", "strbytes", "Bytes")
	un("freshWrite", "freshWrite", "Bool")
	un("isSome", "(_ is fs_some)", "Bool")
	specFuncs["content"] = func(env *cenv, a []tv, _ *ast.CallExpr) (tv, error) {
		return tv{s: env.e.bcontent(a[0].s, env.st), srt: "Bytes"}, nil
	}
	specFuncs["pathJoin"] = func(env *cenv, a []tv, _ *ast.CallExpr) (tv, error) {
		return tv{s: env.e.pathJoinTerm(a[0].s, a[1].s), t: types.Typ[types.String], srt: "Str"}, nil
	}
}

// pathJoinTerm mirrors the pure library model of path.Join on two elements.
func (e *FuncEnc) pathJoinTerm(a, b string) string {
	e.useFS()
	e.D.needSeq()
	strT := types.Typ[types.String]
	f := e.D.UF("lib_"+mangle("path.Join")+"_r0", []string{"GSeq"}, "Str")
	t := sx(f, e.D.SeqLit([]string{e.boxed(a, strT), e.boxed(b, strT)}))
	// the last element (a plain file name) is recoverable: Join is injective in it
	e.emit(fmt.Sprintf("(assert (= (path_base %s) %s))", t, b))
	e.Assumed["path.Join(dir, name) determines name for plain file names (injective in its last element)"] = true
	return t
}
