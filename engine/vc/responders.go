package vc

import (
	"go/types"
	"strings"

	"golang.org/x/tools/go/ssa"
)

// Responder family (DESIGN §4.14, "exactly one response"): every emitted
// function that answers a request writes the status line exactly once or
// delegates exactly once to one handler:
//
//	emitted func *(w http.ResponseWriter, r *http.Request)       ensures nResp(trace) == nResp(old(trace)) + 1
//	emitted func (*).Write(w http.ResponseWriter [, code int])   ensures nResp(trace) == nResp(old(trace)) + 1
//	emitted func (*).write<Op>(w http.ResponseWriter)            ensures nResp(trace) == nResp(old(trace)) + 1

func isResponder(f *ssa.Function) bool {
	sig := f.Signature
	ps := sig.Params()
	if ps.Len() == 2 && isNamed(ps.At(0).Type(), "net/http", "ResponseWriter") && isHTTPRequestPtr(ps.At(1).Type()) && sig.Results().Len() == 0 {
		return true
	}
	if sig.Recv() != nil && (f.Name() == "Write" || strings.HasPrefix(f.Name(), "write")) && ps.Len() >= 1 && isNamed(ps.At(0).Type(), "net/http", "ResponseWriter") && sig.Results().Len() == 0 {
		return true
	}
	return false
}

// InstallResponderContracts marks responders and gives them the nResp clause.
func InstallResponderContracts(em *Emitted) {
	// writeJSON(w, v, name): an array body declared in place (a Go slice) must not
	// be handed over as a nil slice: it would be written as null, which an array
	// schema that is not nullable does not allow (C07, last sentence; C02)
	if wj := em.Func("writeJSON"); wj != nil {
		if c := em.W.ContractFor(wj); c != nil && c.ArgHook == nil {
			c.ArgHook = func(e *FuncEnc, argVals []ssa.Value, args []string) []NamedFormula {
				if len(argVals) < 2 {
					return nil
				}
				mi, ok := argVals[1].(*ssa.MakeInterface)
				if !ok {
					return nil
				}
				sl, ok := mi.X.Type().(*types.Slice)
				if !ok {
					return nil
				}
				if b, ok := sl.Elem().Underlying().(*types.Basic); ok && b.Kind() == types.Uint8 {
					return nil
				}
				return []NamedFormula{{Name: "array-body-not-nil", Props: []string{"C02", "C07"}, Formula: not(eq(sx("sl_base", e.v(mi.X)), "0"))}}
			}
		}
	}
	for _, f := range em.W.Functions() {
		if !isResponder(f) || strings.Contains(f.String(), "Client") {
			continue
		}
		key := f.String()
		if o := f.Origin(); o != nil {
			key = o.String()
		}
		c := em.W.ContractFor(f)
		if c == nil {
			c = &Contract{Name: key, Emitted: true, LoopInv: map[int][]*Clause{}, LoopDec: map[int]*Clause{}, Options: map[string]string{}}
			em.W.Contracts[key] = c
		}
		if c.Options == nil {
			c.Options = map[string]string{}
		}
		if c.Options["responder"] == "true" {
			continue
		}
		c.Options["responder"] = "true"
		c.TraceSpecified = true
		prevRet := c.RetHook
		c.RetHook = func(e *FuncEnc, results []string) []NamedFormula {
			var out []NamedFormula
			if prevRet != nil {
				out = prevRet(e, results)
			}
			e.D.UF("nResp", []string{"Trace"}, "Int")
			return append(out, NamedFormula{Name: "ensures#oneResponse", Props: []string{"C14"}, Formula: eq(sx("nResp", e.cur.trace), sx("+", sx("nResp", e.entry.trace), "1"))})
		}
		prevPost := c.PostHook
		c.PostHook = func(e *FuncEnc, args, results []string, pre, post *state) []NamedFormula {
			var out []NamedFormula
			if prevPost != nil {
				out = prevPost(e, args, results, pre, post)
			}
			e.D.UF("nResp", []string{"Trace"}, "Int")
			return append(out, NamedFormula{Name: "ensures#oneResponse", Formula: eq(sx("nResp", post.trace), sx("+", sx("nResp", pre.trace), "1"))})
		}
	}
	em.W.InvokeSummary = func(e *FuncEnc, cc *ssa.CallCommon) bool {
		impls := em.implementers(cc)
		if len(impls) == 0 {
			return false
		}
		for _, g := range impls {
			c := em.W.ContractFor(g)
			if c == nil || c.Options["responder"] != "true" {
				return false
			}
		}
		// every implementer is a responder: one response, nothing else observable
		e.D.UF("nResp", []string{"Trace"}, "Int")
		old := e.cur.trace
		e.cur.trace = e.newSym("tr", "Trace")
		e.assume(e.curReach, eq(sx("nResp", e.cur.trace), sx("+", sx("nResp", old), "1")))
		e.Assumed["sealed interface "+shortType(cc.Value.Type())+": every implementer in the package satisfies the responder contract (checked per implementer)"] = true
		return true
	}
}

// implementers of the invoked method among the package's own named types;
// nil if the interface is not sealed (exported method or foreign interface).
func (em *Emitted) implementers(cc *ssa.CallCommon) []*ssa.Function {
	it, ok := cc.Value.Type().(*types.Named)
	if !ok || it.Obj().Pkg() == nil || it.Obj().Pkg().Path() != "emitted" {
		return nil
	}
	iface, ok := it.Underlying().(*types.Interface)
	if !ok || cc.Method.Exported() {
		return nil
	}
	var out []*ssa.Function
	scope := em.Pkg.Pkg.Scope()
	for _, name := range scope.Names() {
		tn, ok := scope.Lookup(name).(*types.TypeName)
		if !ok || tn.IsAlias() {
			continue
		}
		for _, t := range []types.Type{tn.Type(), types.NewPointer(tn.Type())} {
			if _, isIface := tn.Type().Underlying().(*types.Interface); isIface {
				continue
			}
			if !types.Implements(t, iface) {
				continue
			}
			sel := em.W.Prog.MethodSets.MethodSet(t).Lookup(cc.Method.Pkg(), cc.Method.Name())
			if sel == nil {
				continue
			}
			if fn := em.W.Prog.MethodValue(sel); fn != nil {
				out = append(out, fn)
			}
			break
		}
	}
	return out
}
