package vc

import (
	"go/types"
	"strconv"
	"strings"
	"time"

	"golang.org/x/tools/go/ssa"
)

// Thin contract of the JSON methods of date-time components
// (`type Stamp time.Time` with MarshalJSON / UnmarshalJSON of its own; family
// `json-time-component`, declared in generator/contracts_emitted_verif.go):
//
//	every formatting / parsing call of the codec uses the layout the schema
//	declares: the value of `x-goag-go-time-format` when present, RFC 3339
//	(time.RFC3339Nano) otherwise.
//
// The inline form of the same schema is specified by valueOK / decode terms
// with the same layout (timeLayoutOf), so a `$ref` to such a component and its
// inline copy are held to one wire format (C18), the member clauses of C07 /
// C08 and the round trip of C06 then speak about the same text. What stays
// assumed: that the codec hands the formatted string to json.Marshal and
// stores the parsed value (the functions are three statements long; their
// data flow is not part of the obligation).

var stdTimeLayouts = map[string]string{
	"time.Layout": time.Layout, "time.ANSIC": time.ANSIC, "time.UnixDate": time.UnixDate, "time.RubyDate": time.RubyDate,
	"time.RFC822": time.RFC822, "time.RFC822Z": time.RFC822Z, "time.RFC850": time.RFC850, "time.RFC1123": time.RFC1123,
	"time.RFC1123Z": time.RFC1123Z, "time.RFC3339": time.RFC3339, "time.RFC3339Nano": time.RFC3339Nano, "time.Kitchen": time.Kitchen,
	"time.Stamp": time.Stamp, "time.StampMilli": time.StampMilli, "time.StampMicro": time.StampMicro, "time.StampNano": time.StampNano,
	"time.DateTime": time.DateTime, "time.DateOnly": time.DateOnly, "time.TimeOnly": time.TimeOnly,
}

// timeLayoutOf: the layout a date-time schema declares (a Go expression in
// `x-goag-go-time-format`: a constant of package time or a string literal).
func timeLayoutOf(s *RefSchema) (string, bool) {
	if s == nil || s.Raw == nil {
		return time.RFC3339Nano, true
	}
	v, ok := s.Raw["x-goag-go-time-format"]
	if !ok {
		return time.RFC3339Nano, true
	}
	expr, ok := v.(string)
	if !ok {
		return "", false
	}
	expr = strings.TrimSpace(expr)
	if l, ok := stdTimeLayouts[expr]; ok {
		return l, true
	}
	if l, err := strconv.Unquote(expr); err == nil {
		return l, true
	}
	return "", false
}

// CheckTimeCodecs verifies the layout obligations of every date-time component
// of the package. Returns the number of functions put under the contract.
func (cr *CheckRun) CheckTimeCodecs(job *EmittedJob) int {
	em := job.Em
	comps := em.Ref.ComponentSchemas()
	byNorm := map[string]*RefSchema{}
	for k, s := range comps {
		byNorm[normName(k)] = s
	}
	n := 0
	for _, f := range em.W.Functions() {
		if f.Parent() != nil || f.Signature.Recv() == nil || (f.Name() != "MarshalJSON" && f.Name() != "UnmarshalJSON") {
			continue
		}
		rt := f.Signature.Recv().Type()
		if p, ok := rt.(*types.Pointer); ok {
			rt = p.Elem()
		}
		nt, ok := types.Unalias(rt).(*types.Named)
		if !ok || !isTimeComponent(nt) {
			continue
		}
		s := byNorm[normName(nt.Obj().Name())]
		if s == nil || s.Type != "string" {
			continue
		}
		layout, ok := timeLayoutOf(s)
		if !ok {
			cr.Note("%s: %s: the declared time layout is not a constant of package time or a string literal; codec not under contract", em.Entry.Name, relName(f))
			continue
		}
		prop := "C07"
		if f.Name() == "UnmarshalJSON" {
			prop = "C08"
		}
		e := job.enc(f)
		e.NoSafety = true
		sources := 0
		e.CallHook = func(e *FuncEnc, in ssa.Instruction, name string, argVals []ssa.Value, args []string) {
			var used string
			switch name {
			case "(time.Time).Format", "(time.Time).AppendFormat":
				if len(args) < 2 {
					return
				}
				used = args[len(args)-1]
				if name == "(time.Time).AppendFormat" {
					used = args[2]
				}
			case "time.Parse", "time.ParseInLocation":
				if len(args) < 2 {
					return
				}
				used = args[0]
			case "(time.Time).MarshalJSON", "(time.Time).MarshalText", "(*time.Time).UnmarshalJSON", "(*time.Time).UnmarshalText":
				// the methods of time.Time are fixed to RFC 3339
				used = e.D.Lit(time.RFC3339Nano)
			default:
				return
			}
			sources++
			e.obligeNamed("call:"+strings.TrimLeft(name[strings.LastIndex(name, ".")+1:], ")")+"/declared-layout", "t"+itoa(int64(sources)), eq(used, e.D.Lit(layout)), in.Pos())
			o := e.Obls[len(e.Obls)-1]
			o.Props = []string{prop, "C06", "C18"}
		}
		cr.VerifyFunc(e, em.Entry.Name, nil, nil)
		if sources == 0 {
			cr.Note("%s: %s formats / parses through no call the layout contract knows: not under contract", em.Entry.Name, relName(f))
			continue
		}
		n++
	}
	return n
}

// CheckTimeCodecEntries: the layout contract alone, for corpus programs whose
// member clauses are not claimed for the property of the run.
func (cr *CheckRun) CheckTimeCodecEntries(entries []CorpusEntry) {
	if len(entries) == 0 {
		return
	}
	bin, err := BuildGoag(cr.Repo, cr.Scratch)
	if err != nil {
		cr.EngineErrors = append(cr.EngineErrors, err.Error())
		return
	}
	cr.RunEntries(bin, entries, false, func(string) bool { return false }, func(job *EmittedJob) {
		if job.Em.W == nil || job.Em.LoadErr != nil || job.Em.GenErr != nil {
			return
		}
		cr.CheckTimeCodecs(job)
	})
}
