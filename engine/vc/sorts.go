package vc

import (
	"crypto/sha1"
	"fmt"
	"go/types"
	"sort"
	"strings"
)

// Decls accumulates the declarations of one SMT script in dependency order.
type Decls struct {
	lines    []string
	seen     map[string]bool
	sortName map[string]string // canonical type string -> sort name
	lits     map[string]string // literal content -> symbol
	litOrder []string
	tagIDs   map[string]int
	tagOrder []string
	// assumptions used (reported in evidence)
	Used map[string]bool
}

func NewDecls() *Decls {
	d := &Decls{seen: map[string]bool{}, sortName: map[string]string{}, lits: map[string]string{}, tagIDs: map[string]int{}, Used: map[string]bool{}}
	d.lines = append(d.lines, prelude)
	return d
}

func (d *Decls) add(key, line string) {
	if d.seen[key] {
		return
	}
	d.seen[key] = true
	d.lines = append(d.lines, line)
}

func (d *Decls) String() string {
	var b strings.Builder
	for _, l := range d.lines {
		b.WriteString(l)
		b.WriteByte('\n')
	}
	// literal distinctness
	if len(d.litOrder) > 1 {
		var syms []string
		for _, c := range d.litOrder {
			syms = append(syms, d.lits[c])
		}
		b.WriteString("(assert (distinct " + strings.Join(syms, " ") + "))\n")
	}
	return b.String()
}

const prelude = `(set-option :smt.mbqi false)
(set-option :auto_config false)
(declare-sort Str 0)
(declare-fun slen (Str) Int)
(declare-fun sat (Str Int) Int)
(declare-fun ssub (Str Int Int) Str)
(declare-fun scat (Str Str) Str)
(declare-const str_empty Str)
(assert (= (slen str_empty) 0))
(assert (forall ((s Str)) (! (>= (slen s) 0) :pattern ((slen s)))))
(assert (forall ((s Str)) (! (=> (= (slen s) 0) (= s str_empty)) :pattern ((slen s)))))
(assert (forall ((s Str) (i Int)) (! (and (<= 0 (sat s i)) (< (sat s i) 256)) :pattern ((sat s i)))))
(assert (forall ((s Str) (lo Int) (hi Int)) (! (=> (and (<= 0 lo) (<= lo hi) (<= hi (slen s))) (= (slen (ssub s lo hi)) (- hi lo))) :pattern ((ssub s lo hi)))))
(assert (forall ((s Str) (lo Int) (hi Int) (i Int)) (! (=> (and (<= 0 lo) (<= lo hi) (<= hi (slen s)) (<= 0 i) (< i (- hi lo))) (= (sat (ssub s lo hi) i) (sat s (+ lo i)))) :pattern ((sat (ssub s lo hi) i)))))
(assert (forall ((s Str) (lo Int) (hi Int) (k Int)) (! (=> (and (<= 0 lo) (<= lo k) (< k hi) (<= hi (slen s))) (= (sat (ssub s lo hi) (- k lo)) (sat s k))) :pattern ((ssub s lo hi) (sat s k)))))
(assert (forall ((s Str)) (! (= (ssub s 0 (slen s)) s) :pattern ((ssub s 0 (slen s))))))
(assert (forall ((s Str) (i Int)) (! (= (ssub s i i) str_empty) :pattern ((ssub s i i)))))
(assert (forall ((s Str) (a Int) (b Int) (c Int) (d Int)) (! (=> (and (<= 0 a) (<= a b) (<= b (slen s)) (<= 0 c) (<= c d) (<= d (- b a))) (= (ssub (ssub s a b) c d) (ssub s (+ a c) (+ a d)))) :pattern ((ssub (ssub s a b) c d)))))
(assert (forall ((a Str) (b Str)) (! (= (slen (scat a b)) (+ (slen a) (slen b))) :pattern ((scat a b)))))
(assert (forall ((a Str) (b Str) (i Int)) (! (=> (and (<= 0 i) (< i (slen a))) (= (sat (scat a b) i) (sat a i))) :pattern ((sat (scat a b) i)))))
(assert (forall ((a Str) (b Str) (i Int)) (! (=> (and (<= (slen a) i) (< i (+ (slen a) (slen b)))) (= (sat (scat a b) i) (sat b (- i (slen a))))) :pattern ((sat (scat a b) i)))))
(assert (forall ((a Str)) (! (= (scat a str_empty) a) :pattern ((scat a str_empty)))))
(assert (forall ((a Str)) (! (= (scat str_empty a) a) :pattern ((scat str_empty a)))))
(assert (forall ((a Str) (b Str)) (! (= (ssub (scat a b) 0 (slen a)) a) :pattern ((scat a b)))))
(assert (forall ((a Str) (b Str)) (! (= (ssub (scat a b) (slen a) (slen (scat a b))) b) :pattern ((scat a b)))))
; strings.Index with a one-byte separator
(declare-fun sidx (Str Int) Int)
(assert (forall ((s Str) (c Int)) (! (and (>= (sidx s c) (- 1)) (< (sidx s c) (slen s)) (=> (>= (sidx s c) 0) (= (sat s (sidx s c)) c))) :pattern ((sidx s c)))))
(assert (forall ((s Str) (c Int) (j Int)) (! (=> (and (<= 0 j) (< j (slen s)) (or (< j (sidx s c)) (= (sidx s c) (- 1)))) (not (= (sat s j) c))) :pattern ((sidx s c) (sat s j)))))
; segment end: least j >= 1 with s[j] == '/' (else len s)
(declare-fun segend (Str) Int)
(assert (forall ((s Str)) (! (=> (>= (slen s) 1) (and (<= 1 (segend s)) (<= (segend s) (slen s)) (=> (< (segend s) (slen s)) (= (sat s (segend s)) 47)))) :pattern ((segend s)))))
(assert (forall ((s Str) (j Int)) (! (=> (and (<= 1 j) (< j (segend s)) (>= (slen s) 1)) (not (= (sat s j) 47))) :pattern ((segend s) (sat s j)))))
; segment end at an absolute position: least j > i with s[j] == '/' (else len s)
(declare-fun segat (Str Int) Int)
(assert (forall ((s Str) (i Int)) (! (=> (and (<= 0 i) (< i (slen s))) (and (< i (segat s i)) (<= (segat s i) (slen s)) (=> (< (segat s i) (slen s)) (= (sat s (segat s i)) 47)))) :pattern ((segat s i)))))
(assert (forall ((s Str) (i Int) (j Int)) (! (=> (and (<= 0 i) (< i j) (< j (segat s i)) (< i (slen s))) (not (= (sat s j) 47))) :pattern ((segat s i) (sat s j)))))
(define-fun startsSlash ((s Str)) Bool (and (>= (slen s) 1) (= (sat s 0) 47)))
(define-fun sfirst ((s Str)) Str (ite (startsSlash s) (ssub s 0 (segend s)) s))
(define-fun srest ((s Str)) Str (ite (startsSlash s) (ssub s (segend s) (slen s)) str_empty))
; uninterpreted string library
(declare-fun str_lt (Str Str) Bool)
(declare-fun str_hasprefix (Str Str) Bool)
(declare-fun str_hassuffix (Str Str) Bool)
(assert (forall ((s Str) (p Str)) (! (=> (str_hasprefix s p) (>= (slen s) (slen p))) :pattern ((str_hasprefix s p)))))
(assert (forall ((s Str) (p Str)) (! (=> (str_hassuffix s p) (>= (slen s) (slen p))) :pattern ((str_hassuffix s p)))))
; references
(declare-fun akind (Int) Int)
(declare-fun atime (Int) Int)
(declare-const T0 Int)
(declare-fun elem (Int Int) Int)
(declare-fun elem_base (Int) Int)
(declare-fun elem_idx (Int) Int)
(assert (forall ((b Int) (i Int)) (! (and (= (elem_base (elem b i)) b) (= (elem_idx (elem b i)) i) (= (akind (elem b i)) 1) (not (= (elem b i) 0)) (= (atime (elem b i)) (atime b))) :pattern ((elem b i)))))
(declare-datatypes ((Slice 0)) (((mk_slice (sl_base Int) (sl_off Int) (sl_len Int) (sl_cap Int)))))
(define-fun slice_nil () Slice (mk_slice 0 0 0 0))
(declare-datatypes ((Iface 0)) (((mk_iface (if_tag Int) (if_val Int)))))
(define-fun iface_nil () Iface (mk_iface 0 0))
(declare-fun implements (Int Int) Bool)
(declare-sort Trace 0)
(declare-sort Event 0)
(declare-const tr_nil Trace)
(declare-fun tr_cons (Trace Event) Trace)
(declare-fun tr_len (Trace) Int)
(assert (= (tr_len tr_nil) 0))
(assert (forall ((t Trace) (e Event)) (! (and (= (tr_len (tr_cons t e)) (+ 1 (tr_len t))) (not (= (tr_cons t e) tr_nil))) :pattern ((tr_cons t e)))))
(declare-fun tr_head (Trace) Event)
(declare-fun tr_tail (Trace) Trace)
(assert (forall ((t Trace) (e Event)) (! (and (= (tr_head (tr_cons t e)) e) (= (tr_tail (tr_cons t e)) t)) :pattern ((tr_cons t e)))))
(assert (forall ((t Trace)) (! (>= (tr_len t) 0) :pattern ((tr_len t)))))
`

func mangle(s string) string {
	var b strings.Builder
	for _, r := range s {
		switch {
		case r >= 'a' && r <= 'z', r >= 'A' && r <= 'Z', r >= '0' && r <= '9', r == '_':
			b.WriteRune(r)
		case r == '.' || r == '/':
			b.WriteByte('_')
		case r == '*':
			b.WriteString("P")
		case r == '[' || r == ']':
			b.WriteString("S")
		default:
			b.WriteByte('_')
		}
	}
	out := b.String()
	if len(out) > 60 {
		h := sha1.Sum([]byte(s))
		out = out[len(out)-48:] + fmt.Sprintf("_%x", h[:4])
	} else if out != s {
		h := sha1.Sum([]byte(s))
		out = out + fmt.Sprintf("_%x", h[:3])
	}
	return out
}

func typeKey(t types.Type) string {
	t = types.Unalias(t)
	return types.TypeString(t, func(p *types.Package) string { return p.Path() })
}

// SortOf maps a Go type to an SMT sort, declaring datatypes on demand.
func (d *Decls) SortOf(t types.Type) string {
	switch u := t.(type) {
	case *types.Named:
		if _, ok := u.Underlying().(*types.Struct); ok {
			return d.structSort(u, u.Underlying().(*types.Struct))
		}
		return d.SortOf(u.Underlying())
	case *types.Alias:
		return d.SortOf(types.Unalias(u))
	case *types.Basic:
		switch {
		case u.Info()&types.IsBoolean != 0:
			return "Bool"
		case u.Info()&types.IsInteger != 0:
			return "Int"
		case u.Info()&types.IsFloat != 0:
			return "Real"
		case u.Info()&types.IsString != 0:
			return "Str"
		case u.Kind() == types.UnsafePointer:
			return "Int"
		case u.Kind() == types.UntypedNil:
			return "Int"
		}
		return "Int"
	case *types.Pointer, *types.Map, *types.Chan, *types.Signature:
		return "Int"
	case *types.Slice:
		return "Slice"
	case *types.Interface:
		return "Iface"
	case *types.Struct:
		return d.structSort(t, u)
	case *types.Array:
		return "(Array Int " + d.SortOf(u.Elem()) + ")"
	case *types.Tuple:
		return "Int" // never used as a value
	case *types.TypeParam:
		return "Int"
	}
	return "Int"
}

func (d *Decls) structSort(t types.Type, st *types.Struct) string {
	key := typeKey(t)
	if n, ok := d.sortName[key]; ok {
		return n
	}
	name := "S_" + mangle(key)
	d.sortName[key] = name
	if st.NumFields() == 0 {
		d.add("sort:"+name, fmt.Sprintf("(declare-datatypes ((%s 0)) (((mk_%s))))", name, name))
		return name
	}
	var fs []string
	for i := 0; i < st.NumFields(); i++ {
		fs = append(fs, fmt.Sprintf("(%s %s)", d.fieldSel(name, st, i), d.SortOf(st.Field(i).Type())))
	}
	d.add("sort:"+name, fmt.Sprintf("(declare-datatypes ((%s 0)) (((mk_%s %s))))", name, name, strings.Join(fs, " ")))
	return name
}

func (d *Decls) fieldSel(sortName string, st *types.Struct, i int) string {
	return fmt.Sprintf("f%d_%s_%s", i, mangle(st.Field(i).Name()), strings.TrimPrefix(sortName, "S_"))
}

// FieldSelector returns the selector function for field i of struct type t.
func (d *Decls) FieldSelector(t types.Type, i int) string {
	st := t.Underlying().(*types.Struct)
	name := d.SortOf(t)
	return d.fieldSel(name, st, i)
}

// Zero returns the zero value of a Go type.
func (d *Decls) Zero(t types.Type) string {
	switch u := t.(type) {
	case *types.Named:
		if st, ok := u.Underlying().(*types.Struct); ok {
			return d.zeroStruct(u, st)
		}
		return d.Zero(u.Underlying())
	case *types.Alias:
		return d.Zero(types.Unalias(u))
	case *types.Basic:
		switch d.SortOf(u) {
		case "Bool":
			return "false"
		case "Int":
			return "0"
		case "Real":
			return "0.0"
		case "Str":
			return "str_empty"
		}
	case *types.Slice:
		return "slice_nil"
	case *types.Interface:
		return "iface_nil"
	case *types.Struct:
		return d.zeroStruct(t, u)
	case *types.Array:
		return fmt.Sprintf("((as const %s) %s)", d.SortOf(t), d.Zero(u.Elem()))
	}
	return "0"
}

func (d *Decls) zeroStruct(t types.Type, st *types.Struct) string {
	name := d.SortOf(t)
	if st.NumFields() == 0 {
		return "mk_" + name
	}
	var fs []string
	for i := 0; i < st.NumFields(); i++ {
		fs = append(fs, d.Zero(st.Field(i).Type()))
	}
	return "(mk_" + name + " " + strings.Join(fs, " ") + ")"
}

// heapKey names the typed heap that holds values of pointee type t.
func (d *Decls) heapKey(t types.Type) string {
	// key by underlying type for non-struct named types (pointer conversions)
	switch u := t.(type) {
	case *types.Named:
		if _, ok := u.Underlying().(*types.Struct); !ok {
			return d.heapKey(u.Underlying())
		}
	case *types.Alias:
		return d.heapKey(types.Unalias(u))
	}
	return "H_" + mangle(typeKey(t))
}

func (d *Decls) heapSort(t types.Type) string {
	return "(Array Int " + d.SortOf(t) + ")"
}

// Field-address function for field i of struct type t: Int -> Int, injective,
// never nil, with its own kind tag.
func (d *Decls) FieldAddrFn(t types.Type, i int) string {
	st := t.Underlying().(*types.Struct)
	name := fmt.Sprintf("fld_%s_%d_%s", strings.TrimPrefix(d.SortOf(t), "S_"), i, mangle(st.Field(i).Name()))
	if !d.seen["fn:"+name] {
		kind := 10 + len(d.tagOrder) + d.countPrefix("fn:fld_")
		d.add("fn:"+name, fmt.Sprintf("(declare-fun %s (Int) Int)\n(declare-fun %s_inv (Int) Int)\n(assert (forall ((p Int)) (! (and (= (%s_inv (%s p)) p) (= (akind (%s p)) %d) (not (= (%s p) 0)) (= (atime (%s p)) (atime p))) :pattern ((%s p)))))",
			name, name, name, name, name, kind, name, name, name))
	}
	return name
}

func (d *Decls) countPrefix(p string) int {
	n := 0
	for k := range d.seen {
		if strings.HasPrefix(k, p) {
			n++
		}
	}
	return n
}

// Lit returns the symbol of a string literal, declaring it with its length
// and bytes.
func (d *Decls) Lit(s string) string {
	if s == "" {
		return "str_empty"
	}
	if sym, ok := d.lits[s]; ok {
		return sym
	}
	if len(d.litOrder) == 0 {
		d.lits[""] = "str_empty"
		d.litOrder = append(d.litOrder, "")
	}
	h := sha1.Sum([]byte(s))
	pre := mangleShort(s)
	sym := fmt.Sprintf("lit_%s_%x", pre, h[:3])
	d.lits[s] = sym
	d.litOrder = append(d.litOrder, s)
	var b strings.Builder
	fmt.Fprintf(&b, "(declare-const %s Str)\n(assert (= (slen %s) %d))", sym, sym, len(s))
	if len(s) <= 96 {
		for i := 0; i < len(s); i++ {
			fmt.Fprintf(&b, "\n(assert (= (sat %s %d) %d))", sym, i, s[i])
		}
	}
	d.add("lit:"+sym, b.String())
	return sym
}

func mangleShort(s string) string {
	var b strings.Builder
	for _, r := range s {
		if (r >= 'a' && r <= 'z') || (r >= 'A' && r <= 'Z') || (r >= '0' && r <= '9') {
			b.WriteRune(r)
		} else {
			b.WriteByte('_')
		}
		if b.Len() >= 16 {
			break
		}
	}
	return b.String()
}

// TypeTag returns the integer tag of a dynamic type (for interfaces).
func (d *Decls) TypeTag(t types.Type) int {
	k := typeKey(t)
	if id, ok := d.tagIDs[k]; ok {
		return id
	}
	id := len(d.tagOrder) + 1
	d.tagIDs[k] = id
	d.tagOrder = append(d.tagOrder, k)
	return id
}

// Box / Unbox functions between a sort and the Int payload of interfaces.
func (d *Decls) Box(t types.Type) (box, unbox string) {
	s := d.SortOf(t)
	if s == "Int" {
		return "", ""
	}
	n := mangle(s)
	box, unbox = "box_"+n, "unbox_"+n
	d.add("box:"+n, fmt.Sprintf("(declare-fun %s (%s) Int)\n(declare-fun %s (Int) %s)\n(assert (forall ((x %s)) (! (= (%s (%s x)) x) :pattern ((%s x)))))", box, s, unbox, s, s, unbox, box, box))
	return
}

// UF declares an uninterpreted function once.
func (d *Decls) UF(name string, args []string, res string) string {
	d.add("uf:"+name, fmt.Sprintf("(declare-fun %s (%s) %s)", name, strings.Join(args, " "), res))
	return name
}

func (d *Decls) Const(name, sort string) string {
	d.add("c:"+name, fmt.Sprintf("(declare-const %s %s)", name, sort))
	return name
}

func (d *Decls) Axiom(key, ax string) {
	d.add("ax:"+key, "(assert "+ax+")")
}

func sortedKeys[V any](m map[string]V) []string {
	var ks []string
	for k := range m {
		ks = append(ks, k)
	}
	sort.Strings(ks)
	return ks
}

// LitText: the text of a literal symbol (reverse of Lit).
func (d *Decls) LitText(sym string) (string, bool) {
	if sym == "str_empty" {
		return "", true
	}
	for t, s := range d.lits {
		if s == sym {
			return t, true
		}
	}
	return "", false
}

// MapLen: the length of a map as a function of its key set (sort ks), with the
// facts that make len(m) == 0 and "m has no key" the same thing.
func (d *Decls) MapLen(ks string) string {
	f := d.UF("maplen_"+mangle(ks), []string{fmt.Sprintf("(Array %s Bool)", ks)}, "Int")
	d.Axiom("maplen_"+mangle(ks), fmt.Sprintf("(forall ((a (Array %s Bool))) (! (>= (%s a) 0) :pattern ((%s a))))", ks, f, f))
	d.Axiom("maplen0_"+mangle(ks), fmt.Sprintf("(= (%s ((as const (Array %s Bool)) false)) 0)", f, ks))
	// a map with a key has positive length
	d.Axiom("maplenpos_"+mangle(ks), fmt.Sprintf("(forall ((a (Array %s Bool)) (k %s)) (! (=> (select a k) (> (%s a) 0)) :pattern ((select a k) (%s a))))", ks, ks, f, f))
	// a map of positive length has a key
	wit := d.UF("mapwit_"+mangle(ks), []string{fmt.Sprintf("(Array %s Bool)", ks)}, ks)
	d.Axiom("maplenwit_"+mangle(ks), fmt.Sprintf("(forall ((a (Array %s Bool))) (! (=> (> (%s a) 0) (select a (%s a))) :pattern ((%s a))))", ks, f, wit, f))
	return f
}
