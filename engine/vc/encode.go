package vc

import (
	"fmt"
	"go/constant"
	"go/token"
	"go/types"
	"sort"
	"strings"

	"golang.org/x/tools/go/ssa"
)

// Obligation is one proof obligation generated for a function.
type Obligation struct {
	Name    string // <func>/<class>#<n>[/<detail>]
	Func    string
	Class   string
	Detail  string
	Guard   string
	Formula string
	Pos     token.Position
	Props   []string
	Callee  string // for call-site requires obligations: contract name and clause
	Ctx     []string // functions of the module with an error result whose call precedes the obligation on every path (validators that ran before)
	Clause  string
	bodyPos int // number of body lines that precede it
	// filled by the driver
	Status string // proved | failed | unknown | vacuous
	Solver string
	Secs   float64
	Model  string
}

// state is the symbolic store at a program point.
type state struct {
	heaps map[string]string
	epoch int
	trace string
}

func (s *state) clone() *state {
	n := &state{heaps: make(map[string]string, len(s.heaps)), epoch: s.epoch, trace: s.trace}
	for k, v := range s.heaps {
		n.heaps[k] = v
	}
	return n
}

// FuncEnc encodes one SSA function.
type FuncEnc struct {
	W    *World
	Fn   *ssa.Function
	Name string // obligation prefix
	D    *Decls

	body []string
	Obls []*Obligation

	val   map[ssa.Value]string
	tuple map[ssa.Value][]string

	reach    map[*ssa.BasicBlock]string
	edge     map[[2]int]string
	exit     map[*ssa.BasicBlock]*state
	cur      *state
	curBlock *ssa.BasicBlock
	curReach string

	classCount map[string]int
	fresh      int
	epochs     int
	allocIdx   int

	backEdge map[[2]int]bool
	loops    map[*ssa.BasicBlock]*loopInfo // by header
	loopOrd  map[*ssa.BasicBlock]int

	private map[*ssa.Alloc]bool
	defers  []*ssa.Defer

	Contract *Contract
	entry    *state
	params   map[string]string // source name -> smt symbol (entry values)
	results  []string          // names of result symbols at current return (for ensures)

	Abstracted []string // out-of-subset instructions havocked
	Assumed    map[string]bool
	NoSafety   bool // do not emit safety obligations (functional contracts only)
	heapSorts  map[string]string

	privateSyms      map[*ssa.Alloc]string
	privateLeaves    map[*ssa.Alloc][]leafAddr
	globals          map[string]bool
	closures         map[*ssa.MakeClosure]bool
	deferReach       map[*ssa.Defer]string
	Queries          []ModelQuery
	SpecErrors       []string
	RequiresFormulas []string
	retCount         int
	StoreHook        func(e *FuncEnc, in ssa.Instruction, target ssa.Value)
	OnReturn         func(e *FuncEnc, ret *ssa.Return, results []string)
	PostEncode       func()
	stableFV         map[*ssa.FreeVar]string
	inlineDepth      int
	loopConsts       map[string][4]string
	strView          map[ssa.Value]strView
	segatLemma       bool
	Cache            map[string]any
	curRet           *ssa.Return
	summarized       map[*ssa.BasicBlock]bool
	// CallHook is invoked before every static / interface call is encoded
	// (inline assertions "at call #n to F" of a contract).
	CallHook func(e *FuncEnc, in ssa.Instruction, name string, argVals []ssa.Value, args []string)
	ErrFormats       map[string]string // fmt.Errorf format literal -> literal symbol (ghost errfmt)
	inlineStack      []*inlineFrame
	selfClosure      *ssa.MakeClosure          // the closure literal this function is (verified on its own)
	noPreserve       map[*ssa.Alloc]bool       // private cells a closure callee may write (during its contract call)
	noPreserveOuter  map[*ssa.Alloc]bool
	invAsGoal        bool // loop invariant formulas are being built as proof goals (not assumptions)
	fvBind           map[*ssa.FreeVar]ssa.Value
	TrackValidators  bool // record Obligation.Ctx (generator sweep)
	unroll           map[*ssa.BasicBlock]*unrollInfo // loops over slice literals, unrolled
	unrollSkip       map[*ssa.BasicBlock]bool        // their body and return blocks (encoded by encodeUnrolled)
	unrollIter       map[*ssa.BasicBlock]int
	constInt         map[ssa.Value]int64             // values that are literals in the current unrolled iteration
	curInstr         ssa.Instruction // instruction of the root function being encoded (the call site while a callee is unfolded)
	Imprecise        []string          // over-approximations that make obligations undecidable here (untraced function values, unmodelled instructions)
	BodyErrs         []string          // "request body could not be read/decoded" conditions seen so far
}

type loopInfo struct {
	header  *ssa.BasicBlock
	body    map[*ssa.BasicBlock]bool
	modKeys map[string]bool
	modTop  bool
	modTrace bool
	invs    []func(bind map[*ssa.Phi]string, st *state) (string, string) // returns (name, formula)
}

func (e *FuncEnc) emit(line string) { e.body = append(e.body, line) }

func (e *FuncEnc) assume(guard, fact string) {
	if fact == "true" {
		return
	}
	e.emit("(assert " + implies(guard, fact) + ")")
}

func (e *FuncEnc) newSym(prefix, sort string) string {
	e.fresh++
	n := fmt.Sprintf("%s!%d", prefix, e.fresh)
	n = "|" + n + "|"
	e.emit(fmt.Sprintf("(declare-const %s %s)", n, sort))
	return n
}

func (e *FuncEnc) define(prefix, sort, expr string) string {
	// keep small atoms inline
	if !strings.ContainsAny(expr, " (") {
		return expr
	}
	e.fresh++
	n := fmt.Sprintf("|%s!%d|", prefix, e.fresh)
	e.emit(fmt.Sprintf("(define-fun %s () %s %s)", n, sort, expr))
	return n
}

func (e *FuncEnc) oblige(class, detail, formula string, pos token.Pos) *Obligation {
	if formula == "true" {
		return nil
	}
	if e.curReach == "false" {
		return nil // unreachable (e.g. body of a summarised loop)
	}
	key := class + "/" + detail
	n := e.classCount[key]
	e.classCount[key] = n + 1
	name := fmt.Sprintf("%s/%s#%d", e.Name, key, n)
	if detail == "" {
		name = fmt.Sprintf("%s/%s#%d", e.Name, class, n)
	}
	o := &Obligation{Name: name, Func: e.Name, Class: class, Detail: detail, Guard: e.curReach, Formula: formula, bodyPos: len(e.body)}
	if e.TrackValidators {
		o.Ctx = e.validatorsBefore(e.curInstr)
	}
	if pos.IsValid() && e.Fn.Prog != nil {
		o.Pos = e.Fn.Prog.Fset.Position(pos)
	}
	e.Obls = append(e.Obls, o)
	return o
}

func (e *FuncEnc) safety(class, detail, formula string, pos token.Pos) {
	if e.NoSafety {
		// still assume it afterwards: execution continues only when it holds
		e.assume(e.curReach, formula)
		return
	}
	e.oblige(class, detail, formula, pos)
	e.assume(e.curReach, formula)
}

// ---------------------------------------------------------------- heaps

func (e *FuncEnc) heapName(st *state, key, sort string) string {
	if n, ok := st.heaps[key]; ok {
		return n
	}
	n := fmt.Sprintf("|%s@e%d|", key, st.epoch)
	e.D.add("heap:"+n, fmt.Sprintf("(declare-const %s %s)", n, sort))
	e.heapSorts[key] = sort
	return n
}

func (e *FuncEnc) setHeap(st *state, key, sort, expr string) {
	e.heapSorts[key] = sort
	st.heaps[key] = e.define(key, sort, expr)
}

func (e *FuncEnc) havocHeap(st *state, key string) {
	sort, ok := e.heapSorts[key]
	if !ok {
		return
	}
	old := e.heapName(st, key, sort)
	n := e.newSym(key, sort)
	st.heaps[key] = n
	e.preservePrivate(key, old, n)
}

func (e *FuncEnc) havocAll(st *state) {
	// keys that hold cells of private (non-escaping) allocations keep them
	pk := map[string]bool{}
	for a := range e.privateSyms {
		for _, lf := range e.privateLeaves[a] {
			pk[lf.key] = true
		}
	}
	olds := map[string]string{}
	for _, k := range sortedKeys(pk) {
		olds[k] = e.heapName(st, k, e.heapSorts[k])
	}
	var fsName string
	if e.W != nil && e.W.FSStable {
		if n, ok := st.heaps[fsKey]; ok {
			fsName = n
		} else if _, used := e.heapSorts[fsKey]; used {
			fsName = e.heapName(st, fsKey, fsSort)
		}
	}
	e.epochs++
	st.epoch = e.epochs
	st.heaps = map[string]string{}
	if fsName != "" {
		st.heaps[fsKey] = fsName
	}
	for _, k := range sortedKeys(pk) {
		nn := e.heapName(st, k, e.heapSorts[k])
		e.preservePrivate(k, olds[k], nn)
	}
}

// preservePrivate states that non-escaping local allocations keep their
// content across a havoc of heap `key`.
func (e *FuncEnc) preservePrivate(key, old, nu string) {
	// deterministic order: the script a solver sees must not depend on map iteration
	allocs := make([]*ssa.Alloc, 0, len(e.privateSyms))
	for a := range e.privateSyms {
		allocs = append(allocs, a)
	}
	sort.Slice(allocs, func(i, j int) bool { return e.privateSyms[allocs[i]] < e.privateSyms[allocs[j]] })
	for _, a := range allocs {
		sym := e.privateSyms[a]
		if e.noPreserve[a] {
			continue
		}
		for _, leaf := range e.privateLeaves[a] {
			if leaf.key == key {
				addr := leaf.addr(sym)
				e.emit(fmt.Sprintf("(assert (= (select %s %s) (select %s %s)))", nu, addr, old, addr))
			}
		}
	}
}

// strView: a string value that is the slice root[lo:hi] of another string.
type strView struct{ root, lo, hi string }

type leafAddr struct {
	key  string
	addr func(base string) string
	root func(addr string) string // inverse of addr
	typ  types.Type
}

// leaves enumerates the scalar cells of a value of type t stored at an address.
func (e *FuncEnc) leaves(t types.Type, wrap func(string) string, depth int) []leafAddr {
	return e.leaves2(t, wrap, func(a string) string { return a }, depth)
}

func (e *FuncEnc) leaves2(t types.Type, wrap, unwrap func(string) string, depth int) []leafAddr {
	if st, ok := t.Underlying().(*types.Struct); ok && depth < 6 {
		var out []leafAddr
		for i := 0; i < st.NumFields(); i++ {
			fn := e.D.FieldAddrFn(t, i)
			w := func(b string) string { return "(" + fn + " " + wrap(b) + ")" }
			u := func(a string) string { return unwrap("(" + fn + "_inv " + a + ")") }
			out = append(out, e.leaves2(st.Field(i).Type(), w, u, depth+1)...)
		}
		return out
	}
	e.heapSorts[e.D.heapKey(t)] = e.D.heapSort(t)
	return []leafAddr{{key: e.D.heapKey(t), addr: wrap, root: unwrap, typ: t}}
}

// load reads a value of type t at address addr.
func (e *FuncEnc) load(st *state, addr string, t types.Type) string {
	if s, ok := t.Underlying().(*types.Struct); ok {
		name := e.D.SortOf(t)
		if s.NumFields() == 0 {
			return "mk_" + name
		}
		var fs []string
		for i := 0; i < s.NumFields(); i++ {
			fa := "(" + e.D.FieldAddrFn(t, i) + " " + addr + ")"
			fs = append(fs, e.load(st, fa, s.Field(i).Type()))
		}
		return "(mk_" + name + " " + strings.Join(fs, " ") + ")"
	}
	h := e.heapName(st, e.D.heapKey(t), e.D.heapSort(t))
	v := sx("select", h, addr)
	e.typeFacts(v, t)
	return v
}

// typeFacts assumes representation invariants of a freshly read value.
func (e *FuncEnc) typeFacts(v string, t types.Type) {
	// nothing here; slice well-formedness is assumed where slices are used
}

func (e *FuncEnc) store(st *state, addr string, t types.Type, v string) {
	if s, ok := t.Underlying().(*types.Struct); ok {
		for i := 0; i < s.NumFields(); i++ {
			fa := "(" + e.D.FieldAddrFn(t, i) + " " + addr + ")"
			fv := sx(e.D.FieldSelector(t, i), v)
			e.store(st, fa, s.Field(i).Type(), fv)
		}
		return
	}
	key := e.D.heapKey(t)
	h := e.heapName(st, key, e.D.heapSort(t))
	e.setHeap(st, key, e.D.heapSort(t), sx("store", h, addr, v))
}

// map heaps: values and presence
func (e *FuncEnc) mapKeys(mt *types.Map) (valKey, hasKey, valSort, hasSort, ks, vs string) {
	ks = e.D.SortOf(mt.Key())
	vs = e.D.SortOf(mt.Elem())
	n := mangle(typeKey(mt))
	valKey = "MV_" + n
	hasKey = "MH_" + n
	valSort = fmt.Sprintf("(Array Int (Array %s %s))", ks, vs)
	hasSort = fmt.Sprintf("(Array Int (Array %s Bool))", ks)
	e.heapSorts[valKey] = valSort
	e.heapSorts[hasKey] = hasSort
	return
}

// ---------------------------------------------------------------- values

func (e *FuncEnc) v(x ssa.Value) string {
	if s, ok := e.val[x]; ok {
		return s
	}
	switch c := x.(type) {
	case *ssa.Const:
		return e.constant(c)
	case *ssa.Global:
		n := "g_" + mangle(c.Pkg.Pkg.Path()+"."+c.Name())
		e.D.Const(n, "Int")
		e.D.Axiom("g:"+n, fmt.Sprintf("(and (> %s 0) (= (akind %s) 2) (< (atime %s) T0))", n, n, n))
		e.globals[n] = true
		return n
	case *ssa.Function:
		n := "fn_" + mangle(c.String())
		e.D.Const(n, "Int")
		e.D.Axiom("fn:"+n, fmt.Sprintf("(and (> %s 0) (= (akind %s) 3))", n, n))
		return n
	case *ssa.Builtin:
		return "0"
	}
	// parameters / free variables that were not bound: bind now
	s := e.newSym(mangle(x.Name()), e.D.SortOf(x.Type()))
	e.val[x] = s
	if al, ok := x.(*ssa.Alloc); ok && al.Parent() != e.Fn {
		// a variable cell of an enclosing function (closure verified on its own)
		e.assume("true", fmt.Sprintf("(and (> %s 0) (< (atime %s) T0))", s, s))
		if e.entry != nil {
			e.allocCellFacts(al, s, e.entry)
		}
	}
	return s
}

func (e *FuncEnc) constant(c *ssa.Const) string {
	t := c.Type()
	if c.Value == nil {
		return e.D.Zero(t)
	}
	switch e.D.SortOf(t) {
	case "Bool":
		if constant.BoolVal(c.Value) {
			return "true"
		}
		return "false"
	case "Int":
		if i, ok := constant.Int64Val(constant.ToInt(c.Value)); ok {
			return itoa(i)
		}
		if u, ok := constant.Uint64Val(constant.ToInt(c.Value)); ok {
			return fmt.Sprintf("%d", u)
		}
		return "0"
	case "Real":
		f, _ := constant.Float64Val(c.Value)
		s := fmt.Sprintf("%f", f)
		if f < 0 {
			s = fmt.Sprintf("(- %f)", -f)
		}
		return s
	case "Str":
		return e.D.Lit(constant.StringVal(c.Value))
	}
	return e.D.Zero(t)
}

func isNilable(t types.Type) bool {
	switch t.Underlying().(type) {
	case *types.Pointer, *types.Map, *types.Chan, *types.Signature, *types.Slice, *types.Interface:
		return true
	}
	return false
}

// nonNilSyntactic reports whether an address value is non-nil by construction.
func nonNilSyntactic(x ssa.Value) bool {
	switch x.(type) {
	case *ssa.Alloc, *ssa.FieldAddr, *ssa.IndexAddr, *ssa.Global, *ssa.FreeVar, *ssa.Function, *ssa.MakeClosure, *ssa.MakeMap:
		return true
	}
	return false
}

// ---------------------------------------------------------------- CFG preparation

func (e *FuncEnc) prepareCFG() []*ssa.BasicBlock {
	fn := e.Fn
	e.backEdge = map[[2]int]bool{}
	e.loops = map[*ssa.BasicBlock]*loopInfo{}
	e.loopOrd = map[*ssa.BasicBlock]int{}
	for _, b := range fn.Blocks {
		for _, s := range b.Succs {
			if s.Dominates(b) {
				e.backEdge[[2]int{b.Index, s.Index}] = true
				li := e.loops[s]
				if li == nil {
					li = &loopInfo{header: s, body: map[*ssa.BasicBlock]bool{s: true}, modKeys: map[string]bool{}}
					e.loops[s] = li
				}
				// natural loop of back edge b->s
				var stack []*ssa.BasicBlock
				if !li.body[b] {
					li.body[b] = true
					stack = append(stack, b)
				}
				for len(stack) > 0 {
					x := stack[len(stack)-1]
					stack = stack[:len(stack)-1]
					for _, p := range x.Preds {
						if !li.body[p] {
							li.body[p] = true
							stack = append(stack, p)
						}
					}
				}
			}
		}
	}
	// loop ordinals in source (block index) order
	var hs []*ssa.BasicBlock
	for h := range e.loops {
		hs = append(hs, h)
	}
	sort.Slice(hs, func(i, j int) bool { return hs[i].Index < hs[j].Index })
	for i, h := range hs {
		e.loopOrd[h] = i
	}
	// topological order ignoring back edges
	visited := map[*ssa.BasicBlock]bool{}
	var post []*ssa.BasicBlock
	var dfs func(b *ssa.BasicBlock)
	dfs = func(b *ssa.BasicBlock) {
		visited[b] = true
		for _, s := range b.Succs {
			if e.backEdge[[2]int{b.Index, s.Index}] || visited[s] {
				continue
			}
			dfs(s)
		}
		post = append(post, b)
	}
	if len(fn.Blocks) > 0 {
		dfs(fn.Blocks[0])
	}
	if fn.Recover != nil && !visited[fn.Recover] {
		// recover block: not modelled
	}
	for i, j := 0, len(post)-1; i < j; i, j = i+1, j-1 {
		post[i], post[j] = post[j], post[i]
	}
	return post
}

// computePrivate marks allocations whose address never escapes.
func (e *FuncEnc) computePrivate() {
	e.private = map[*ssa.Alloc]bool{}
	var addrOnly func(v ssa.Value, depth int) bool
	addrOnly = func(v ssa.Value, depth int) bool {
		refs := v.Referrers()
		if refs == nil {
			return false
		}
		for _, r := range *refs {
			switch u := r.(type) {
			case *ssa.UnOp:
				if u.Op != token.MUL {
					return false
				}
			case *ssa.Store:
				if u.Val == v {
					return false
				}
			case *ssa.FieldAddr:
				if depth > 4 || !addrOnly(u, depth+1) {
					return false
				}
			case *ssa.DebugRef:
			default:
				return false
			}
		}
		return true
	}
	for _, b := range e.Fn.Blocks {
		for _, in := range b.Instrs {
			if a, ok := in.(*ssa.Alloc); ok {
				if _, isArr := a.Type().(*types.Pointer).Elem().Underlying().(*types.Array); isArr {
					continue
				}
				if addrOnly(a, 0) || (e.W != nil && e.W.InlineClosures && confinedAlloc(a)) {
					e.private[a] = true
				}
			}
		}
	}
}

// ---------------------------------------------------------------- main loop

func (e *FuncEnc) init() {
	e.val = map[ssa.Value]string{}
	e.tuple = map[ssa.Value][]string{}
	e.reach = map[*ssa.BasicBlock]string{}
	e.edge = map[[2]int]string{}
	e.exit = map[*ssa.BasicBlock]*state{}
	e.classCount = map[string]int{}
	e.Assumed = map[string]bool{}
	e.heapSorts = map[string]string{}
	e.params = map[string]string{}
	e.privateSyms = map[*ssa.Alloc]string{}
	e.privateLeaves = map[*ssa.Alloc][]leafAddr{}
	e.globals = map[string]bool{}
	e.closures = map[*ssa.MakeClosure]bool{}
	e.stableFV = map[*ssa.FreeVar]string{}
	e.strView = map[ssa.Value]strView{}
	e.Cache = map[string]any{}
	e.summarized = map[*ssa.BasicBlock]bool{}
	e.ErrFormats = map[string]string{}
	e.deferReach = map[*ssa.Defer]string{}
	e.fvBind = map[*ssa.FreeVar]ssa.Value{}
}

// Encode generates the body and obligations of the function.
func (e *FuncEnc) Encode() {
	e.init()
	fn := e.Fn
	order := e.prepareCFG()
	e.unrollIter = map[*ssa.BasicBlock]int{}
	e.constInt = map[ssa.Value]int64{}
	e.findUnrollable(order)
	e.computePrivate()
	e.computeLoopMods()

	st := &state{heaps: map[string]string{}, trace: "tr0"}
	e.D.Const("tr0", "Trace")
	if e.W != nil && len(e.W.FSWriters) > 0 {
		e.useFS()
		st.heaps[fsKey] = e.heapName(st, fsKey, fsSort)
	}
	// parameters and free variables
	for _, p := range fn.Params {
		s := e.newSym("p_"+mangle(p.Name()), e.D.SortOf(p.Type()))
		e.val[p] = s
		e.params[p.Name()] = s
		e.paramFacts(s, p.Type())
	}
	for i, fv := range fn.FreeVars {
		s := e.newSym("fv_"+mangle(fv.Name()), e.D.SortOf(fv.Type()))
		e.val[fv] = s
		e.params[fv.Name()] = s
		if _, isPtr := fv.Type().Underlying().(*types.Pointer); isPtr {
			e.assume("true", fmt.Sprintf("(and (> %s 0) (< (atime %s) T0))", s, s))
			e.freeVarCellFacts(i, fv, s, st)
		}
	}
	if fn.Parent() != nil && e.W != nil && e.W.InlineClosures {
		for _, b := range fn.Parent().Blocks {
			for _, in := range b.Instrs {
				if mc, ok := in.(*ssa.MakeClosure); ok && mc.Fn == fn {
					e.selfClosure = mc
					for i, fv := range fn.FreeVars {
						if i < len(mc.Bindings) {
							e.fvBind[fv] = mc.Bindings[i]
							if al, ok := mc.Bindings[i].(*ssa.Alloc); ok {
								e.val[al] = e.val[fv]
							}
						}
					}
				}
			}
		}
	}
	e.entry = st.clone()
	e.cur = st
	e.curReach = "true"
	if e.Contract != nil {
		e.assumeRequires()
	}
	e.entry = e.cur.clone()

	for _, b := range order {
		if e.unrollSkip[b] {
			continue
		}
		if u := e.unroll[b]; u != nil {
			e.encodeUnrolled(u)
			continue
		}
		e.encodeBlock(b)
	}
	if e.PostEncode != nil {
		e.PostEncode()
	}
}

// paramFacts: representation invariants of incoming values.
func (e *FuncEnc) paramFacts(s string, t types.Type) {
	switch t.Underlying().(type) {
	case *types.Slice:
		e.assume("true", e.sliceWF(s))
		e.assume("true", fmt.Sprintf("(< (atime (sl_base %s)) T0)", s))
	case *types.Pointer, *types.Map, *types.Signature, *types.Chan:
		e.assume("true", fmt.Sprintf("(and (>= %s 0) (< (atime %s) T0))", s, s))
	case *types.Basic:
		e.intRange(s, t)
	}
}

func (e *FuncEnc) intRange(s string, t types.Type) {
	b, ok := t.Underlying().(*types.Basic)
	if !ok || b.Info()&types.IsInteger == 0 {
		return
	}
	lo, hi := intBounds(b.Kind())
	e.assume("true", fmt.Sprintf("(and (<= %s %s) (<= %s %s))", lo, s, s, hi))
}

func intBounds(k types.BasicKind) (string, string) {
	switch k {
	case types.Int8:
		return "(- 128)", "127"
	case types.Int16:
		return "(- 32768)", "32767"
	case types.Int32:
		return "(- 2147483648)", "2147483647"
	case types.Uint8:
		return "0", "255"
	case types.Uint16:
		return "0", "65535"
	case types.Uint32:
		return "0", "4294967295"
	case types.Uint, types.Uint64, types.Uintptr:
		return "0", "18446744073709551615"
	}
	return "(- 9223372036854775808)", "9223372036854775807"
}

func (e *FuncEnc) sliceWF(s string) string {
	return fmt.Sprintf("(and (<= 0 (sl_off %s)) (<= 0 (sl_len %s)) (<= (sl_len %s) (sl_cap %s)) (=> (= (sl_base %s) 0) (= (sl_cap %s) 0)) (>= (sl_base %s) 0))", s, s, s, s, s, s, s)
}

func (e *FuncEnc) encodeBlock(b *ssa.BasicBlock) {
	e.curBlock = b
	// reach + incoming state
	var preds []*ssa.BasicBlock
	later := e.unroll[b] != nil && e.unrollIter[b] > 0 // a later iteration of an unrolled loop: entered from the latches
	for _, p := range b.Preds {
		if e.backEdge[[2]int{p.Index, b.Index}] != later {
			continue
		}
		if _, ok := e.exit[p]; !ok {
			continue // unreachable predecessor
		}
		preds = append(preds, p)
	}
	var fr *inlineFrame
	if n := len(e.inlineStack); n > 0 {
		fr = e.inlineStack[n-1]
	}
	isEntry := (fr == nil && b.Index == 0) || (fr != nil && b == fr.entry)
	if isEntry && fr != nil {
		e.reach[b] = fr.reach0
	} else if isEntry {
		e.reach[b] = "true"
	} else {
		var es []string
		for _, p := range preds {
			es = append(es, e.edge[[2]int{p.Index, b.Index}])
		}
		r := or(es...)
		e.reach[b] = e.define(fmt.Sprintf("reach%d", b.Index), "Bool", r)
	}
	e.curReach = e.reach[b]
	if !isEntry {
		if len(preds) == 0 {
			return // dead block
		}
		e.cur = e.mergeStates(b, preds)
	}
	li := e.loops[b]
	if li != nil && e.W != nil && e.W.LoopSummary != nil && e.W.LoopSummary(e, li) {
		e.summarized[b] = true
		li = nil
	}
	if li != nil {
		// loop header: entry edges must establish the invariants -> checked at
		// the predecessors' ends (below, in terminators). Here: havoc.
		// Private cells that the loop body may write are not preserved.
		savedNP := e.noPreserve
		e.noPreserve = e.privateWrittenIn(li)
		for a := range savedNP {
			e.noPreserve[a] = true
		}
		if li.modTop {
			e.havocAll(e.cur)
		} else {
			for _, k := range sortedKeys(li.modKeys) {
				sortK, known := e.heapSorts[k]
				var before string
				if known {
					before = e.heapName(e.cur, k, sortK)
				}
				e.havocHeap(e.cur, k)
				if known {
					e.loopFrame(li, k, before, e.heapName(e.cur, k, sortK))
				}
			}
		}
		if li.modTrace {
			e.cur.trace = e.newSym("tr", "Trace")
		}
		e.noPreserve = savedNP
	}
	for _, in := range b.Instrs {
		if phi, ok := in.(*ssa.Phi); ok {
			e.encodePhi(b, phi, preds, li)
			continue
		}
		if li != nil {
			// first non-phi instruction of a header: assume invariants
			e.assumeInvariants(li)
			li = nil
		}
		if len(e.inlineStack) == 0 {
			e.curInstr = in
		}
		e.encodeInstr(in)
	}
}

// validatorsBefore: the module functions with an error result that are called
// on every path before instruction `at` of the function being encoded (calls in
// dominating blocks, and earlier calls of its own block).
func (e *FuncEnc) validatorsBefore(at ssa.Instruction) []string {
	if at == nil || at.Block() == nil || e.W == nil {
		return nil
	}
	seen := map[string]bool{}
	for _, b := range e.Fn.Blocks {
		if !b.Dominates(at.Block()) {
			continue
		}
		for _, in := range b.Instrs {
			if b == at.Block() && in == at {
				break
			}
			c, ok := in.(*ssa.Call)
			if !ok {
				continue
			}
			g := c.Call.StaticCallee()
			if g == nil || !isModuleFn(e.W, g) {
				continue
			}
			res := g.Signature.Results()
			if res.Len() == 0 || !isErrorT(res.At(res.Len()-1).Type()) {
				continue
			}
			seen[g.String()] = true
		}
	}
	return sortedKeys(seen)
}

func (e *FuncEnc) mergeStates(b *ssa.BasicBlock, preds []*ssa.BasicBlock) *state {
	if len(preds) == 1 {
		return e.exit[preds[0]].clone()
	}
	out := &state{heaps: map[string]string{}}
	// epoch
	same := true
	for _, p := range preds[1:] {
		if e.exit[p].epoch != e.exit[preds[0]].epoch {
			same = false
		}
	}
	if same {
		out.epoch = e.exit[preds[0]].epoch
	} else {
		e.epochs++
		out.epoch = e.epochs
	}
	keys := map[string]bool{}
	for _, p := range preds {
		for k := range e.exit[p].heaps {
			keys[k] = true
		}
	}
	if !same {
		for k := range e.heapSorts {
			keys[k] = true
		}
	}
	for _, k := range sortedKeys(keys) {
		sort := e.heapSorts[k]
		var names []string
		allSame := true
		for _, p := range preds {
			n := e.heapName(e.exit[p], k, sort)
			names = append(names, n)
			if n != names[0] {
				allSame = false
			}
		}
		if allSame {
			out.heaps[k] = names[0]
			continue
		}
		expr := names[len(names)-1]
		for i := len(names) - 2; i >= 0; i-- {
			expr = ite(e.edge[[2]int{preds[i].Index, b.Index}], names[i], expr)
		}
		out.heaps[k] = e.define(k, sort, expr)
	}
	// trace
	var conds, trs []string
	for _, p := range preds {
		conds = append(conds, e.edge[[2]int{p.Index, b.Index}])
		trs = append(trs, e.exit[p].trace)
	}
	out.trace = e.mergeTraces(conds, trs)
	return out
}

func (e *FuncEnc) encodePhi(b *ssa.BasicBlock, phi *ssa.Phi, preds []*ssa.BasicBlock, li *loopInfo) {
	sortS := e.D.SortOf(phi.Type())
	if li == nil && e.summarized[b] {
		s := e.newSym("phi_"+mangle(phi.Comment), sortS)
		e.val[phi] = s
		e.paramLikeFacts(s, phi.Type())
		return
	}
	if li != nil {
		s := e.newSym("phi_"+mangle(phi.Comment), sortS)
		e.val[phi] = s
		e.paramLikeFacts(s, phi.Type())
		return
	}
	// ordinary join
	var vals []string
	var conds []string
	isPred := map[*ssa.BasicBlock]bool{}
	for _, p := range preds {
		isPred[p] = true
	}
	for i, p := range b.Preds {
		if !isPred[p] {
			continue
		}
		vals = append(vals, e.v(phi.Edges[i]))
		conds = append(conds, e.edge[[2]int{p.Index, b.Index}])
	}
	if len(vals) == 0 {
		e.val[phi] = e.D.Zero(phi.Type())
		return
	}
	expr := vals[len(vals)-1]
	for i := len(vals) - 2; i >= 0; i-- {
		expr = ite(conds[i], vals[i], expr)
	}
	e.val[phi] = e.define("phi_"+mangle(phi.Comment), sortS, expr)
}

func (e *FuncEnc) paramLikeFacts(s string, t types.Type) {
	switch t.Underlying().(type) {
	case *types.Slice:
		e.assume("true", e.sliceWF(s))
	case *types.Basic:
		e.intRange(s, t)
	}
}

// finishBlock records the exit state and edge conditions.
func (e *FuncEnc) finishBlock(b *ssa.BasicBlock, cond string) {
	e.exit[b] = e.cur
	switch len(b.Succs) {
	case 1:
		e.edge[[2]int{b.Index, b.Succs[0].Index}] = e.curReach
	case 2:
		if e.summarized[b] {
			// the loop was replaced by its summary: control leaves it at once
			lp := e.loops[b]
			for _, s := range b.Succs {
				if lp.body[s] {
					e.edge[[2]int{b.Index, s.Index}] = "false"
				} else {
					e.edge[[2]int{b.Index, s.Index}] = e.curReach
				}
			}
			break
		}
		e.edge[[2]int{b.Index, b.Succs[0].Index}] = e.define(fmt.Sprintf("edge%d_%d", b.Index, b.Succs[0].Index), "Bool", and(e.curReach, cond))
		e.edge[[2]int{b.Index, b.Succs[1].Index}] = e.define(fmt.Sprintf("edge%d_%d", b.Index, b.Succs[1].Index), "Bool", and(e.curReach, not(cond)))
	}
	// loop invariants on edges into headers
	for i, s := range b.Succs {
		li := e.loops[s]
		if li == nil || e.summarized[s] {
			continue
		}
		_ = i
		e.checkInvariants(b, s, li, e.backEdge[[2]int{b.Index, s.Index}])
	}
}

// freeVarCellFacts: a captured variable cell whose only stores (in the
// enclosing function and its closures) are syntactically non-nil values, or a
// parameter that the environment guarantees non-nil, holds a non-nil value.
func (e *FuncEnc) freeVarCellFacts(idx int, fv *ssa.FreeVar, cell string, st *state) {
	parent := e.Fn.Parent()
	if parent == nil {
		return
	}
	// find the binding of this free variable
	var bound ssa.Value
	var scan func(f *ssa.Function)
	scan = func(f *ssa.Function) {
		for _, b := range f.Blocks {
			for _, in := range b.Instrs {
				if mc, ok := in.(*ssa.MakeClosure); ok && mc.Fn == e.Fn && idx < len(mc.Bindings) {
					bound = mc.Bindings[idx]
				}
			}
		}
	}
	scan(parent)
	// the binding may itself be a free variable of the parent (nested closures)
	depth := 0
	for bound != nil && depth < 4 {
		pfv, ok := bound.(*ssa.FreeVar)
		if !ok {
			break
		}
		pp := pfv.Parent().Parent()
		if pp == nil {
			return
		}
		pi := -1
		for j, x := range pfv.Parent().FreeVars {
			if x == pfv {
				pi = j
			}
		}
		child := pfv.Parent()
		bound = nil
		for _, b := range pp.Blocks {
			for _, in := range b.Instrs {
				if mc, ok := in.(*ssa.MakeClosure); ok && mc.Fn == child && pi >= 0 && pi < len(mc.Bindings) {
					bound = mc.Bindings[pi]
				}
			}
		}
		depth++
	}
	al, ok := bound.(*ssa.Alloc)
	if !ok {
		return
	}
	elem := al.Type().Underlying().(*types.Pointer).Elem()
	if _, stable := stableCell(al); stable {
		if _, isStruct := elem.Underlying().(*types.Struct); !isStruct {
			v := e.define("fvval_"+mangle(fv.Name()), e.D.SortOf(elem), e.load(st, cell, elem))
			e.stableFV[fv] = v
			e.paramLikeFacts(v, elem)
		}
	}
	e.allocCellFacts(al, cell, st)
}

// allocCellFacts: non-nil facts of a variable cell of an enclosing function.
func (e *FuncEnc) allocCellFacts(al *ssa.Alloc, cell string, st *state) {
	elem := al.Type().Underlying().(*types.Pointer).Elem()
	okAll, n := true, 0
	var visit func(v ssa.Value, d int)
	visit = func(v ssa.Value, d int) {
		if v.Referrers() == nil || d > 3 {
			return
		}
		for _, r := range *v.Referrers() {
			switch x := r.(type) {
			case *ssa.Store:
				if x.Addr != v {
					continue
				}
				n++
				switch sv := x.Val.(type) {
				case *ssa.MakeClosure, *ssa.Function, *ssa.Alloc, *ssa.MakeInterface, *ssa.MakeMap:
				case *ssa.Parameter:
					if !envNonNilType(sv.Type()) {
						okAll = false
					}
				default:
					okAll = false
				}
			case *ssa.MakeClosure:
				// captured by another closure: look at that closure's stores
				for j, bnd := range x.Bindings {
					if bnd == v {
						cf := x.Fn.(*ssa.Function)
						if j < len(cf.FreeVars) {
							visit(cf.FreeVars[j], d+1)
						}
					}
				}
			}
		}
	}
	visit(al, 0)
	if !okAll || n == 0 {
		return
	}
	val := e.load(st, cell, elem)
	switch elem.Underlying().(type) {
	case *types.Interface:
		e.assume("true", not(eq(sx("if_tag", val), "0")))
	case *types.Pointer, *types.Signature, *types.Map:
		e.assume("true", not(eq(val, "0")))
	}
}

func envNonNilType(t types.Type) bool {
	switch t.Underlying().(type) {
	case *types.Pointer:
		return true
	case *types.Interface:
		return isNamed(t, "net/http", "ResponseWriter") || isNamed(t, "io", "Writer") || isNamed(t, "net/http", "Handler") || isNamed(t, "context", "Context") || isNamed(t, "io", "Reader")
	}
	return false
}

// stableCell: a local variable cell (possibly captured by closures) that is
// assigned exactly once, in the function that declares it. Loads dominated by
// that store yield the stored value whatever happens in between.
func stableCell(al *ssa.Alloc) (*ssa.Store, bool) {
	var stores []*ssa.Store
	okAll := true
	var visit func(v ssa.Value, d int)
	visit = func(v ssa.Value, d int) {
		if v.Referrers() == nil || d > 4 {
			return
		}
		for _, r := range *v.Referrers() {
			switch x := r.(type) {
			case *ssa.Store:
				if x.Addr == v {
					stores = append(stores, x)
				} else if x.Val == v {
					okAll = false // the address itself escapes
				}
			case *ssa.UnOp, *ssa.DebugRef:
			case *ssa.MakeClosure:
				for j, bnd := range x.Bindings {
					if bnd == v {
						cf := x.Fn.(*ssa.Function)
						if j < len(cf.FreeVars) {
							visit(cf.FreeVars[j], d+1)
						}
					}
				}
			default:
				okAll = false
			}
		}
	}
	visit(al, 0)
	if !okAll || len(stores) != 1 || stores[0].Block().Parent() != al.Parent() {
		return nil, false
	}
	return stores[0], true
}

// loopFrame: if every write to heap `key` inside the loop goes to an element of
// a loop-invariant slice/array or to a field of a loop-invariant object, all
// other cells keep their value across the loop (frame of the loop).
func (e *FuncEnc) loopFrame(li *loopInfo, key, before, after string) {
	if before == "" || before == after || !strings.HasPrefix(key, "H_") {
		return
	}
	invariant := func(v ssa.Value) bool {
		switch x := v.(type) {
		case *ssa.Const, *ssa.Global, *ssa.Parameter, *ssa.FreeVar, *ssa.Function:
			return true
		case ssa.Instruction:
			return !li.body[x.Block()]
		}
		return false
	}
	var conds []string
	for _, b := range li.blocks() {
		for _, in := range b.Instrs {
			switch x := in.(type) {
			case *ssa.Store:
				hit := false
				for _, lf := range e.leaves(x.Val.Type(), func(s string) string { return s }, 0) {
					if lf.key == key {
						hit = true
					}
				}
				if !hit {
					continue
				}
				switch a := x.Addr.(type) {
				case *ssa.IndexAddr:
					if al, isAl := a.X.(*ssa.Alloc); isAl && li.body[al.Block()] {
						continue // an array allocated in this iteration: a fresh address
					}
					if !invariant(a.X) {
						return
					}
					if _, ok := e.val[a.X]; !ok {
						return
					}
					base := e.v(a.X)
					if _, isSl := a.X.Type().Underlying().(*types.Slice); isSl {
						base = sx("sl_base", base)
					}
					if _, isStruct := x.Val.Type().Underlying().(*types.Struct); isStruct {
						return
					}
					conds = append(conds, not(and(eq(sx("akind", "a"), "1"), eq(sx("elem_base", "a"), base))))
				case *ssa.FieldAddr:
					root := a.X
					if !invariant(root) {
						return
					}
					if _, ok := e.val[root]; !ok {
						if _, isC := root.(*ssa.Const); !isC {
							return
						}
					}
					if _, isStruct := x.Val.Type().Underlying().(*types.Struct); isStruct {
						return
					}
					st := a.X.Type().Underlying().(*types.Pointer).Elem()
					addr := "(" + e.D.FieldAddrFn(st, a.Field) + " " + e.v(root) + ")"
					conds = append(conds, not(eq("a", addr)))
				case *ssa.Alloc:
					if li.body[a.Block()] {
						// a cell allocated in the loop: fresh every iteration, cannot be an old cell
						continue
					}
					conds = append(conds, not(eq("a", e.v(a))))
				default:
					return
				}
			case *ssa.Alloc:
				// zero-initialisation of a cell allocated in the loop: fresh address
			case ssa.CallInstruction:
				c := x.Common()
				if bi, ok := c.Value.(*ssa.Builtin); ok {
					if bi.Name() == "append" || bi.Name() == "copy" {
						if st, ok := c.Args[0].Type().Underlying().(*types.Slice); ok {
							hit := false
							for _, lf := range e.leaves(st.Elem(), func(s string) string { return s }, 0) {
								if lf.key == key {
									hit = true
								}
							}
							if !hit {
								continue
							}
							if _, isStruct := st.Elem().Underlying().(*types.Struct); isStruct || bi.Name() == "copy" {
								return
							}
							// s = append(s, ...) on a loop-carried slice that starts as a
							// loop-invariant value: the cells written belong to that value's
							// array (growth in place) or to arrays allocated during the loop
							phi, ok := c.Args[0].(*ssa.Phi)
							if !ok || phi.Block() != li.header {
								return
							}
							var start ssa.Value
							for pi, pr := range li.header.Preds {
								if !li.body[pr] {
									if start != nil && start != phi.Edges[pi] {
										return
									}
									start = phi.Edges[pi]
								}
							}
							if start == nil || !invariant(start) {
								return
							}
							if _, have := e.val[start]; !have {
								if _, isC := start.(*ssa.Const); !isC {
									return
								}
							}
							conds = append(conds, not(and(eq(sx("akind", "a"), "1"), eq(sx("elem_base", "a"), sx("sl_base", e.v(start))))))
						}
					}
					continue
				}
				li2 := &loopInfo{modKeys: map[string]bool{}}
				e.callMods(x, li2)
				if li2.modTop || li2.modKeys[key] {
					return
				}
			case *ssa.MakeSlice:
				// zeroing of a fresh array
			}
		}
	}
	// fresh allocations made inside the loop are newer than every cell that existed before it
	conds = append(conds, fmt.Sprintf("(<= (atime a) (+ T0 %d))", e.allocIdx))
	e.emit(fmt.Sprintf("(assert (forall ((a Int)) (! (=> %s (= (select %s a) (select %s a))) :pattern ((select %s a)))))", and(conds...), after, before, after))
}

// privateWrittenIn: local variable cells that the body of the loop may write
// (stores through their address, closures that capture them).
func (e *FuncEnc) privateWrittenIn(li *loopInfo) map[*ssa.Alloc]bool {
	out := map[*ssa.Alloc]bool{}
	var root func(v ssa.Value, d int) *ssa.Alloc
	root = func(v ssa.Value, d int) *ssa.Alloc {
		if d > 8 {
			return nil
		}
		switch x := v.(type) {
		case *ssa.Alloc:
			return x
		case *ssa.FieldAddr:
			return root(x.X, d+1)
		case *ssa.IndexAddr:
			return root(x.X, d+1)
		}
		return nil
	}
	for _, b := range li.blocks() {
		for _, in := range b.Instrs {
			switch x := in.(type) {
			case *ssa.Store:
				if a := root(x.Addr, 0); a != nil {
					out[a] = true
				}
			case ssa.CallInstruction:
				c := x.Common()
				var binds []ssa.Value
				if mc, ok := c.Value.(*ssa.MakeClosure); ok {
					binds = mc.Bindings
				} else if mc := e.resolveClosure(c.Value, 0); mc != nil {
					binds = mc.Bindings
				}
				for a := range e.capturedWritten(binds) {
					out[a] = true
				}
				// an address handed to a callee (not private then, but harmless)
				for _, arg := range c.Args {
					if a := root(arg, 0); a != nil {
						out[a] = true
					}
				}
			}
		}
	}
	return out
}

// blocks: the loop body in block order (the script must not depend on map iteration).
func (li *loopInfo) blocks() []*ssa.BasicBlock {
	out := make([]*ssa.BasicBlock, 0, len(li.body))
	for b := range li.body {
		out = append(out, b)
	}
	sort.Slice(out, func(i, j int) bool { return out[i].Index < out[j].Index })
	return out
}

// loopList: the loops in header order.
func (e *FuncEnc) loopList() []*loopInfo {
	out := make([]*loopInfo, 0, len(e.loops))
	for _, li := range e.loops {
		out = append(out, li)
	}
	sort.Slice(out, func(i, j int) bool { return out[i].header.Index < out[j].header.Index })
	return out
}
