package vc

import (
	"fmt"
	"go/token"
	"go/types"
	"sort"
	"strings"

	"golang.org/x/tools/go/ssa"
)

// RouteFamily instantiates the contract family
//
//	emitted func (rt *API) route*(path, method string) (h http.Handler, out string, hasPath bool)
//	  requires path == "" || path[0] == '/'            (non-root nodes)
//	  ensures  (h, out, hasPath) == refRouteAt(SPEC, NODE, path, method)
//
// for every route function of an emitted package. NODE is found by a hint
// (which literal guards the call in the parent); a wrong hint can only make a
// proof fail.
type RouteFamily struct {
	Em       *Emitted
	Nodes    map[*ssa.Function][]RefSeg
	Root     *ssa.Function
	opField  map[[2]string]int
	authFld  map[string]int
	api      *apiInfo
	Problems []string
}

func NewRouteFamily(em *Emitted) (*RouteFamily, error) {
	rf := &RouteFamily{Em: em, Nodes: map[*ssa.Function][]RefSeg{}}
	var err error
	if rf.api, err = em.apiInfo(); err != nil {
		return nil, err
	}
	if rf.opField, err = em.opFields(); err != nil {
		return nil, err
	}
	if rf.authFld, err = em.authFields(); err != nil {
		return nil, err
	}
	rf.Root = em.Func("(*API).route")
	if rf.Root == nil {
		return nil, fmt.Errorf("no (*API).route")
	}
	rf.assign(rf.Root, nil)
	return rf, nil
}

func isRouteFn(f *ssa.Function) bool {
	return f != nil && f.Signature.Recv() != nil && strings.HasPrefix(f.Name(), "route") && strings.Contains(f.String(), "API).route")
}

func (rf *RouteFamily) assign(f *ssa.Function, node []RefSeg) {
	if _, done := rf.Nodes[f]; done {
		return
	}
	rf.Nodes[f] = node
	for _, b := range f.Blocks {
		for _, in := range b.Instrs {
			c, ok := in.(*ssa.Call)
			if !ok {
				continue
			}
			g := c.Call.StaticCallee()
			if !isRouteFn(g) || g == f {
				continue
			}
			seg := RefSeg{IsVar: true, Var: "_"}
			if lit, ok := guardingLiteral(b); ok {
				seg = RefSeg{Lit: strings.TrimPrefix(lit, "/")}
			}
			child := append(append([]RefSeg{}, node...), seg)
			rf.assign(g, child)
		}
	}
}

// guardingLiteral: the string literal L such that block b is only reached
// through the true branch of a comparison `x == L` (nearest such dominator).
func guardingLiteral(b *ssa.BasicBlock) (string, bool) {
	for d := b.Idom(); d != nil; d = d.Idom() {
		iff, ok := d.Instrs[len(d.Instrs)-1].(*ssa.If)
		if !ok {
			continue
		}
		bin, ok := iff.Cond.(*ssa.BinOp)
		if !ok || bin.Op != token.EQL {
			continue
		}
		lit, ok := constString(bin.Y)
		if !ok {
			lit, ok = constString(bin.X)
		}
		if !ok {
			continue
		}
		t := d.Succs[0]
		if t == b || (t.Dominates(b) && len(t.Preds) == 1) {
			if lit == "" {
				return "", false
			}
			return lit, true
		}
	}
	return "", false
}

// Install registers the contracts into the world.
func (rf *RouteFamily) Install() {
	for f, node := range rf.Nodes {
		f, node := f, node
		isRoot := f == rf.Root
		c := &Contract{Name: f.String(), Emitted: true, Pure: true}
		c.PreHook = func(e *FuncEnc, args []string) []NamedFormula {
			out := []NamedFormula{{Name: "requires:rt!=nil", Formula: not(eq(args[0], "0"))}}
			if isRoot {
				return out
			}
			p := args[1]
			return append(out, NamedFormula{Name: "requires#0", Formula: or(eq(p, "str_empty"), sx("startsSlash", p))})
		}
		c.PostHook = func(e *FuncEnc, args, results []string, pre, post *state) []NamedFormula {
			r := rf.refRoute(e, node, isRoot, args[0], args[1], args[2], pre)
			return []NamedFormula{{Name: "ensures", Formula: and(eq(results[0], r.H), eq(results[1], r.Out), eq(results[2], r.HasPath))}}
		}
		c.RetHook = func(e *FuncEnc, results []string) []NamedFormula {
			args := []string{e.val[f.Params[0]], e.val[f.Params[1]], e.val[f.Params[2]]}
			r := rf.refRoute(e, node, isRoot, args[0], args[1], args[2], e.entry)
			rf.projectionAxioms(e)
			if len(e.Queries) == 0 {
				e.Queries = append(e.Queries, ModelQuery{"path", args[1], "str"}, ModelQuery{"method", args[2], "str"})
				if idx, ok := rf.api.fieldIdx["CORSHandler"]; ok {
					cv, _ := rf.apiField(e, args[0], idx, e.entry)
					e.Queries = append(e.Queries, ModelQuery{"cors", cv, "int"})
				}
			}
			h := results[0]
			notCors := not(r.Cors)
			return []NamedFormula{
				{Name: "ensures#dispatch", Props: []string{"C03", "C05"}, Formula: implies(notCors, eq(sx("baseOf", h), r.Base))},
				{Name: "ensures#template", Props: []string{"C03", "C16"}, Formula: eq(results[1], r.Out)},
				{Name: "ensures#hasPath", Props: []string{"C16", "C17"}, Formula: eq(results[2], r.HasPath)},
				{Name: "ensures#auth", Props: []string{"C11"}, Formula: implies(notCors, and(not(r.Bad), eq(sx("seq_set", sx("authOf", h)), sx("seq_set", r.Auth)), eq(sx("seq_len", sx("authOf", h)), sx("seq_len", r.Auth)), eq(sx("isSec", h), r.Sec)))},
				{Name: "ensures#cors", Props: []string{"C17"}, Formula: and(implies(r.Cors, eq(h, r.H)), implies(and(notCors, eq(args[2], e.D.Lit("OPTIONS"))), eq(sx("baseOf", h), r.Base)))},
			}
		}
		rf.Em.W.Contracts[f.String()] = c
	}
}

// projectionAxioms: ghost projections of a routed handler value:
// baseOf (the operation's handler), authOf (the authenticator sequence of the
// security wrapper) and isSec.
func (rf *RouteFamily) projectionAxioms(e *FuncEnc) {
	e.D.needSeq()
	e.D.UF("baseOf", []string{"Iface"}, "Iface")
	e.D.UF("authOf", []string{"Iface"}, "GSeq")
	e.D.UF("isSec", []string{"Iface"}, "Bool")
	e.D.Axiom("proj:nil", "(and (= (baseOf iface_nil) iface_nil) (= (authOf iface_nil) seq_nil) (not (isSec iface_nil)))")
	// plain handlers
	for _, idx := range rf.opField {
		ft := rf.api.Struct.Field(idx).Type()
		tag := e.D.TypeTag(ft)
		e.D.Axiom(fmt.Sprintf("proj:h%d", tag), fmt.Sprintf("(forall ((v Int)) (! (and (= (baseOf (mk_iface %d v)) (mk_iface %d v)) (= (authOf (mk_iface %d v)) seq_nil) (not (isSec (mk_iface %d v)))) :pattern ((mk_iface %d v))))", tag, tag, tag, tag, tag))
	}
	// secured handlers
	or := rf.Em.Func("authMiddlewareOr")
	mw := rf.Em.Func("middlewares")
	if or == nil || mw == nil {
		return
	}
	t := rf.securedTerm(e, "h", "A")
	e.D.Axiom("proj:sec", fmt.Sprintf("(forall ((h Iface) (A GSeq)) (! (and (= (baseOf %s) h) (= (authOf %s) A) (isSec %s)) :pattern (%s)))", t, t, t, t))
}

func segMatch(a, b RefSeg) bool {
	if a.IsVar || b.IsVar {
		return a.IsVar == b.IsVar
	}
	return a.Lit == b.Lit
}

type refArm struct {
	segs   []RefSeg // remaining segments
	method string
	op     *RefOp // nil for CORS arm
	tpl    string
}

// armsUnder lists the reference arms (operations and CORS pseudo-operations)
// below a node, most preferred first.
func (rf *RouteFamily) armsUnder(node []RefSeg) []refArm {
	rs := rf.Em.Ref
	var arms []refArm
	under := func(segs []RefSeg) bool {
		if len(segs) <= len(node) {
			return false
		}
		for i := range node {
			if !segMatch(node[i], segs[i]) {
				return false
			}
		}
		return true
	}
	seenTpl := map[string]bool{}
	for _, op := range rs.Ops {
		if !under(op.Segs) {
			continue
		}
		arms = append(arms, refArm{segs: op.Segs[len(node):], method: op.Method, op: op, tpl: op.Template})
		if rs.Cors && !seenTpl[op.Template] {
			seenTpl[op.Template] = true
			if _, _, hasOpt := rs.RefCORS(op.Template); !hasOpt {
				arms = append(arms, refArm{segs: op.Segs[len(node):], method: "OPTIONS", tpl: op.Template})
			}
		}
	}
	sort.SliceStable(arms, func(i, j int) bool { return segsLess(arms[i].segs, arms[j].segs) })
	return arms
}

func (rf *RouteFamily) apiField(e *FuncEnc, rt string, idx int, st *state) (string, types.Type) {
	ft := rf.api.Struct.Field(idx).Type()
	addr := "(" + e.D.FieldAddrFn(rf.api.API, idx) + " " + rt + ")"
	return e.load(st, addr, ft), ft
}

// ifaceOf mirrors MakeInterface.
func ifaceOf(e *FuncEnc, v string, t types.Type) string {
	tag := e.D.TypeTag(t)
	return sx("mk_iface", itoa(int64(tag)), e.boxed(v, t))
}

// RefRoute holds refRouteAt(SPEC, NODE, path, method) as SMT terms, together
// with its projections.
type RefRoute struct {
	H, Out, HasPath string
	Base            string // the operation's own handler (nil when not found / CORS)
	Auth            string // GSeq of authenticators
	Sec             string // Bool: wrapped by the security middleware
	Cors            string // Bool: the selected arm is a CORS pseudo-operation
	Bad             string // Bool: the selected operation has a requirement goag cannot translate
}

func (rf *RouteFamily) refRouteTerm(e *FuncEnc, node []RefSeg, isRoot bool, rt, path, method string, st *state) (string, string, string) {
	r := rf.refRoute(e, node, isRoot, rt, path, method, st)
	return r.H, r.Out, r.HasPath
}

func (rf *RouteFamily) refRoute(e *FuncEnc, node []RefSeg, isRoot bool, rt, path, method string, st *state) RefRoute {
	em := rf.Em
	e.D.needSeq()
	P := path
	under := "true"
	if isRoot {
		if B := em.Ref.NormBase(); B != "" {
			P = sx("ssub", path, itoa(int64(len(B))), sx("slen", path))
			under = hasPrefixLit(path, B)
		}
	}
	r := RefRoute{H: "iface_nil", Out: "str_empty", HasPath: "false", Base: "iface_nil", Auth: "seq_nil", Sec: "false", Cors: "false", Bad: "false"}
	arms := rf.armsUnder(node)
	for i := len(arms) - 1; i >= 0; i-- {
		a := arms[i]
		conds := []string{under}
		cur := P
		for _, s := range a.segs {
			conds = append(conds, sx("startsSlash", cur))
			if !s.IsVar {
				conds = append(conds, eq(sx("sfirst", cur), e.D.Lit("/"+s.Lit)))
			}
			cur = sx("srest", cur)
		}
		conds = append(conds, eq(cur, "str_empty"), eq(method, e.D.Lit(a.method)))
		cond := e.define("armcond", "Bool", and(conds...))
		if a.op == nil {
			ah, aout, ahp := rf.corsResult(e, rt, a.tpl, st)
			r.H, r.Out, r.HasPath = ite(cond, ah, r.H), ite(cond, aout, r.Out), ite(cond, ahp, r.HasPath)
			r.Base, r.Auth, r.Sec = ite(cond, "iface_nil", r.Base), ite(cond, "seq_nil", r.Auth), ite(cond, "false", r.Sec)
			r.Cors, r.Bad = ite(cond, "true", r.Cors), ite(cond, "false", r.Bad)
			continue
		}
		full, base, auth, sec, bad := rf.handlerTerm(e, rt, a.op, st)
		r.H, r.Out, r.HasPath = ite(cond, full, r.H), ite(cond, e.D.Lit(a.tpl), r.Out), ite(cond, "true", r.HasPath)
		r.Base, r.Auth, r.Sec = ite(cond, base, r.Base), ite(cond, auth, r.Auth), ite(cond, sec, r.Sec)
		r.Cors, r.Bad = ite(cond, "false", r.Cors), ite(cond, bad, r.Bad)
	}
	return r
}

func (rf *RouteFamily) problem(s string) string {
	for _, p := range rf.Problems {
		if p == s {
			return s
		}
	}
	rf.Problems = append(rf.Problems, s)
	return s
}

// badTerm is a value no emitted code can produce: used where the reference
// says "generation must not succeed" (e.g. unsupported security).
func badTerm(e *FuncEnc, why string) string {
	n := "unsatisfiable_" + mangle(why)
	e.D.Const(n, "Iface")
	e.D.Axiom("bad:"+n, fmt.Sprintf("(= (if_tag %s) (- 1))", n))
	return n
}

// handlerTerm: the reference handler of an operation: (full value, base
// handler, authenticator sequence, secured?, untranslatable?).
func (rf *RouteFamily) handlerTerm(e *FuncEnc, rt string, op *RefOp, st *state) (full, base, auth, sec, bad string) {
	idx, ok := rf.opField[[2]string{op.Method, op.Template}]
	if !ok {
		b := badTerm(e, rf.problem(fmt.Sprintf("no API handler field reports %s %s", op.Method, op.Template)))
		return b, b, "seq_nil", "false", "false"
	}
	fv, ft := rf.apiField(e, rt, idx, st)
	h0 := ifaceOf(e, fv, ft)
	if len(op.Security) == 0 {
		return h0, h0, "seq_nil", "false", "false"
	}
	// expected authenticators, in the order of the alternatives
	var auths []string
	for _, alt := range op.Security {
		if len(alt) != 1 {
			rf.problem(fmt.Sprintf("%s %s: security requirement with %d schemes cannot be translated", op.Method, op.Template, len(alt)))
			return badTerm(e, "untranslatable security"), h0, "seq_nil", "true", "true"
		}
		s := alt[0]
		var src string
		switch s.Kind() {
		case "bearer":
			src = "bearer"
		case "apikey-header":
			src = "header:" + s.Name
		case "apikey-query":
			src = "query:" + s.Name
		default:
			rf.problem(fmt.Sprintf("%s %s: security scheme %q (%s) is not supported", op.Method, op.Template, s.Key, s.Type))
			return badTerm(e, "untranslatable security"), h0, "seq_nil", "true", "true"
		}
		fi, ok := rf.authFld[src]
		if !ok {
			// header names are case-insensitive
			for k, v := range rf.authFld {
				if strings.EqualFold(k, src) {
					fi, ok = v, true
				}
			}
		}
		if !ok {
			rf.problem(fmt.Sprintf("no authenticator field reads %s", src))
			return badTerm(e, "no authenticator for "+src), h0, "seq_nil", "true", "true"
		}
		av, at := rf.apiField(e, rt, fi, st)
		auths = append(auths, e.boxed(ifaceOf(e, av, at), rf.authIfaceType()))
	}
	seq := e.D.SeqLit(auths)
	return rf.securedTerm(e, h0, seq), h0, seq, "true", "false"
}

func (rf *RouteFamily) authIfaceType() types.Type {
	if o := rf.Em.Pkg.Pkg.Scope().Lookup("AuthMiddleware"); o != nil {
		return o.Type()
	}
	return types.NewInterfaceType(nil, nil)
}

// securedTerm = middlewares(h0, authMiddlewareOr(auths...)) under the purefunc
// contracts of the two emitted helpers.
func (rf *RouteFamily) securedTerm(e *FuncEnc, h0 string, authSeq string) string {
	em := rf.Em
	or := em.Func("authMiddlewareOr")
	mw := em.Func("middlewares")
	if or == nil || mw == nil {
		return badTerm(e, rf.problem("authMiddlewareOr / middlewares not emitted although an operation is secured"))
	}
	orRes := e.PureFuncTerm(or.String(), 0, []string{authSeq}, []string{"GSeq"}, "Int")
	mwT := or.Signature.Results().At(0).Type() // MiddlewareFunc
	mwIface := mw.Signature.Params().At(1).Type().(*types.Slice).Elem()
	elem := e.boxed(ifaceOf(e, orRes, mwT), mwIface)
	return e.PureFuncTerm(mw.String(), 0, []string{h0, e.D.SeqLit([]string{elem})}, []string{"Iface", "GSeq"}, "Iface")
}

func (rf *RouteFamily) corsResult(e *FuncEnc, rt, tpl string, st *state) (string, string, string) {
	idx, ok := rf.api.fieldIdx["CORSHandler"]
	if !ok {
		return badTerm(e, rf.problem("CORS enabled but API has no CORSHandler field")), "str_empty", "false"
	}
	fv, ft := rf.apiField(e, rt, idx, st)
	methods, headers, _ := rf.Em.Ref.RefCORS(tpl)
	// permutation hint from the emitted literals (checked here, not trusted)
	mOrd, hOrd := rf.corsHint(tpl, methods, headers)
	strT := types.Typ[types.String]
	var ms, hs []string
	for _, m := range mOrd {
		ms = append(ms, e.boxed(e.D.Lit(m), strT))
	}
	for _, h := range hOrd {
		hs = append(hs, e.boxed(e.D.Lit(h), strT))
	}
	name := "func:" + shortType(ft)
	res := e.DynPureTerm(name, 0, []string{fv, e.D.SeqLit(ms), e.D.SeqLit(hs)}, []string{"Int", "GSeq", "GSeq"}, "Iface")
	// environment: the user's CORS constructor returns a handler (a nil result
	// would make a literal branch fall through to its variable sibling's answer)
	e.Assumed["the user's CORS handler constructor returns a non-nil handler"] = true
	e.assume("true", not(eq(sx("if_tag", res), "0")))
	return ite(eq(fv, "0"), "iface_nil", res), "str_empty", "false"
}

// corsHint: find, in the emitted route functions, a CORSHandler call whose
// literal arguments are a duplicate-free permutation of the reference sets;
// use its order. If none is, the reference order is used (and the proof fails).
func (rf *RouteFamily) corsHint(tpl string, methods, headers []string) ([]string, []string) {
	for f := range rf.Nodes {
		for _, b := range f.Blocks {
			for _, in := range b.Instrs {
				c, ok := in.(*ssa.Call)
				if !ok || c.Call.IsInvoke() || c.Call.StaticCallee() != nil || len(c.Call.Args) != 2 {
					continue
				}
				m, ok1 := sliceLiteral(c.Call.Args[0])
				h, ok2 := sliceLiteral(c.Call.Args[1])
				if ok1 && ok2 && isPerm(m, methods) && isPerm(h, headers) {
					return m, h
				}
			}
		}
	}
	return methods, headers
}

func isPerm(a, b []string) bool {
	if len(a) != len(b) {
		return false
	}
	x := append([]string{}, a...)
	y := append([]string{}, b...)
	sort.Strings(x)
	sort.Strings(y)
	for i := range x {
		if x[i] != y[i] || (i > 0 && x[i] == x[i-1]) {
			return false
		}
	}
	return true
}

// sliceLiteral recognises []string{"a","b"} in SSA (Slice of a fresh array
// whose cells are stored constants) and []string{} / nil.
func sliceLiteral(v ssa.Value) ([]string, bool) {
	switch x := v.(type) {
	case *ssa.Const:
		if x.Value == nil {
			return nil, true
		}
	case *ssa.Slice:
		al, ok := x.X.(*ssa.Alloc)
		if !ok {
			return nil, false
		}
		at, ok := al.Type().Underlying().(*types.Pointer).Elem().Underlying().(*types.Array)
		if !ok {
			return nil, false
		}
		out := make([]string, at.Len())
		found := 0
		for _, r := range *al.Referrers() {
			ia, ok := r.(*ssa.IndexAddr)
			if !ok {
				continue
			}
			ic, ok := ia.Index.(*ssa.Const)
			if !ok {
				return nil, false
			}
			for _, rr := range *ia.Referrers() {
				if st, ok := rr.(*ssa.Store); ok {
					if s, ok := constString(st.Val); ok {
						out[ic.Int64()] = s
						found++
					}
				}
			}
		}
		return out, found == len(out)
	}
	return nil, false
}
