package vc

import (
	"encoding/json"
	"fmt"
	"os"
	"path/filepath"
	"regexp"
	"sort"
	"strings"
	"sync"
	"time"
)

// Failure is one obligation that did not discharge, after triage.
type Failure struct {
	Prop      string
	Obl       *Obligation
	Enc       *FuncEnc
	Entry     string
	Witness   map[string]string
	Replay    *ReplayResult
	Known     *KnownFinding
	Verdict   string // violation | known | undecided
	ReplayFile string
}

type KnownFinding struct {
	Prop    string
	Pattern string // regexp on the obligation name
	Excuse  string // contract-language condition excluding the known witness class ("" = none)
	What    string
	Fixed   bool
	Line    string
	used    int
}

// LoadKnownFindings parses /verif/known_findings.txt:
//
//	known: property=C03 obligation=<regexp> excuse=<expr|-> :: what fails
//	fixed: property=C03 <commit> <what failed>
func LoadKnownFindings(path string) ([]*KnownFinding, error) {
	data, err := os.ReadFile(path)
	if err != nil {
		if os.IsNotExist(err) {
			return nil, nil
		}
		return nil, err
	}
	var out []*KnownFinding
	for _, line := range strings.Split(string(data), "\n") {
		line = strings.TrimSpace(line)
		if line == "" || strings.HasPrefix(line, "#") {
			continue
		}
		if strings.HasPrefix(line, "fixed:") {
			continue // a fixed entry suppresses nothing
		}
		if !strings.HasPrefix(line, "known:") {
			return nil, fmt.Errorf("known_findings: bad line %q", line)
		}
		head, what, _ := strings.Cut(line[len("known:"):], "::")
		kf := &KnownFinding{What: strings.TrimSpace(what), Line: line}
		m := regexp.MustCompile(`property=(\S+)\s+obligation=(\S+)\s+excuse=(.*)$`).FindStringSubmatch(strings.TrimSpace(head))
		if m == nil {
			return nil, fmt.Errorf("known_findings: bad line %q", line)
		}
		kf.Prop, kf.Pattern, kf.Excuse = m[1], m[2], strings.TrimSpace(m[3])
		if kf.Excuse == "-" {
			kf.Excuse = ""
		}
		out = append(out, kf)
	}
	return out, nil
}

// Baseline: obligations proved on the unchanged tree (names), per property.
type Baseline struct {
	Proved map[string]map[string]bool `json:"-"`
	Raw    map[string][]string        `json:"proved"`
}

func LoadBaseline(path string) *Baseline {
	b := &Baseline{Proved: map[string]map[string]bool{}, Raw: map[string][]string{}}
	data, err := os.ReadFile(path)
	if err != nil {
		return b
	}
	_ = json.Unmarshal(data, b)
	for p, names := range b.Raw {
		b.Proved[p] = map[string]bool{}
		for _, n := range names {
			b.Proved[p][n] = true
		}
	}
	return b
}

// CheckRun accumulates the result of one property check.
type CheckRun struct {
	// AlsoProps: obligations tagged with these properties count for the run as
	// well (C09: the server half of the agreement is the C04 / C05 clauses)
	AlsoProps map[string]bool
	Prop, Tier string
	Seed       int64
	Repo       string
	VerifDir   string
	Scratch    string
	Start      time.Time

	mu           sync.Mutex
	Obligations  int
	Discharged   int
	Functions    map[string]bool
	Programs     []string
	SkippedProgs []string
	Failures     []*Failure
	Assumed      map[string]bool
	Abstracted   map[string]bool
	Samples      []map[string]any
	Bounded      []map[string]any
	Slow         []map[string]any // obligations that took more than a second
	Notes        []string
	ProvedNames  []string
	EngineErrors []string
	Known        []*KnownFinding
	KnownHits    map[string][]string
	impreciseBase map[string]bool
	Extra        map[string]any
	// LoadFailureRelevant: a generated package that does not type-check counts
	// against the property of this run when the compiler message concerns the
	// code the property is about.
	LoadFailureRelevant func(msg string) bool
}

func NewCheckRun(prop, tier string, seed int64, repo, verif string) (*CheckRun, error) {
	scratchRoot := os.Getenv("VERIF_SCRATCH")
	if scratchRoot == "" {
		scratchRoot = "/var/tmp"
	}
	scratch, err := os.MkdirTemp(scratchRoot, "goagvc-"+prop+"-")
	if err != nil {
		return nil, err
	}
	cr := &CheckRun{Prop: prop, Tier: tier, Seed: seed, Repo: repo, VerifDir: verif, Scratch: scratch, Start: time.Now(),
		Functions: map[string]bool{}, Assumed: map[string]bool{}, Abstracted: map[string]bool{}, KnownHits: map[string][]string{}, Extra: map[string]any{}}
	SetEmittedNamesPath(filepath.Join(verif, "baseline", "emitted-functions.json"))
	cr.Known, err = LoadKnownFindings(filepath.Join(verif, "known_findings.txt"))
	if err != nil {
		return nil, err
	}
	return cr, nil
}

func (cr *CheckRun) Cleanup() {
	if os.Getenv("GOAGVC_RECORD_EMITTED") != "" {
		if err := WriteEmittedNames(); err != nil {
			fmt.Println("ENGINE-ERROR:", err)
		}
	}
	if os.Getenv("GOAGVC_KEEP") == "" {
		os.RemoveAll(cr.Scratch)
	} else {
		fmt.Println("scratch kept:", cr.Scratch)
	}
}

func (cr *CheckRun) Note(format string, a ...any) {
	cr.mu.Lock()
	defer cr.mu.Unlock()
	cr.Notes = append(cr.Notes, fmt.Sprintf(format, a...))
}

// VerifyFunc encodes and verifies one function and files its obligations for
// the property of this run. `filter` selects obligations (nil = by Props tag).
func (cr *CheckRun) VerifyFunc(e *FuncEnc, entry string, filter func(o *Obligation) bool, replay func(f *Failure)) {
	e.Encode()
	cr.VerifyEncoded(e, entry, filter, replay)
}

// VerifyEncoded files the obligations of an already built script (a function
// encoding, or a lemma over contracts).
func (cr *CheckRun) VerifyEncoded(e *FuncEnc, entry string, filter func(o *Obligation) bool, replay func(f *Failure)) {
	timeout := 10
	if cr.Tier == "thorough" {
		timeout = 30
	}
	var mine []*Obligation
	for _, o := range e.Obls {
		keep := false
		if filter != nil {
			keep = filter(o)
		} else {
			for _, p := range o.Props {
				if p == cr.Prop || cr.AlsoProps[p] {
					keep = true
				}
			}
		}
		if keep {
			mine = append(mine, o)
		}
	}
	if len(mine) == 0 {
		return
	}
	all := e.Obls
	e.Obls = mine
	tv0 := time.Now()
	ctxCh := make(chan string, 1)
	go func() { ctxCh <- e.ContextConsistent(cr.Scratch) }()
	r := e.Verify(cr.Scratch, timeout)
	e.Obls = all
	if st := <-ctxCh; st == "unsat" {
		cr.mu.Lock()
		cr.EngineErrors = append(cr.EngineErrors, e.Name+": the assumptions of the encoding are contradictory (every obligation of this function would be proved vacuously)")
		cr.mu.Unlock()
	}
	if os.Getenv("GOAGVC_DEBUG_TIME") != "" {
		fmt.Printf("TIME %6.1fs %4d obls %s\n", time.Since(tv0).Seconds(), len(mine), e.Name)
	}
	cr.mu.Lock()
	cr.Functions[e.Name] = true
	for _, a := range r.Assumed {
		cr.Assumed[a] = true
	}
	for _, a := range r.Abstracted {
		cr.Abstracted[e.Name+": "+a] = true
	}
	for _, se := range r.SpecErrors {
		cr.EngineErrors = append(cr.EngineErrors, "contract error: "+se)
	}
	cr.mu.Unlock()
	if os.Getenv("GOAGVC_DEBUG_IMPRECISE") != "" && len(e.Imprecise) > 0 {
		fmt.Printf("IMPRECISE %s: %s\n", e.Name, strings.Join(e.Imprecise, "; "))
	}
	if os.Getenv("GOAGVC_DEBUG_OBLS") != "" {
		for _, o := range all {
			fmt.Printf("OBL %-10s %v %s\n", o.Status, o.Props, o.Name)
		}
	}
	for _, o := range mine {
		cr.mu.Lock()
		cr.Obligations++
		if o.Secs > 1.0 {
			cr.Slow = append(cr.Slow, map[string]any{"obligation": o.Name, "secs": round3(o.Secs), "solver": o.Solver, "status": o.Status})
		}
		if o.Status == "proved" {
			cr.Discharged++
			cr.ProvedNames = append(cr.ProvedNames, o.Name)
			if len(cr.Samples) < 6 {
				cr.Samples = append(cr.Samples, map[string]any{"obligation": o.Name, "status": "proved", "solver": o.Solver, "secs": round3(o.Secs), "formula_bytes": len(o.Formula), "pos": o.Pos.String()})
			}
		}
		cr.mu.Unlock()
		if o.Status == "proved" {
			continue
		}
		f := &Failure{Prop: cr.Prop, Obl: o, Enc: e, Entry: entry}
		cr.triage(f, replay)
	}
}

func round3(f float64) float64 { return float64(int(f*1000)) / 1000 }

// triage decides what a failed obligation is.
func (cr *CheckRun) triage(f *Failure, replay func(f *Failure)) {
	o, e := f.Obl, f.Enc
	// 1. a listed known finding whose excuse fully explains the failure
	for _, kf := range cr.Known {
		if kf.Prop != cr.Prop {
			continue
		}
		re, err := regexp.Compile(kf.Pattern)
		if err != nil || !re.MatchString(o.Name) {
			continue
		}
		if kf.Excuse == "" {
			f.Known = kf
			break
		}
		ex, err := e.ExcuseFormula(kf.Excuse)
		if err != nil {
			cr.Note("known finding excuse %q does not translate for %s: %v", kf.Excuse, o.Name, err)
			continue
		}
		if st := e.Recheck(o, cr.Scratch, ex, 10); st == "unsat" {
			f.Known = kf
			break
		}
	}
	if f.Known != nil {
		f.Verdict = "known"
		cr.mu.Lock()
		cr.KnownHits[f.Known.Line] = append(cr.KnownHits[f.Known.Line], o.Name)
		cr.Failures = append(cr.Failures, f)
		cr.mu.Unlock()
		return
	}
	// 2. counterexample + replay on the real code
	if len(e.Queries) > 0 {
		f.Witness, _ = e.Witness(o, cr.Scratch, "")
	}
	if replay != nil {
		replay(f)
	}
	f.Verdict = "violation"
	// 3. not decided, and not decidable here: the function uses something the
	// encoder over-approximates (a function value of untraced origin, an
	// unmodelled instruction), the solver gave no counterexample that replays,
	// and the bounded stand-in for this property ran on the real code and found
	// nothing. That is "undecided", reported as such and never as proved.
	if len(e.Imprecise) > 0 && !cr.impreciseAtBaseline(e.Name) && f.Replay != nil && !f.Replay.Reproduced && f.Replay.Input != "" && f.Replay.Bounded {
		f.Verdict = "undecided"
	}
	cr.mu.Lock()
	cr.Failures = append(cr.Failures, f)
	cr.mu.Unlock()
}

// impreciseAtBaseline: the function already contained an over-approximated
// construct on the unchanged tree and its obligations discharged all the same
// (baseline/imprecise-functions.json, regular expressions on the function name
// without its corpus entry); a failure in it is then not a matter of
// the subset and stays a violation.
func (cr *CheckRun) impreciseAtBaseline(name string) bool {
	cr.mu.Lock()
	defer cr.mu.Unlock()
	if cr.impreciseBase == nil {
		cr.impreciseBase = map[string]bool{}
		if data, err := os.ReadFile(filepath.Join(cr.VerifDir, "baseline", "imprecise-functions.json")); err == nil {
			var ns []string
			if json.Unmarshal(data, &ns) == nil {
				for _, n := range ns {
					cr.impreciseBase[n] = true
				}
			}
		}
	}
	short := regexp.MustCompile(`^emitted\[[^\]]*\]`).ReplaceAllString(name, "")
	for pat := range cr.impreciseBase {
		if regexpMatch(pat, short) {
			return true
		}
	}
	return false
}

// Finish prints the verdict lines, writes the evidence file and returns the
// exit code.
func (cr *CheckRun) Finish(level string, checker string, trusted []string, rule string) int {
	defer cr.Cleanup()
	code := 0
	replayDir := filepath.Join(cr.VerifDir, "replay", cr.Prop)
	violations := 0
	// known findings: one line per listed finding that was hit
	for _, kf := range cr.Known {
		if hits := cr.KnownHits[kf.Line]; len(hits) > 0 {
			sort.Strings(hits)
			fmt.Printf("KNOWN-FINDING: property=%s %s (%d obligation(s), e.g. %s)\n", cr.Prop, kf.What, len(hits), hits[0])
		}
	}
	sort.Slice(cr.Failures, func(i, j int) bool { return cr.Failures[i].Obl.Name < cr.Failures[j].Obl.Name })
	undecided := 0
	for _, f := range cr.Failures {
		if f.Verdict != "undecided" {
			continue
		}
		undecided++
		why := ""
		if f.Enc != nil && len(f.Enc.Imprecise) > 0 {
			why = f.Enc.Imprecise[0]
		}
		fmt.Printf("UNDECIDED property=%s obligation=%s outside-the-verified-subset: %s; bounded stand-in on the real code: %s: %s\n", cr.Prop, f.Obl.Name, why, f.Replay.Input, f.Replay.Observed)
		cr.Bounded = append(cr.Bounded, map[string]any{"what": "obligation " + f.Obl.Name + " not decidable: " + why, "bound": f.Replay.Input, "result": f.Replay.Observed, "counts_as_proved": false})
	}
	for _, f := range cr.Failures {
		if f.Verdict != "violation" {
			continue
		}
		violations++
		_ = os.MkdirAll(replayDir, 0o755)
		file := filepath.Join(replayDir, sanitize(f.Obl.Name)+".json")
		rec := map[string]any{
			"property":   cr.Prop,
			"obligation": f.Obl.Name,
			"position":   f.Obl.Pos.String(),
			"entry":      f.Entry,
			"status":     f.Obl.Status,
			"solver":     f.Obl.Solver,
			"formula":    truncate(f.Obl.Formula, 4000),
			"witness":    f.Witness,
			"solver_output": truncate(f.Obl.Model, 4000),
		}
		suffix := ""
		if f.Replay != nil {
			rec["replay"] = f.Replay
			if !f.Replay.Reproduced {
				suffix = " no-failing-input-found"
			}
		} else {
			suffix = " no-failing-input-found"
		}
		data, _ := json.MarshalIndent(rec, "", " ")
		_ = os.WriteFile(file, data, 0o644)
		fmt.Printf("VIOLATION property=%s replay=%s obligation=%s%s\n", cr.Prop, file, f.Obl.Name, suffix)
		code = 1
	}
	for _, ee := range cr.EngineErrors {
		fmt.Println("ENGINE-ERROR:", ee)
		code = 2
	}
	ScriptErrors.Range(func(k, v any) bool {
		fmt.Printf("ENGINE-ERROR: solver rejected script %v: %s\n", k, truncate(fmt.Sprint(v), 300))
		code = 2
		return true
	})
	if cr.Obligations == 0 {
		fmt.Println("ENGINE-ERROR: no obligations were generated (vacuous run)")
		code = 2
	}
	// evidence
	ev := map[string]any{
		"property_id": cr.Prop,
		"tier":        cr.Tier,
		"seed":        cr.Seed,
		"level":       level,
		"wall_s":      round3(time.Since(cr.Start).Seconds()),
		"violations":  violations,
	}
	if undecided > 0 {
		ev["undecided"] = undecided
	}
	known := 0
	for _, f := range cr.Failures {
		if f.Verdict == "known" {
			known++
		}
	}
	fns := sortedKeys(cr.Functions)
	sort.Strings(cr.Programs)
	solverSecs := map[string]float64{}
	SolverSecs.Range(func(k, v any) bool { solverSecs[k.(string)] = round3(float64(*(v.(*int64))) / 1e6); return true })
	solverWins := map[string]int64{}
	SolverCounts.Range(func(k, v any) bool { solverWins[k.(string)] = *(v.(*int64)); return true })
	cov := map[string]any{
		"obligations":   cr.Obligations,
		"discharged":    cr.Discharged,
		"open_known_findings": known,
		"checker_cmd":   checker,
		"trusted_base":  trusted,
		"functions_under_contract": fns,
		"programs":      len(cr.Programs),
		"program_names": cr.Programs,
		"programs_skipped": cr.SkippedProgs,
		"samples":       cr.Samples,
		"rule":          rule,
		"evaluations":   cr.Obligations,
		"distinct_nontrivial": cr.Obligations,
		"solver_seconds": solverSecs,
		"discharged_by":  solverWins,
		"abstracted":     sortedKeys(cr.Abstracted),
		"bounded_parts":  cr.Bounded,
		"slow_obligations": slowest(cr.Slow, 8),
		"notes":          cr.Notes,
		"exhaustive":     false,
	}
	for k, v := range cr.Extra {
		cov[k] = v
	}
	if len(cr.Samples) == 0 {
		cov["samples"] = []any{map[string]any{"note": "no obligation discharged"}}
	}
	ev["coverage"] = cov
	ev["assumptions"] = sortedKeys(cr.Assumed)
	_ = os.MkdirAll(filepath.Join(cr.VerifDir, "evidence"), 0o755)
	data, _ := json.MarshalIndent(ev, "", " ")
	_ = os.WriteFile(filepath.Join(cr.VerifDir, "evidence", cr.Prop+".json"), data, 0o644)
	fmt.Printf("SUMMARY property=%s tier=%s obligations=%d discharged=%d known=%d violations=%d functions=%d programs=%d wall=%.1fs\n",
		cr.Prop, cr.Tier, cr.Obligations, cr.Discharged, known, violations, len(fns), len(cr.Programs), time.Since(cr.Start).Seconds())
	return code
}

func truncate(s string, n int) string {
	if len(s) > n {
		return s[:n] + "…"
	}
	return s
}

// ReplayResult of running a counterexample against the real code.
type ReplayResult struct {
	Reproduced bool   `json:"reproduced"`
	Input      string `json:"input"`
	Expected   string `json:"expected"`
	Observed   string `json:"observed"`
	Cmd        string `json:"cmd"`
	Output     string `json:"output"`
	// Bounded: the harness is a search over generated inputs on the real code
	// and it ran to completion (a bounded stand-in, not a replay of one model)
	Bounded bool `json:"bounded,omitempty"`
}

func regexpMatch(pat, s string) bool {
	re, err := regexp.Compile(pat)
	return err == nil && re.MatchString(s)
}

func slowest(xs []map[string]any, n int) []map[string]any {
	sort.Slice(xs, func(i, j int) bool { return xs[i]["secs"].(float64) > xs[j]["secs"].(float64) })
	if len(xs) > n {
		xs = xs[:n]
	}
	return xs
}
