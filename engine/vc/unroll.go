package vc

import (
	"go/constant"
	"go/token"
	"go/types"

	"golang.org/x/tools/go/ssa"
)

// Loops over a slice literal (`for _, x := range []T{a, b, c}`) have a trip
// count that is fixed by the text of the function. They are unrolled: the
// header and the body are encoded once per iteration, as straight-line code,
// with the index a literal. No invariant is needed and nothing is
// over-approximated; a `return` inside the body is encoded once per iteration
// (tail duplication of the return block). Loops that do not fit the pattern are
// cut with invariants as before.

const maxUnroll = 8

type unrollInfo struct {
	li     *loopInfo
	n      int
	idxPhi *ssa.Phi   // #rangeindex: -1, 0, ..
	idxNext ssa.Value // idxPhi + 1: the element index of the iteration
	order  []*ssa.BasicBlock
	exits  map[*ssa.BasicBlock]bool
}

// sliceLitLen: v is len(s) for s = slice of a fresh array literal; returns the
// array and its length.
func sliceLitOf(v ssa.Value) (*ssa.Alloc, int, bool) {
	sl, ok := v.(*ssa.Slice)
	if !ok || sl.Low != nil || sl.High != nil || sl.Max != nil {
		return nil, 0, false
	}
	al, ok := sl.X.(*ssa.Alloc)
	if !ok || al.Comment != "slicelit" {
		return nil, 0, false
	}
	at, ok := al.Type().Underlying().(*types.Pointer).Elem().Underlying().(*types.Array)
	if !ok {
		return nil, 0, false
	}
	return al, int(at.Len()), true
}

func (e *FuncEnc) findUnrollable(order []*ssa.BasicBlock) {
	e.unroll = map[*ssa.BasicBlock]*unrollInfo{}
	e.unrollSkip = map[*ssa.BasicBlock]bool{}
	if e.W != nil && e.W.NoUnroll {
		return
	}
	for _, li := range e.loopList() {
		h := li.header
		ord := e.loopOrd[h]
		if e.Contract != nil && (e.Contract.LoopHook != nil || len(e.Contract.LoopInv[ord]) > 0) {
			continue
		}
		if e.W != nil && e.W.LoopSummaryMatch != nil && e.W.LoopSummaryMatch(li) {
			continue // replaced by its summary
		}
		u := e.unrollable(li)
		if u == nil {
			continue
		}
		for _, b := range order {
			if li.body[b] && b != h {
				u.order = append(u.order, b)
			}
		}
		e.unroll[h] = u
	}
	for h, u := range e.unroll {
		delete(e.loops, h)
		for b := range u.li.body {
			if b != h {
				e.unrollSkip[b] = true
			}
		}
		for b := range u.exits {
			e.unrollSkip[b] = true
		}
	}
}

func (e *FuncEnc) unrollable(li *loopInfo) *unrollInfo {
	h := li.header
	if len(h.Succs) != 2 || len(li.body) > 16 {
		return nil
	}
	// no other loop inside, and not inside another unrollable candidate's way
	for h2, l2 := range e.loops {
		if h2 != h && (li.body[h2] || false) {
			_ = l2
			return nil
		}
	}
	// shape of the header: phis, idx+1, idx+1 < len(literal), if
	var idx *ssa.Phi
	var rest []ssa.Instruction
	for _, in := range h.Instrs {
		if phi, ok := in.(*ssa.Phi); ok {
			if phi.Comment == "rangeindex" {
				idx = phi
			}
			continue
		}
		rest = append(rest, in)
	}
	if idx == nil || len(rest) != 3 {
		return nil
	}
	next, ok := rest[0].(*ssa.BinOp)
	if !ok || next.Op != token.ADD || next.X != ssa.Value(idx) || !isConstInt(next.Y, 1) {
		return nil
	}
	cmp, ok := rest[1].(*ssa.BinOp)
	if !ok || cmp.Op != token.LSS || cmp.X != ssa.Value(next) {
		return nil
	}
	iff, ok := rest[2].(*ssa.If)
	if !ok || iff.Cond != ssa.Value(cmp) || !li.body[h.Succs[0]] || li.body[h.Succs[1]] {
		return nil
	}
	n := -1
	if c, ok := cmp.Y.(*ssa.Const); ok && c.Value != nil && c.Value.Kind() == constant.Int {
		if v, exact := constant.Int64Val(c.Value); exact && v >= 0 {
			n = int(v)
		}
	} else if call, ok := cmp.Y.(*ssa.Call); ok {
		if b, ok := call.Call.Value.(*ssa.Builtin); ok && b.Name() == "len" && len(call.Call.Args) == 1 {
			if al, m, ok := sliceLitOf(call.Call.Args[0]); ok && al.Block().Dominates(h) && !li.body[al.Block()] {
				n = m
			}
		}
	}
	if n < 0 || n > maxUnroll {
		return nil
	}
	// the index starts at -1 on every entry edge and is idx+1 on the back edges
	backs := 0
	for i, p := range h.Preds {
		if e.backEdge[[2]int{p.Index, h.Index}] {
			backs++
			if idx.Edges[i] != ssa.Value(next) {
				return nil
			}
		} else if !isConstInt(idx.Edges[i], -1) {
			return nil
		}
	}
	if backs == 0 {
		return nil
	}
	// exits from the body: only to blocks of their own that return or panic
	u := &unrollInfo{li: li, n: n, idxPhi: idx, idxNext: next, exits: map[*ssa.BasicBlock]bool{}}
	instrs := 0
	for b := range li.body {
		instrs += len(b.Instrs)
		if b == h {
			continue
		}
		for _, s := range b.Succs {
			if li.body[s] {
				continue
			}
			if len(s.Preds) != 1 || len(s.Succs) != 0 {
				return nil
			}
			u.exits[s] = true
			instrs += len(s.Instrs)
		}
	}
	if instrs*(n+1) > 600 {
		return nil
	}
	return u
}

func isConstInt(v ssa.Value, want int64) bool {
	c, ok := v.(*ssa.Const)
	if !ok || c.Value == nil || c.Value.Kind() != constant.Int {
		return false
	}
	x, exact := constant.Int64Val(c.Value)
	return exact && x == want
}

// encodeUnrolled encodes all iterations of an unrolled loop.
func (e *FuncEnc) encodeUnrolled(u *unrollInfo) {
	h := u.li.header
	for k := 0; k <= u.n; k++ {
		e.unrollIter[h] = k
		e.encodeBlock(h)
		// the index of this iteration is a literal
		e.val[u.idxPhi] = itoa(int64(k - 1))
		e.val[u.idxNext] = itoa(int64(k))
		e.constInt[u.idxPhi] = int64(k - 1)
		e.constInt[u.idxNext] = int64(k)
		if k == u.n {
			break
		}
		for _, b := range u.order {
			e.encodeBlock(b)
			for _, s := range b.Succs {
				if u.exits[s] {
					e.encodeBlock(s)
				}
			}
		}
	}
	delete(e.constInt, u.idxPhi)
	delete(e.constInt, u.idxNext)
	e.Assumed["loops over a slice literal are unrolled (trip count fixed by the text of the function)"] = true
}

// sliceLitElem: v is a load of element k (known in the current unrolled
// iteration, or constant) of a slice literal whose elements are only written
// where the literal is built; returns the value stored there.
func (e *FuncEnc) sliceLitElem(v ssa.Value) ssa.Value {
	ld, ok := v.(*ssa.UnOp)
	if !ok || ld.Op != token.MUL {
		return nil
	}
	ia, ok := ld.X.(*ssa.IndexAddr)
	if !ok {
		return nil
	}
	al, n, ok := sliceLitOf(ia.X)
	if !ok {
		return nil
	}
	var k int64 = -1
	if c, ok := e.constInt[ia.Index]; ok {
		k = c
	} else if c, ok := ia.Index.(*ssa.Const); ok && c.Value != nil && c.Value.Kind() == constant.Int {
		k, _ = constant.Int64Val(c.Value)
	}
	if k < 0 || k >= int64(n) {
		return nil
	}
	// every use of the array: element addresses with constant index that are
	// stored to once, in the block of the literal, and the slice itself, which is
	// only measured and indexed for reading
	var found ssa.Value
	for _, r := range *al.Referrers() {
		switch x := r.(type) {
		case *ssa.IndexAddr:
			c, ok := x.Index.(*ssa.Const)
			if !ok || x.Block() != al.Block() {
				return nil
			}
			ci, _ := constant.Int64Val(c.Value)
			for _, rr := range *x.Referrers() {
				st, ok := rr.(*ssa.Store)
				if !ok || st.Addr != ssa.Value(x) {
					return nil
				}
				if ci == k {
					if found != nil {
						return nil
					}
					found = st.Val
				}
			}
		case *ssa.Slice:
			for _, rr := range *x.Referrers() {
				switch y := rr.(type) {
				case *ssa.IndexAddr:
					for _, r3 := range *y.Referrers() {
						if l, ok := r3.(*ssa.UnOp); !ok || l.Op != token.MUL {
							return nil
						}
					}
				case *ssa.Call:
					if b, ok := y.Call.Value.(*ssa.Builtin); !ok || b.Name() != "len" {
						return nil
					}
				case *ssa.DebugRef:
				default:
					return nil
				}
			}
		case *ssa.DebugRef:
		default:
			return nil
		}
	}
	return found
}
