package vc

import (
	"fmt"
	"go/token"
	"go/types"
	"strings"

	"golang.org/x/tools/go/ssa"
)

// C20 (DESIGN §4.20): schedules are not explored; the property is reduced to
// frame conditions that hold for every schedule. Every store, map update and
// in-place append target in every emitted function must lie in a region that is
// private to the call: allocated during the call, reachable only from its
// arguments, or a variable cell of the enclosing call. Package-level variables
// and the shared receivers (*API, *Client) are never written after init.

type region int

const (
	regPrivate region = iota // allocated in this call
	regArg                   // memory handed in by the caller (per-request values)
	regShared                // package-level state or the shared API / Client value
	regUnknown
)

func (r region) String() string {
	return [...]string{"private", "argument", "shared", "unknown"}[r]
}

func sharedReceiver(p *ssa.Parameter) bool {
	f := p.Parent()
	if f.Signature.Recv() == nil || len(f.Params) == 0 || f.Params[0] != p {
		return false
	}
	pt, ok := p.Type().(*types.Pointer)
	if !ok {
		return false
	}
	n, ok := pt.Elem().(*types.Named)
	return ok && (n.Obj().Name() == "API" || n.Obj().Name() == "Client")
}

type regionBind struct {
	r region
	w string
}

// regionOf: provenance typing of an address / reference value.
func regionOf(v ssa.Value, depth int) (region, string) { return regionOfIn(v, depth, nil) }

// regionOfIn: the same inside a callee of the package whose parameters are
// bound to the regions of the caller's arguments.
func regionOfIn(v ssa.Value, depth int, bind map[*ssa.Parameter]regionBind) (region, string) {
	regionOf := func(v ssa.Value, depth int) (region, string) { return regionOfIn(v, depth, bind) }
	if depth > 12 {
		return regUnknown, "provenance too deep"
	}
	switch x := v.(type) {
	case *ssa.Alloc, *ssa.MakeMap, *ssa.MakeSlice, *ssa.MakeClosure, *ssa.MakeChan:
		return regPrivate, "allocated in the call"
	case *ssa.Global:
		return regShared, "package-level variable " + x.Name()
	case *ssa.Parameter:
		if sharedReceiver(x) {
			return regShared, "field of the shared receiver " + x.Name()
		}
		if b, ok := bind[x]; ok {
			return b.r, b.w
		}
		return regArg, "argument " + x.Name()
	case *ssa.FreeVar:
		return regPrivate, "variable of the enclosing call"
	case *ssa.FieldAddr:
		return regionOf(x.X, depth+1)
	case *ssa.IndexAddr:
		return regionOf(x.X, depth+1)
	case *ssa.Slice:
		return regionOf(x.X, depth+1)
	case *ssa.ChangeType:
		return regionOf(x.X, depth+1)
	case *ssa.Convert:
		return regionOf(x.X, depth+1)
	case *ssa.Field:
		return regionOf(x.X, depth+1)
	case *ssa.Extract:
		return regionOf(x.Tuple, depth+1)
	case *ssa.Lookup:
		return regionOf(x.X, depth+1)
	case *ssa.TypeAssert:
		return regionOf(x.X, depth+1)
	case *ssa.MakeInterface:
		return regionOf(x.X, depth+1)
	case *ssa.UnOp:
		if x.Op == token.MUL {
			// a reference loaded from memory lives where that memory lives
			return regionOf(x.X, depth+1)
		}
	case *ssa.Phi:
		worst, why := regPrivate, "allocated in the call"
		for _, e := range x.Edges {
			if e == v {
				continue
			}
			r, w := regionOf(e, depth+1)
			if r > worst {
				worst, why = r, w
			}
		}
		return worst, why
	case *ssa.Call:
		// results of calls: fresh values (constructors, append, library functions)
		if bi, ok := x.Call.Value.(*ssa.Builtin); ok && bi.Name() == "append" {
			return regionOf(x.Call.Args[0], depth+1)
		}
		// a function of the same package: what it returns, with its parameters
		// standing for the caller's arguments (a helper method on the shared
		// receiver that returns a fresh object returns a fresh object)
		if g := x.Call.StaticCallee(); g != nil && len(g.Blocks) > 0 && g.Pkg != nil && x.Parent() != nil && g.Pkg == x.Parent().Pkg && depth < 8 {
			nb := map[*ssa.Parameter]regionBind{}
			for i, p := range g.Params {
				if i < len(x.Call.Args) {
					r, w := regionOf(x.Call.Args[i], depth+1)
					nb[p] = regionBind{r, w}
				}
			}
			worst, why := regPrivate, "result of a call that returns fresh data"
			for _, b := range g.Blocks {
				ret, ok := b.Instrs[len(b.Instrs)-1].(*ssa.Return)
				if !ok {
					continue
				}
				for _, rv := range ret.Results {
					if !refType(rv.Type()) {
						continue
					}
					r, w := regionOfIn(rv, depth+2, nb)
					if r > worst {
						worst, why = r, "result of "+g.Name()+": "+w
					}
				}
			}
			return worst, why
		}
		// a call result lives at most where its reference arguments live:
		// pool.Get(), cache lookups, accessors of shared objects
		worst, why := regPrivate, "result of a call on private/argument data"
		args := x.Call.Args
		if x.Call.IsInvoke() {
			args = append([]ssa.Value{x.Call.Value}, args...)
		}
		for _, a := range args {
			if !refType(a.Type()) {
				continue
			}
			r, w := regionOf(a, depth+1)
			if r == regShared {
				worst, why = regShared, "result of a call on "+w
			}
		}
		return worst, why
	case *ssa.Const:
		return regPrivate, "constant"
	case *ssa.Next:
		return regionOf(x.Iter, depth+1)
	case *ssa.Range:
		return regionOf(x.X, depth+1)
	}
	return regUnknown, fmt.Sprintf("unclassified %T", v)
}

func refType(t types.Type) bool {
	switch t.Underlying().(type) {
	case *types.Pointer, *types.Map, *types.Slice, *types.Chan:
		return true
	}
	return false
}

// sharedArgAllowed: library calls that only read the shared argument.
func sharedArgAllowed(name string, argIdx int) bool {
	switch name {
	case "http.ResponseWriter.Write", "io.Writer.Write": // Write must not modify the slice (io.Writer contract)
		return true
	case "bytes.Equal", "bytes.NewReader", "bytes.NewBuffer", "fmt.Errorf", "fmt.Sprintf", "log.Println", "log.Printf":
		return true
	}
	return false
}

// CheckIsolation: C20 over the corpus.
func (cr *CheckRun) CheckIsolation(entries []CorpusEntry) {
	bin, err := BuildGoag(cr.Repo, cr.Scratch)
	if err != nil {
		cr.EngineErrors = append(cr.EngineErrors, err.Error())
		return
	}
	cr.Assumed["Go memory model: no two conflicting accesses => no data race; user hooks and net/http are themselves race-free"] = true
	cr.Assumed["regions are a syntactic provenance typing of SSA addresses; pointers returned by calls are treated as fresh"] = true
	cr.RunEntries(bin, entries, false, func(string) bool { return false }, func(job *EmittedJob) {
		if job.Em.W == nil || job.Em.LoadErr != nil || job.Em.GenErr != nil {
			return
		}
		for _, f := range job.Em.W.Functions() {
			name := "emitted[" + job.Em.Entry.Name + "]." + relName(f)
			isInit := strings.HasPrefix(f.Name(), "init")
			counts := map[string]int{}
			for _, b := range f.Blocks {
				for _, in := range b.Instrs {
					var target ssa.Value
					kind := ""
					switch x := in.(type) {
					case *ssa.Store:
						target, kind = x.Addr, "store"
					case *ssa.MapUpdate:
						target, kind = x.Map, "mapupdate"
					case *ssa.Call:
						if bi, ok := x.Call.Value.(*ssa.Builtin); ok && (bi.Name() == "delete" || bi.Name() == "copy") {
							target, kind = x.Call.Args[0], bi.Name()
						}
					case *ssa.Go:
						target, kind = nil, "go"
					}
					// library / interface calls that receive a reference into shared memory
					if ci, ok := in.(ssa.CallInstruction); ok && kind == "" {
						cc := ci.Common()
						callee := cc.StaticCallee()
						external := cc.IsInvoke() || (callee != nil && (callee.Pkg == nil || callee.Pkg != job.Em.Pkg))
						if _, isB := cc.Value.(*ssa.Builtin); isB {
							external = false
						}
						if external && !isInit {
							cname := ""
							if cc.IsInvoke() {
								cname = shortType(cc.Value.Type()) + "." + cc.Method.Name()
							} else {
								cname = callee.String()
							}
							for ai, a := range cc.Args {
								if !refType(a.Type()) {
									continue
								}
								if r, w := regionOf(a, 0); r == regShared && !sharedArgAllowed(cname, ai) {
									n := counts["sharedarg"]
									counts["sharedarg"]++
									o := &Obligation{Name: fmt.Sprintf("%s/frame/sharedarg#%d", name, n), Func: name, Class: "frame", Props: []string{"C20"}, Pos: job.Em.W.Prog.Fset.Position(in.Pos()), Status: "failed", Formula: fmt.Sprintf("%s receives a reference to %s", cname, w)}
									cr.mu.Lock()
									cr.Obligations++
									cr.Functions[name] = true
									cr.Failures = append(cr.Failures, &Failure{Prop: "C20", Obl: o, Entry: job.Em.Entry.Name, Verdict: "violation"})
									cr.mu.Unlock()
								}
							}
						}
					}
					if kind == "" {
						continue
					}
					n := counts[kind]
					counts[kind]++
					o := &Obligation{Name: fmt.Sprintf("%s/frame/%s#%d", name, kind, n), Func: name, Class: "frame", Props: []string{"C20"}, Pos: job.Em.W.Prog.Fset.Position(in.Pos())}
					ok := true
					why := ""
					if kind == "go" {
						ok, why = false, "emitted code starts a goroutine"
					} else {
						r, w := regionOf(target, 0)
						why = w
						ok = r == regPrivate || r == regArg || (r == regShared && isInit)
					}
					cr.mu.Lock()
					cr.Obligations++
					cr.Functions[name] = true
					if ok {
						cr.Discharged++
						if len(cr.Samples) < 6 {
							cr.Samples = append(cr.Samples, map[string]any{"obligation": o.Name, "status": "proved", "solver": "provenance typing", "region": why, "pos": o.Pos.String()})
						}
					} else {
						o.Status, o.Formula = "failed", "write to "+why
						cr.Failures = append(cr.Failures, &Failure{Prop: "C20", Obl: o, Entry: job.Em.Entry.Name, Verdict: "violation"})
					}
					cr.mu.Unlock()
				}
			}
		}
	})
}
