package vc

import (
	"bytes"
	"fmt"
	"encoding/json"
	"go/ast"
	"go/constant"
	"go/parser"
	"go/token"
	"go/types"
	"os"
	"os/exec"
	"path/filepath"
	"strings"
	"sync"

	"golang.org/x/tools/go/ssa"
)

var goEnv = []string{"GOFLAGS=-mod=mod", "GOPROXY=off", "GOSUMDB=off", "GOTOOLCHAIN=local"}

// BuildGoag builds cmd/goag from the working tree of repo (with the verif tag).
func BuildGoag(repo, scratch string) (string, error) {
	bin := filepath.Join(scratch, "goag-bin")
	cmd := exec.Command("go", "build", "-tags", "verif", "-o", bin, "./cmd/goag")
	cmd.Dir = repo
	cmd.Env = append(os.Environ(), goEnv...)
	out, err := cmd.CombinedOutput()
	if err != nil {
		return "", fmt.Errorf("build goag: %v\n%s", err, out)
	}
	return bin, nil
}

// CorpusEntry is one "program": a spec plus the flag/config combination.
type CorpusEntry struct {
	Name     string
	Spec     string // path to the spec file
	Config   string // path to .goag.yaml ("" = none)
	BasePath string // -basepath flag
	Client   bool
	Cors     bool
	NoDoNotEdit bool
	SpecHandlerName string
	Group    string
}

// Emitted is one generated package, loaded.
type Emitted struct {
	Entry   CorpusEntry
	Dir     string
	GenLog  string
	GenErr  error // generator exited non-zero
	LoadErr error // generated but does not load / type-check
	W       *World
	Pkg     *ssa.Package
	Ref     *RefSpec
}

// Generate runs the freshly built generator on a corpus entry.
func Generate(bin string, ce CorpusEntry, outRoot string) *Emitted {
	em := &Emitted{Entry: ce}
	dir := filepath.Join(outRoot, sanitize(ce.Name))
	_ = os.MkdirAll(dir, 0o755)
	em.Dir = dir
	specName := filepath.Base(ce.Spec)
	data, err := os.ReadFile(ce.Spec)
	if err != nil {
		em.GenErr = err
		return em
	}
	_ = os.WriteFile(filepath.Join(dir, specName), data, 0o644)
	cfg := filepath.Join(dir, ".goag.yaml")
	if ce.Config != "" {
		cdata, _ := os.ReadFile(ce.Config)
		_ = os.WriteFile(cfg, cdata, 0o644)
	} else if ce.Cors {
		_ = os.WriteFile(cfg, []byte("cors:\n  enable: true\n"), 0o644)
	}
	args := []string{"-file", filepath.Join(dir, specName), "-out", dir, "-package", "emitted", "-config", cfg}
	if ce.BasePath != "" {
		args = append(args, "-basepath", ce.BasePath)
	}
	if ce.Client {
		args = append(args, "-client")
	}
	if ce.NoDoNotEdit {
		args = append(args, "-donotedit=false")
	}
	if ce.SpecHandlerName != "" {
		args = append(args, "-spec-handler-name", ce.SpecHandlerName)
	} else {
		args = append(args, "-spec-handler-name", specName)
	}
	cmd := exec.Command(bin, args...)
	cmd.Dir = dir
	var out bytes.Buffer
	cmd.Stdout = &out
	cmd.Stderr = &out
	err = cmd.Run()
	em.GenLog = out.String()
	if err != nil {
		em.GenErr = fmt.Errorf("goag: %v: %s", err, strings.TrimSpace(out.String()))
		return em
	}
	_ = os.WriteFile(filepath.Join(dir, "go.mod"), []byte("module emitted\n\ngo 1.20\n"), 0o644)
	return em
}

// LoadEmitted loads and type-checks the generated package and builds SSA.
func (em *Emitted) Load() {
	if em.GenErr != nil {
		return
	}
	w, err := Load(em.Dir, "", ".")
	if err != nil {
		em.LoadErr = err
		return
	}
	em.W = w
	for _, p := range w.SSAPkgs {
		if p != nil && p.Pkg.Path() == "emitted" {
			em.Pkg = p
		}
	}
	if em.Pkg == nil {
		em.LoadErr = fmt.Errorf("package emitted not found")
		return
	}
	ref, err := LoadRefSpec(em.Entry.Spec, em.Entry.BasePath, em.Entry.Cors || em.configCors())
	if err != nil {
		em.LoadErr = fmt.Errorf("reference reading of the spec: %w", err)
		return
	}
	em.Ref = ref
	ConfigureEmittedWorld(w)
}

func (em *Emitted) configCors() bool {
	if em.Entry.Config == "" {
		return false
	}
	data, err := os.ReadFile(em.Entry.Config)
	if err != nil {
		return false
	}
	return strings.Contains(string(data), "enable: true")
}

// Func finds a function or method of the emitted package by its ssa name,
// e.g. "splitPath", "(*API).route", "(SecurityBearerAuthMiddleware).Auth".
func (em *Emitted) Func(name string) *ssa.Function {
	for _, f := range em.W.Functions() {
		if relName(f) == name {
			return f
		}
	}
	return nil
}

func relName(f *ssa.Function) string {
	s := f.String()
	s = strings.ReplaceAll(s, "emitted.", "")
	return s
}

// Names of the functions and methods (without receiver) that goag emitted for
// the corpus when baseline/emitted-functions.json was recorded. A function of
// an emitted package whose name is not among them is a helper introduced by a
// later change to the templates: it has no contract, so it is unfolded at its
// call sites when it is small and loop-free (instead of being havocked).
var (
	emittedNamesMu   sync.Mutex
	emittedNames     map[string]bool
	emittedNamesPath string
	emittedRecorded  = map[string]bool{}
)

func SetEmittedNamesPath(p string) { emittedNamesPath = p }

func knownEmittedName(n string) bool {
	emittedNamesMu.Lock()
	defer emittedNamesMu.Unlock()
	if emittedNames == nil {
		emittedNames = map[string]bool{}
		if data, err := os.ReadFile(emittedNamesPath); err == nil {
			var ns []string
			if json.Unmarshal(data, &ns) == nil {
				for _, x := range ns {
					emittedNames[x] = true
				}
			}
		}
	}
	return len(emittedNames) == 0 || emittedNames[n]
}

func recordEmittedNames(dir string) {
	fset := token.NewFileSet()
	pkgs, err := parser.ParseDir(fset, dir, nil, 0)
	if err != nil {
		return
	}
	emittedNamesMu.Lock()
	defer emittedNamesMu.Unlock()
	for _, p := range pkgs {
		for _, f := range p.Files {
			for _, d := range f.Decls {
				if fd, ok := d.(*ast.FuncDecl); ok {
					emittedRecorded[fd.Name.Name] = true
				}
			}
		}
	}
}

// WriteEmittedNames stores the names collected by a recording run.
func WriteEmittedNames() error {
	emittedNamesMu.Lock()
	defer emittedNamesMu.Unlock()
	if len(emittedRecorded) == 0 {
		return nil
	}
	data, _ := json.MarshalIndent(sortedKeys(emittedRecorded), "", " ")
	return os.WriteFile(emittedNamesPath, data, 0o644)
}

func newEmittedHelper(w *World) func(f *ssa.Function) bool {
	return func(f *ssa.Function) bool {
		if f.Parent() != nil || f.Pkg == nil || f.Pkg.Pkg.Path() != "emitted" || knownEmittedName(f.Name()) {
			return false
		}
		n := 0
		for _, b := range f.Blocks {
			n += len(b.Instrs)
		}
		return len(f.Blocks) <= 8 && n <= 60
	}
}

// ConfigureEmittedWorld sets the call policies used for emitted packages.
func ConfigureEmittedWorld(w *World) {
	w.CheckOverflow = false
	w.InlineSmall = true
	w.InlineClosures = true
	w.InlineNamed = newEmittedHelper(w)
	w.DynamicPolicy = func(e *FuncEnc, in ssa.Instruction, name string) CallKind {
		name = strings.ReplaceAll(name, "emitted.", "")
		switch {
		case strings.HasPrefix(name, "func:CorsHandlerFunc"), strings.HasPrefix(name, "func:func(h http.Handler) http.Handler"),
			strings.HasPrefix(name, "func:func(http.Handler) http.Handler"), strings.HasPrefix(name, "func:MiddlewareFunc"):
			return CallPure
		case name == "Middleware.Middleware":
			return CallPure
		case name == "AuthMiddleware.Auth":
			return CallPure
		case strings.HasPrefix(name, "func:Security"):
			return CallPure // user authenticator: (r', ok) is a function of (hook, r, token)
		case name == "http.ResponseWriter.Header":
			return CallPure
		case strings.HasPrefix(name, "http.ResponseWriter."), strings.HasPrefix(name, "http.Handler."):
			return CallEvent
		case strings.HasPrefix(name, "io.Writer."), strings.HasPrefix(name, "io.ReadCloser."), strings.HasPrefix(name, "io.Reader."):
			return CallEvent
		case strings.HasPrefix(name, "context.Context."):
			return CallPure
		case strings.HasPrefix(name, "error."):
			return CallPure
		}
		return CallHavoc
	}
	w.MapValueFact = func(e *FuncEnc, declared types.Type, val, has string) string {
		// only the standard library's multi-maps: a map[string][]string declared
		// by the spec (additionalProperties) may hold nil or empty slices
		if !isNamed(declared, "net/url", "Values") && !isNamed(declared, "net/http", "Header") && !isNamed(declared, "net/textproto", "MIMEHeader") {
			return ""
		}
		mt, ok := declared.Underlying().(*types.Map)
		if !ok {
			return ""
		}
		if sl, ok := mt.Elem().Underlying().(*types.Slice); ok {
			if b, ok := sl.Elem().Underlying().(*types.Basic); ok && b.Kind() == types.String {
				e.Assumed["W1: a key present in url.Values / http.Header has at least one value"] = true
				return implies(has, sx(">", sx("sl_len", val), "0"))
			}
		}
		return ""
	}
	w.GlobalFact = func(e *FuncEnc, g *ssa.Global, val string) string {
		if g.Name() == "LogError" {
			e.Assumed["the package-level hook LogError is not set to nil"] = true
			return not(eq(val, "0"))
		}
		// a package variable holding the bytes of a constant string, assigned once
		// in the initialiser (specFileBs)
		if _, isSl := g.Type().Underlying().(*types.Pointer).Elem().Underlying().(*types.Slice); isSl {
			if text, ok := initBytesOfConst(g); ok {
				e.needProjections()
				f := e.D.UF("bytes_of_str", []string{"Str"}, "Slice")
				e.D.Axiom("bytes_of_str", "(forall ((s Str)) (! (and (= (sl_len (bytes_of_str s)) (slen s)) (= (sl_off (bytes_of_str s)) 0) (>= (sl_cap (bytes_of_str s)) (slen s)) (> (sl_base (bytes_of_str s)) 0)) :pattern ((bytes_of_str s))))")
				e.D.Axiom("slice_text", "(forall ((s Str)) (! (= (slice_text (bytes_of_str s)) s) :pattern ((bytes_of_str s))))")
				e.Assumed["a package variable assigned once, in the package initialiser, []byte(<constant>) holds those bytes (nothing writes package-level state afterwards: C20; the bytes of a []byte made from a constant are not modified)"] = true
				return eq(val, sx(f, e.D.Lit(text)))
			}
		}
		return ""
	}
	w.DynResultFact = func(e *FuncEnc, name string, results []string, rts []types.Type) string {
		name = strings.ReplaceAll(name, "emitted.", "")
		if len(results) != 1 {
			return ""
		}
		switch {
		case strings.HasPrefix(name, "func:func(h http.Handler) http.Handler"), strings.HasPrefix(name, "func:func(http.Handler) http.Handler"), name == "Middleware.Middleware", strings.HasPrefix(name, "func:MiddlewareFunc"):
			e.Assumed["user middlewares return non-nil handlers"] = true
			return not(eq(sx("if_tag", results[0]), "0"))
		case strings.HasPrefix(name, "func:") && strings.HasSuffix(name, "HandlerFunc"):
			e.Assumed["operation handlers return one of the documented responses (not nil)"] = true
			return not(eq(sx("if_tag", results[0]), "0"))
		}
		return ""
	}
	w.ExternalPolicy = func(full string) CallKind {
		switch {
		case full == "(net/http.Header).Add" || full == "(net/http.Header).Set" || full == "(net/http.Header).Del":
			return CallEvent
		case strings.HasPrefix(full, "(net/http.Header)."), strings.HasPrefix(full, "(net/url.Values)."), strings.HasPrefix(full, "(*net/url.URL)."),
			strings.HasPrefix(full, "(*net/http.Request).Context"), strings.HasPrefix(full, "(*net/http.Request).WithContext"),
			strings.HasPrefix(full, "context."), strings.HasPrefix(full, "fmt.Sprint"), strings.HasPrefix(full, "strconv."), strings.HasPrefix(full, "strings."),
			strings.HasPrefix(full, "(time.Time)."), strings.HasPrefix(full, "time."), strings.HasPrefix(full, "bytes."), strings.HasPrefix(full, "net/url."):
			return CallFresh
		case strings.HasPrefix(full, "log."):
			return CallFresh
		case strings.HasPrefix(full, "net/http."), strings.HasPrefix(full, "io."), strings.HasPrefix(full, "encoding/json."), strings.HasPrefix(full, "(*encoding/json."):
			return CallEvent
		}
		return CallEvent
	}
}

// ---------------------------------------------------------------- API struct helpers

type apiInfo struct {
	API      *types.Named
	Struct   *types.Struct
	fieldIdx map[string]int
}

func (em *Emitted) apiInfo() (*apiInfo, error) {
	obj := em.Pkg.Pkg.Scope().Lookup("API")
	if obj == nil {
		return nil, fmt.Errorf("no API type")
	}
	n, ok := obj.Type().(*types.Named)
	if !ok {
		return nil, fmt.Errorf("API is not a named type")
	}
	st, ok := n.Underlying().(*types.Struct)
	if !ok {
		return nil, fmt.Errorf("API is not a struct")
	}
	ai := &apiInfo{API: n, Struct: st, fieldIdx: map[string]int{}}
	for i := 0; i < st.NumFields(); i++ {
		ai.fieldIdx[st.Field(i).Name()] = i
	}
	return ai, nil
}

// constReturn: the string constant a niladic method returns (Path(), Method()).
func constReturn(f *ssa.Function) (string, bool) {
	if f == nil || len(f.Blocks) != 1 {
		return "", false
	}
	for _, in := range f.Blocks[0].Instrs {
		if r, ok := in.(*ssa.Return); ok && len(r.Results) == 1 {
			if c, ok := r.Results[0].(*ssa.Const); ok && c.Value != nil && c.Value.Kind() == constant.String {
				return constant.StringVal(c.Value), true
			}
		}
	}
	return "", false
}

// opFields maps (METHOD, template) to the API field holding its handler, using
// the Path()/Method() methods of the handler func types.
func (em *Emitted) opFields() (map[[2]string]int, error) {
	ai, err := em.apiInfo()
	if err != nil {
		return nil, err
	}
	out := map[[2]string]int{}
	for i := 0; i < ai.Struct.NumFields(); i++ {
		ft, ok := ai.Struct.Field(i).Type().(*types.Named)
		if !ok {
			continue
		}
		if _, isSig := ft.Underlying().(*types.Signature); !isSig {
			continue
		}
		var path, method string
		var okP, okM bool
		for j := 0; j < ft.NumMethods(); j++ {
			m := ft.Method(j)
			fn := em.W.Prog.FuncValue(m)
			switch m.Name() {
			case "Path":
				path, okP = constReturn(fn)
			case "Method":
				method, okM = constReturn(fn)
			}
		}
		if okP && okM {
			k := [2]string{strings.ToUpper(method), path}
			if _, dup := out[k]; dup {
				return nil, fmt.Errorf("two API fields claim %s %s", method, path)
			}
			out[k] = i
		}
	}
	return out, nil
}

// authFields maps a credential source ("bearer", "header:<Name>", "query:<name>")
// to the API field of the authenticator that reads it, by looking at what the
// emitted Auth method reads.
func (em *Emitted) authFields() (map[string]int, error) {
	ai, err := em.apiInfo()
	if err != nil {
		return nil, err
	}
	out := map[string]int{}
	for i := 0; i < ai.Struct.NumFields(); i++ {
		ft, ok := ai.Struct.Field(i).Type().(*types.Named)
		if !ok || !strings.HasPrefix(ft.Obj().Name(), "Security") {
			continue
		}
		var auth *ssa.Function
		for j := 0; j < ft.NumMethods(); j++ {
			if ft.Method(j).Name() == "Auth" {
				auth = em.W.Prog.FuncValue(ft.Method(j))
			}
		}
		if auth == nil {
			continue
		}
		src := authSource(auth)
		if src == "" {
			continue
		}
		if _, dup := out[src]; dup {
			return nil, fmt.Errorf("two authenticators read %s", src)
		}
		out[src] = i
	}
	return out, nil
}

// authSource inspects an emitted Auth method: which credential does it read?
func authSource(f *ssa.Function) string {
	src := ""
	trimBearer := false
	// str: a constant string, also through the parameters of a helper the
	// method delegates to (firstHeaderValue(r, "Authorization"))
	var scan func(f *ssa.Function, bind map[*ssa.Parameter]ssa.Value, depth int)
	scan = func(f *ssa.Function, bind map[*ssa.Parameter]ssa.Value, depth int) {
		str := func(v ssa.Value) (string, bool) {
			if p, ok := v.(*ssa.Parameter); ok && bind[p] != nil {
				v = bind[p]
			}
			return constString(v)
		}
		for _, b := range f.Blocks {
			for _, in := range b.Instrs {
				c, ok := in.(*ssa.Call)
				if !ok {
					if lk, ok := in.(*ssa.Lookup); ok {
						if s, ok := str(lk.Index); ok {
							src = "query:" + s
						}
					}
					continue
				}
				callee := c.Call.StaticCallee()
				if callee == nil {
					continue
				}
				switch callee.String() {
				case "(net/http.Header).Values", "(net/http.Header).Get":
					if s, ok := str(c.Call.Args[1]); ok {
						src = "header:" + s
					}
				case "(net/url.Values).Get":
					if s, ok := str(c.Call.Args[1]); ok {
						src = "query:" + s
					}
				case "strings.TrimPrefix":
					if s, ok := str(c.Call.Args[1]); ok && s == "Bearer " {
						trimBearer = true
					}
				default:
					if depth < 2 && callee.Pkg == f.Pkg && len(callee.Blocks) > 0 && callee.Signature.Recv() == nil {
						nb := map[*ssa.Parameter]ssa.Value{}
						for i, p := range callee.Params {
							if i < len(c.Call.Args) {
								a := c.Call.Args[i]
								if ap, ok := a.(*ssa.Parameter); ok && bind[ap] != nil {
									a = bind[ap]
								}
								nb[p] = a
							}
						}
						scan(callee, nb, depth+1)
					}
				}
			}
		}
	}
	scan(f, nil, 0)
	if trimBearer && strings.EqualFold(src, "header:Authorization") {
		return "bearer"
	}
	return src
}
