// Package vc is the verification-condition generator and driver of goagvc.
package vc

import (
	"bytes"
	"context"
	"fmt"
	"os"
	"os/exec"
	"path/filepath"
	"strings"
	"sync"
	"sync/atomic"
	"time"
)

// ---------------------------------------------------------------- s-expr helpers

func sx(op string, args ...string) string {
	if len(args) == 0 {
		return op
	}
	return "(" + op + " " + strings.Join(args, " ") + ")"
}

func and(args ...string) string {
	var xs []string
	for _, a := range args {
		if a == "true" || a == "" {
			continue
		}
		if a == "false" {
			return "false"
		}
		xs = append(xs, a)
	}
	switch len(xs) {
	case 0:
		return "true"
	case 1:
		return xs[0]
	}
	return sx("and", xs...)
}

func or(args ...string) string {
	var xs []string
	for _, a := range args {
		if a == "false" || a == "" {
			continue
		}
		if a == "true" {
			return "true"
		}
		xs = append(xs, a)
	}
	switch len(xs) {
	case 0:
		return "false"
	case 1:
		return xs[0]
	}
	return sx("or", xs...)
}

func not(a string) string {
	switch a {
	case "true":
		return "false"
	case "false":
		return "true"
	}
	if strings.HasPrefix(a, "(not ") && balanced(a[5:len(a)-1]) {
		return a[5 : len(a)-1]
	}
	return sx("not", a)
}

func balanced(s string) bool {
	d := 0
	for i := 0; i < len(s); i++ {
		switch s[i] {
		case '(':
			d++
		case ')':
			d--
			if d < 0 {
				return false
			}
		case '|':
			j := strings.IndexByte(s[i+1:], '|')
			if j < 0 {
				return false
			}
			i += j + 1
		}
	}
	return d == 0
}

func implies(a, b string) string {
	if a == "true" {
		return b
	}
	if a == "false" || b == "true" {
		return "true"
	}
	return sx("=>", a, b)
}

func eq(a, b string) string {
	if a == b {
		return "true"
	}
	return sx("=", a, b)
}

func ite(c, a, b string) string {
	if c == "true" {
		return a
	}
	if c == "false" {
		return b
	}
	if a == b {
		return a
	}
	return sx("ite", c, a, b)
}

func itoa(i int64) string {
	if i < 0 {
		return fmt.Sprintf("(- %d)", -i)
	}
	return fmt.Sprintf("%d", i)
}

// ---------------------------------------------------------------- solver portfolio

type SolverResult struct {
	Status string // unsat | sat | unknown | timeout | error
	Solver string
	Secs   float64
	Output string
}

type solverSpec struct {
	name string
	args func(file string, timeoutS int) []string
}

var solvers = []solverSpec{
	{"z3", func(f string, t int) []string { return []string{"z3", "-smt2", fmt.Sprintf("-T:%d", t), f} }},
	{"z3-new", func(f string, t int) []string { return []string{"z3-new", "-smt2", fmt.Sprintf("-T:%d", t), f} }},
	{"cvc5", func(f string, t int) []string {
		return []string{"cvc5", "--lang=smt2", fmt.Sprintf("--tlimit=%d", t*1000), f}
	}},
}

var ScriptErrors sync.Map // script name -> solver error output (engine defects)

var (
	SolverSecs   sync.Map // solver name -> *int64 (microseconds)
	SolverCounts sync.Map // solver name -> *int64 number of decisive answers
)

func addSolverStat(name string, secs float64, decisive bool) {
	v, _ := SolverSecs.LoadOrStore(name, new(int64))
	atomic.AddInt64(v.(*int64), int64(secs*1e6))
	if decisive {
		c, _ := SolverCounts.LoadOrStore(name, new(int64))
		atomic.AddInt64(c.(*int64), 1)
	}
}

func runOne(ctx context.Context, sp solverSpec, file string, timeoutS int) SolverResult {
	args := sp.args(file, timeoutS)
	cctx, cancel := context.WithTimeout(ctx, time.Duration(timeoutS+2)*time.Second)
	defer cancel()
	cmd := exec.CommandContext(cctx, args[0], args[1:]...)
	var out bytes.Buffer
	cmd.Stdout = &out
	cmd.Stderr = &out
	t0 := time.Now()
	_ = cmd.Run()
	secs := time.Since(t0).Seconds()
	o := stripWarnings(out.String())
	first := strings.TrimSpace(strings.SplitN(o, "\n", 2)[0])
	if hasScriptError(o) {
		return SolverResult{Status: "error", Solver: sp.name, Secs: secs, Output: o}
	}
	st := "error"
	switch {
	case first == "unsat":
		st = "unsat"
	case first == "sat":
		st = "sat"
	case first == "unknown":
		st = "unknown"
	case strings.Contains(o, "timeout") || cctx.Err() != nil:
		st = "timeout"
	}
	return SolverResult{Status: st, Solver: sp.name, Secs: secs, Output: o}
}

func stripWarnings(o string) string {
	if !strings.Contains(o, "WARNING") {
		return o
	}
	var keep []string
	for _, l := range strings.Split(o, "\n") {
		if strings.HasPrefix(l, "WARNING") {
			continue
		}
		keep = append(keep, l)
	}
	return strings.Join(keep, "\n")
}

// hasScriptError: any solver error other than asking for a model after unsat.
func hasScriptError(o string) bool {
	for _, l := range strings.Split(o, "\n") {
		if strings.Contains(l, "(error") && !strings.Contains(l, "model is not available") {
			return true
		}
	}
	return false
}

// Solve runs a single-query script. z3 first (it answers nearly everything
// instantly); if it is not decisive the other two are raced.
func Solve(script string, dir string, name string, timeoutS int) SolverResult {
	file := filepath.Join(dir, sanitize(name)+".smt2")
	if err := os.WriteFile(file, []byte(script), 0o644); err != nil {
		return SolverResult{Status: "error", Output: err.Error()}
	}
	ctx := context.Background()
	quick := timeoutS
	if quick > 5 {
		quick = 5
	}
	r := runOne(ctx, solvers[0], file, quick)
	addSolverStat(r.Solver, r.Secs, r.Status == "unsat" || r.Status == "sat")
	if r.Status == "unsat" || r.Status == "sat" {
		return r
	}
	// race the rest (and z3 again with the full timeout)
	rctx, cancel := context.WithCancel(ctx)
	defer cancel()
	ch := make(chan SolverResult, 3)
	todo := []solverSpec{solvers[1], solvers[2]}
	if timeoutS > quick {
		todo = append(todo, solvers[0])
	}
	for _, sp := range todo {
		sp := sp
		go func() { ch <- runOne(rctx, sp, file, timeoutS) }()
	}
	best := r
	for range todo {
		x := <-ch
		addSolverStat(x.Solver, x.Secs, x.Status == "unsat" || x.Status == "sat")
		if x.Status == "unsat" {
			return x
		}
		if x.Status == "sat" && x.Solver != "cvc5" {
			best = x
		} else if best.Status != "sat" && (x.Status == "sat" || x.Status == "unknown") {
			best = x
		}
	}
	if best.Status == "sat" {
		return best
	}
	// second chance before an obligation is reported undecided: nobody answered
	// (timeouts under load, or a search that went the wrong way); same script,
	// other seeds, twice the time. Costs nothing on obligations that discharge.
	ch2 := make(chan SolverResult, 2)
	retry := []solverSpec{
		{"z3(seed)", func(f string, t int) []string {
			return []string{"z3", "-smt2", fmt.Sprintf("-T:%d", t), "smt.random_seed=11", "sat.random_seed=11", f}
		}},
		{"z3-new(seed)", func(f string, t int) []string {
			return []string{"z3-new", "-smt2", fmt.Sprintf("-T:%d", t), "smt.random_seed=11", "sat.random_seed=11", f}
		}},
	}
	for _, sp := range retry {
		sp := sp
		go func() { ch2 <- runOne(rctx, sp, file, 2*timeoutS) }()
	}
	for range retry {
		x := <-ch2
		addSolverStat(x.Solver, x.Secs, x.Status == "unsat" || x.Status == "sat")
		if x.Status == "unsat" {
			return x
		}
		if x.Status == "sat" {
			best = x
		}
	}
	return best
}

// SolveIncremental runs a script with several (push)(check-sat)(pop) queries in
// z3 and returns one status per check-sat, in order.
func SolveIncremental(script string, dir string, name string, timeoutS int) ([]string, float64) {
	file := filepath.Join(dir, sanitize(name)+".inc.smt2")
	if err := os.WriteFile(file, []byte(script), 0o644); err != nil {
		return nil, 0
	}
	r := runOne(context.Background(), solvers[0], file, timeoutS)
	if r.Status == "error" && hasScriptError(r.Output) {
		ScriptErrors.Store(name, r.Output)
		return nil, r.Secs
	}
	var res []string
	for _, l := range strings.Split(r.Output, "\n") {
		l = strings.TrimSpace(l)
		if l == "sat" || l == "unsat" || l == "unknown" {
			res = append(res, l)
		}
	}
	addSolverStat("z3", r.Secs, false)
	return res, r.Secs
}

func sanitize(s string) string {
	var b strings.Builder
	for _, r := range s {
		switch {
		case r >= 'a' && r <= 'z', r >= 'A' && r <= 'Z', r >= '0' && r <= '9', r == '_', r == '-', r == '.':
			b.WriteRune(r)
		default:
			b.WriteByte('_')
		}
	}
	out := b.String()
	if len(out) > 150 {
		out = out[:150]
	}
	return out
}
