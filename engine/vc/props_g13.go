package vc

import (
	"bytes"
	"fmt"
	"go/ast"
	"go/constant"
	"go/parser"
	"go/token"
	"go/types"
	"os"
	"os/exec"
	"path/filepath"
	"regexp"
	"strings"

	"golang.org/x/tools/go/ssa"
)

// LoadRepoContracts reads every *_verif.go contract file of a repo package dir.
func LoadRepoContracts(repo, rel, pkgPath string) ([]*Contract, error) {
	var out []*Contract
	files, _ := filepath.Glob(filepath.Join(repo, rel, "*_verif.go"))
	for _, f := range files {
		if strings.Contains(f, "contracts_emitted_") {
			continue
		}
		cs, err := ParseContractFile(f, pkgPath)
		if err != nil {
			return nil, err
		}
		out = append(out, cs...)
	}
	return out, nil
}

func findContract(cs []*Contract, name string) *Contract {
	for _, c := range cs {
		if c.Name == name {
			return c
		}
	}
	return nil
}

// CheckQuoting: Layer G half of C13.
func (cr *CheckRun) CheckQuoting() {
	w, err := Load(cr.Repo, "verif", "./generator")
	if err != nil {
		cr.EngineErrors = append(cr.EngineErrors, "load generator: "+err.Error())
		return
	}
	const pkg = "github.com/vkd/goag/generator"
	cs, err := LoadRepoContracts(cr.Repo, "generator", pkg)
	if err != nil {
		cr.EngineErrors = append(cr.EngineErrors, err.Error())
		return
	}
	c := findContract(cs, pkg+".encodeRawFileAsString")
	if c == nil || len(c.Ensures) == 0 || !strings.Contains(c.Ensures[0].Text, "goEval(result) == s") {
		cr.EngineErrors = append(cr.EngineErrors, "contract of encodeRawFileAsString (ensures goEval(result) == s) not found in generator/*_verif.go")
		return
	}
	fn := w.funcByName(pkg + ".encodeRawFileAsString")
	if fn == nil {
		cr.EngineErrors = append(cr.EngineErrors, "function encodeRawFileAsString not found")
		return
	}
	name := "generator.encodeRawFileAsString"
	cr.Functions[name] = true
	cr.Assumed["homomorphism of Go literal evaluation over concatenation of per-code-point fragments (quoting rule, DESIGN §4.13)"] = true
	cr.Assumed["strings.ReplaceAll(s, c, t) with a one-code-point c replaces exactly the occurrences of c; strings.Contains/ContainsAny decide occurrence of code points"] = true
	cr.Assumed["strconv.Quote(s) is a Go interpreted string literal that evaluates to s"] = true
	cr.Assumed["spec content is valid UTF-8 without NUL (what the YAML/JSON loader accepts)"] = true
	var bin string
	for _, qo := range AnalyzeQuoting(fn) {
		o := &Obligation{Name: name + "/" + qo.Name, Func: name, Class: "quoting", Detail: qo.Detail, Props: []string{"C13"}, Formula: qo.Detail}
		o.Pos = w.Prog.Fset.Position(fn.Pos())
		cr.Obligations++
		switch qo.Kind {
		case "smt":
			r := Solve(qo.Script, cr.Scratch, o.Name, 10)
			o.Solver, o.Secs = r.Solver, r.Secs
			if r.Status == "unsat" {
				o.Status = "proved"
			} else {
				o.Status = "failed"
				o.Model = r.Output
			}
		default:
			o.Solver = "go/types constant evaluation / shape match"
			if qo.OK {
				o.Status = "proved"
			} else {
				o.Status = "failed"
			}
		}
		if o.Status == "proved" {
			cr.Discharged++
			cr.ProvedNames = append(cr.ProvedNames, o.Name)
			cr.Samples = append(cr.Samples, map[string]any{"obligation": o.Name, "status": "proved", "solver": o.Solver, "what": qo.Detail})
			continue
		}
		f := &Failure{Prop: cr.Prop, Obl: o, Entry: "layer-G"}
		// known finding?
		for _, kf := range cr.Known {
			if kf.Prop == cr.Prop && kf.Excuse == "" {
				if re, err := regexp.Compile(kf.Pattern); err == nil && re.MatchString(o.Name) {
					f.Known, f.Verdict = kf, "known"
					cr.KnownHits[kf.Line] = append(cr.KnownHits[kf.Line], o.Name)
				}
			}
		}
		if f.Known == nil {
			f.Verdict = "violation"
			if m := regexp.MustCompile(`\(\(u (\d+)\)\)`).FindStringSubmatch(o.Model); m != nil {
				var u int
				fmt.Sscanf(m[1], "%d", &u)
				f.Witness = map[string]string{"codepoint": fmt.Sprintf("U+%04X", u), "mode": qo.Mode}
				if bin == "" {
					bin, _ = BuildGoag(cr.Repo, cr.Scratch)
				}
				if bin != "" {
					f.Replay = replayQuoting(bin, cr.Scratch, qo.Mode, rune(u))
				}
			}
		}
		cr.Failures = append(cr.Failures, f)
	}
}

func (w *World) funcByName(name string) *ssa.Function {
	for _, f := range w.Functions() {
		if f.String() == name {
			return f
		}
	}
	return nil
}

// replayQuoting: write a spec containing the code point, generate, evaluate the
// SpecFile constant with go/types and compare with the input bytes.
func replayQuoting(bin, scratch, mode string, u rune) *ReplayResult {
	dir, _ := os.MkdirTemp(scratch, "quote")
	ch := string(u)
	var content string
	switch {
	case u == 13:
		content = "openapi: \"3.0.3\"\r\ninfo: {title: t, version: \"1\"}\r\npaths: {}\r\n"
	case u == 92 && mode == "interpreted":
		content = `{"openapi": "3.0.3", "info": {"title": "a\\b", "version": "1"}, "paths": {}}`
	case mode == "raw":
		content = "openapi: \"3.0.3\"\ninfo: {title: \"t" + ch + "\", version: \"1\"}\npaths: {}\n"
	default:
		content = `{"openapi": "3.0.3", "info": {"title": "t` + ch + `", "version": "1"}, "paths": {}}`
	}
	spec := filepath.Join(dir, "openapi.yaml")
	_ = os.WriteFile(spec, []byte(content), 0o644)
	cmd := exec.Command(bin, "-file", spec, "-out", dir, "-package", "emitted")
	cmd.Dir = dir
	var out bytes.Buffer
	cmd.Stdout, cmd.Stderr = &out, &out
	err := cmd.Run()
	res := &ReplayResult{Input: fmt.Sprintf("spec file with %U in %s mode: %q", u, mode, content), Expected: "SpecFile == file content", Cmd: "goag -file openapi.yaml; evaluate const SpecFile with go/types"}
	if err != nil {
		res.Observed = "generator error: " + truncate(out.String(), 300)
		return res // an error is not a violation of C13
	}
	val, perr := evalSpecFileConst(filepath.Join(dir, "spec_file.go"))
	if perr != nil {
		res.Observed = "spec_file.go does not yield a constant: " + perr.Error() + "; generator log: " + truncate(out.String(), 200)
		res.Reproduced = true
		return res
	}
	if val != content {
		res.Observed = fmt.Sprintf("SpecFile = %q", val)
		res.Reproduced = true
	} else {
		res.Observed = "SpecFile equals the input"
	}
	return res
}

func evalSpecFileConst(file string) (string, error) {
	fset := token.NewFileSet()
	f, err := parser.ParseFile(fset, file, nil, 0)
	if err != nil {
		return "", err
	}
	for _, d := range f.Decls {
		gd, ok := d.(*ast.GenDecl)
		if !ok || gd.Tok != token.CONST {
			continue
		}
		for _, sp := range gd.Specs {
			vs := sp.(*ast.ValueSpec)
			for i, n := range vs.Names {
				if n.Name == "SpecFile" && i < len(vs.Values) {
					src, _ := os.ReadFile(file)
					expr := string(src[fset.Position(vs.Values[i].Pos()).Offset:fset.Position(vs.Values[i].End()).Offset])
					tv, err := types.Eval(token.NewFileSet(), nil, token.NoPos, expr)
					if err != nil {
						return "", err
					}
					if tv.Value == nil || tv.Value.Kind() != constant.String {
						return "", fmt.Errorf("not a string constant")
					}
					return constant.StringVal(tv.Value), nil
				}
			}
		}
	}
	return "", fmt.Errorf("const SpecFile not found")
}
