package vc

import (
	"os"
	"fmt"
	"go/token"
	"go/types"
	"sort"
	"strings"

	"golang.org/x/tools/go/ssa"
)

// ClientFamily (DESIGN §4.10, second sentence, plus the raw-body clause):
//
//	emitted func (c *Client) <Op>(ctx, request) (resp <Op>Response, err error)
//	  let sc = the status code of the HTTP response
//	  ensures err == nil ==> (exists documented s: sc == s && kind(resp) == T_s)
//	                      || (default documented && sc not documented && kind(resp) == T_default && resp.Code == sc)
//	  ensures sc not documented && no default ==> err != nil
//	  ensures err == nil && T has a raw Body ==> the response body has not been closed
//
// T_s is the type that serves status s on the server side (the C02 binding).

type clientOp struct {
	Fn    *ssa.Function
	Op    *RefOp
	Iface *types.Named
	Kinds map[string]*types.Named // status -> type
}

func (cr *CheckRun) CheckClient(job *EmittedJob) {
	em := job.Em
	if em.W == nil || job.RF == nil {
		return
	}
	wf := &WriteFamily{Em: em, RF: job.RF}
	em.W.LoopSummary = HeaderAddLoopSummary
	em.W.LoopSummaryMatch = HeaderAddLoopMatches
	var ops []clientOp
	for k, idx := range job.RF.opField {
		var op *RefOp
		for _, o := range em.Ref.Ops {
			if o.Method == k[0] && o.Template == k[1] {
				op = o
			}
		}
		iface := wf.respInterface(idx)
		if op == nil || iface == nil {
			continue
		}
		// the client method returning this interface
		var fn *ssa.Function
		for _, f := range em.W.Functions() {
			if f.Signature.Recv() == nil || !strings.Contains(f.String(), "(*emitted.Client).") {
				continue
			}
			rs := f.Signature.Results()
			if rs.Len() == 2 && types.Identical(rs.At(0).Type(), iface) {
				fn = f
			}
		}
		if fn == nil {
			continue
		}
		// binding status -> type (as on the server side)
		kinds := map[string]*types.Named{}
		impls := wf.implementersOf(iface)
		for _, t := range impls {
			wfn := wf.method(t, iface.Underlying().(*types.Interface).Method(0).Name())
			writeFn := wf.method(t, "Write")
			if wfn == nil || writeFn == nil {
				continue
			}
			for _, R := range op.Responses {
				if _, taken := kinds[R.Status]; taken {
					continue
				}
				if ok, _ := wf.verifyPair(cr, job, t, wfn, writeFn, writeShape{R: R, Op: op, Default: R.Status == "default"}, 10); ok {
					kinds[R.Status] = t
					break
				}
				// write<Op> fixes one status per (type, operation); a type shared by
				// several statuses has one write method per status only through aliases
			}
		}
		if len(kinds) != len(op.Responses) {
			var have []string
			for k, t := range kinds {
				have = append(have, k+"->"+t.Obj().Name())
			}
			cr.Note("%s: %s %s: server-side binding found for %v of %d documented responses", em.Entry.Name, op.Method, op.Template, have, len(op.Responses))
		}
		ops = append(ops, clientOp{Fn: fn, Op: op, Iface: iface, Kinds: kinds})
	}
	sort.Slice(ops, func(i, j int) bool { return ops[i].Fn.String() < ops[j].Fn.String() })
	for _, co := range ops {
		co := co
		c := &Contract{Name: co.Fn.String(), Emitted: true, TraceSpecified: true, Options: map[string]string{}, LoopInv: map[int][]*Clause{}, LoopDec: map[int]*Clause{}}
		if base := em.W.ContractFor(co.Fn); base != nil {
			c.PreHook = base.PreHook
		}
		c.RetHook = func(e *FuncEnc, results []string) []NamedFormula { return clientObligations(e, co, results) }
		em.W.Contracts[co.Fn.String()] = c
		e := &FuncEnc{W: em.W, Fn: co.Fn, Name: fmt.Sprintf("emitted[%s].%s", em.Entry.Name, relName(co.Fn)), D: NewDecls(), Contract: c}
		if cr.Prop == "C09" {
			pf := &ParamsFamily{Em: em, RF: job.RF}
			binds, problems := pf.bindType(co.Fn.Params[2].Type(), co.Op)
			for _, p := range problems {
				cr.recordSimple(fmt.Sprintf("emitted[%s].%s/binding/%s", em.Entry.Name, relName(co.Fn), sanitize(p)), false, p, "name normalisation")
			}
			e.CallHook = clientRequestHook(cr, co, binds)
		}
		cr.VerifyFunc(e, em.Entry.Name, nil, nil)
	}
}

// statusCodeTerm: the SSA load of resp.StatusCode (resp = result of HTTPClient.Do).
func statusCodeTerm(e *FuncEnc, fn *ssa.Function) (string, string, bool) {
	for _, b := range fn.Blocks {
		for _, in := range b.Instrs {
			u, ok := in.(*ssa.UnOp)
			if !ok || u.Op != token.MUL {
				continue
			}
			fa, ok := u.X.(*ssa.FieldAddr)
			if !ok || fieldName(fa) != "StatusCode" {
				continue
			}
			if v, ok := e.val[u]; ok {
				return v, e.v(fa.X), true
			}
		}
	}
	return "", "", false
}

func clientObligations(e *FuncEnc, co clientOp, results []string) []NamedFormula {
	sc, _, ok := statusCodeTerm(e, co.Fn)
	res, err := results[0], results[1]
	noErr := eq(sx("if_tag", err), "0")
	if e.curRet != nil {
		if k, isC := e.curRet.Results[1].(*ssa.Const); isC && k.Value == nil {
			noErr = "true"
		} else if _, isM := e.curRet.Results[1].(*ssa.MakeInterface); isM {
			noErr = "false"
		} else if c, isCall := e.curRet.Results[1].(*ssa.Call); isCall {
			if g := c.Call.StaticCallee(); g != nil && g.String() == "fmt.Errorf" {
				noErr = "false"
			}
		}
	}
	if !ok {
		if noErr == "false" {
			return nil // failed before a response was received
		}
		return []NamedFormula{{Name: "ensures#status-read", Props: []string{"C10"}, Formula: implies(noErr, "false")}}
	}
	var statuses []string
	hasDefault := false
	for _, R := range co.Op.Responses {
		if R.Status == "default" {
			hasDefault = true
		} else if isDigits(R.Status) {
			statuses = append(statuses, R.Status)
		}
	}
	sort.Strings(statuses)
	var alts []string
	var notDoc []string
	rawBody := "false"
	kindTag := func(t *types.Named) string {
		return eq(sx("if_tag", res), itoa(int64(e.D.TypeTag(t))))
	}
	hasRaw := func(t *types.Named) bool {
		_, bt, ok := structFieldByName(t, "Body")
		if !ok {
			return false
		}
		return isNamed(bt, "io", "ReadCloser") || isNamed(bt, "io", "Reader")
	}
	for _, s := range statuses {
		notDoc = append(notDoc, not(eq(sc, s)))
		t := co.Kinds[s]
		if t == nil {
			alts = append(alts, "false")
			continue
		}
		alts = append(alts, and(eq(sc, s), kindTag(t)))
		if hasRaw(t) {
			rawBody = or(rawBody, kindTag(t))
		}
	}
	undocumented := and(notDoc...)
	if hasDefault {
		if t := co.Kinds["default"]; t != nil {
			_, unbox := e.D.Box(t)
			ci, _, okC := structFieldByName(t, "Code")
			codeOK := "false"
			if okC && unbox != "" {
				codeOK = eq(sx(e.D.FieldSelector(t, ci), sx(unbox, sx("if_val", res))), sc)
			}
			alts = append(alts, and(undocumented, kindTag(t), codeOK))
			if hasRaw(t) {
				rawBody = or(rawBody, kindTag(t))
			}
		}
	}
	if os.Getenv("GOAGVC_DEBUG") != "" {
		fmt.Println("DEBUG client", co.Fn.Name(), "sc=", sc, "statuses=", statuses, "alts=", alts, "kinds=", len(co.Kinds))
	}
	out := []NamedFormula{
		{Name: "ensures#kind", Props: []string{"C10"}, Formula: implies(noErr, or(alts...))},
	}
	if !hasDefault {
		out = append(out, NamedFormula{Name: "ensures#undocumented", Props: []string{"C10"}, Formula: implies(undocumented, not(noErr))})
	}
	if rawBody != "false" {
		e.D.UF("nClose", []string{"Trace"}, "Int")
		out = append(out, NamedFormula{Name: "ensures#rawbody-open", Props: []string{"C10"}, Formula: implies(and(noErr, rawBody), eq(sx("nClose", e.cur.trace), sx("nClose", e.entry.trace)))})
	}
	return out
}

// ---------------------------------------------------------------- C09: request assembly
//
//	emitted func (c *Client) <Op>(ctx, request)
//	  at call to http.NewRequestWithContext(ctx, M, url, body):
//	    M == the operation's method
//	    url == c.BaseURL ++ prefix_0 ++ PathEscape(fmt_T(request.Path.F_1)) ++ ... [++ "?" ++ query.Encode()]
//	    for every declared query parameter P: query has P.name iff (required or set), with exactly fmt_T of the field value(s);
//	    no undeclared key
//	  at call to HTTPClient.Do(req):
//	    the header operations on req are exactly Set(P.name, fmt_T(field)) for every declared header parameter, guarded by IsSet for optional ones
//
// together with the server-side contract (C04/C05: field == lexVal_T(text)) and
// the wire axioms W1-W4 (lexVal_T(fmt_T(x)) == x for the formatter/parser pairs
// of the type table) this is the agreement of the property.

// formatterFor: the reference formatter of a parameter type, as the term the
// library model gives to the stdlib call (hint: float verb taken from the code).
func formatterFor(e *FuncEnc, p RefParam, fn *ssa.Function, x string, xt types.Type) (string, bool) {
	switch p.Type {
	case "integer":
		return libRes(e, "strconv.FormatInt", 0, []string{x, "10"}, []string{"Int", "Int"}, "Str"), true
	case "number":
		bits := "64"
		if p.Format == "float" {
			bits = "32"
		}
		verb := "101"
		for _, b := range fn.Blocks {
			for _, in := range b.Instrs {
				if c, ok := in.(*ssa.Call); ok {
					if g := c.Call.StaticCallee(); g != nil && g.String() == "strconv.FormatFloat" {
						if k, ok := c.Call.Args[1].(*ssa.Const); ok && k.Value != nil {
							v := k.Int64()
							if v == 'e' || v == 'f' || v == 'g' || v == 'E' || v == 'G' {
								verb = itoa(v)
							}
						}
					}
				}
			}
		}
		return libRes(e, "strconv.FormatFloat", 0, []string{x, verb, "(- 1)", bits}, []string{"Real", "Int", "Int", "Int"}, "Str"), true
	case "boolean":
		return libRes(e, "strconv.FormatBool", 0, []string{x}, []string{"Bool"}, "Str"), true
	case "string":
		if p.Format == "date-time" {
			// the lossless RFC 3339 layout (sub-second digits kept): W4 holds for it
			// with either RFC 3339 layout on the parsing side
			if !isNamed(xt, "time", "Time") {
				return "", false
			}
			return libRes(e, "(time.Time).Format", 0, []string{x, e.D.Lit("2006-01-02T15:04:05.999999999Z07:00")}, []string{e.D.SortOf(xt), "Str"}, "Str"), true
		}
		return x, true
	}
	return "", false
}

func clientRequestHook(cr *CheckRun, co clientOp, binds []paramBinding) func(e *FuncEnc, in ssa.Instruction, name string, argVals []ssa.Value, args []string) {
	return func(e *FuncEnc, in ssa.Instruction, name string, argVals []ssa.Value, args []string) {
		fn := co.Fn
		reqParam := fn.Params[2]
		request := e.val[reqParam]
		pt := reqParam.Type()
		field := func(b paramBinding) (string, types.Type) {
			lt := pt.Underlying().(*types.Struct).Field(b.LocField).Type()
			loc := sx(e.D.FieldSelector(pt, b.LocField), request)
			return sx(e.D.FieldSelector(lt, b.Field), loc), b.FieldT
		}
		strT := types.Typ[types.String]
		add := func(n string, f string) {
			e.obligeNamed("call:"+n, fmt.Sprintf("c%d", e.classCount["c09"]), f, in.Pos())
			e.Obls[len(e.Obls)-1].Props = []string{"C09"}
		}
		switch {
		case name == "net/http.NewRequestWithContext" || name == "net/http.NewRequest":
			off := 0
			if name == "net/http.NewRequestWithContext" {
				off = 1
			}
			e.classCount["c09"]++
			add("NewRequest/method", eq(args[off], e.D.Lit(co.Op.Method)))
			// expected path
			c := e.val[fn.Params[0]]
			ct := fn.Params[0].Type().Underlying().(*types.Pointer).Elem()
			bi, _, _ := structFieldByName(ct, "BaseURL")
			url := e.load(e.cur, "("+e.D.FieldAddrFn(ct, bi)+" "+c+")", strT)
			lit := ""
			okAll := true
			for _, s := range co.Op.Segs {
				if !s.IsVar {
					lit += "/" + s.Lit
					continue
				}
				lit += "/"
				var pb *paramBinding
				for i := range binds {
					if binds[i].P.In == "path" && binds[i].P.Name == s.Var {
						pb = &binds[i]
					}
				}
				if pb == nil {
					okAll = false
					break
				}
				fv, ft := field(*pb)
				fs, ok := formatterFor(e, pb.P, fn, fv, ft)
				if !ok {
					okAll = false
					break
				}
				url = sx("scat", url, e.D.Lit(lit))
				lit = ""
				esc := libRes(e, "net/url.PathEscape", 0, []string{fs}, []string{"Str"}, "Str")
				url = sx("scat", url, esc)
			}
			if lit != "" {
				url = sx("scat", url, e.D.Lit(lit))
			}
			// query
			var qparams []paramBinding
			for _, b := range binds {
				if b.P.In == "query" {
					qparams = append(qparams, b)
				}
			}
			// the query map: the argument of the Encode call
			var qm string
			for _, b := range fn.Blocks {
				for _, in2 := range b.Instrs {
					if cc, ok := in2.(*ssa.Call); ok {
						if g := cc.Call.StaticCallee(); g != nil && g.String() == "(net/url.Values).Encode" {
							if v, ok := e.val[cc.Call.Args[0]]; ok {
								qm = v
							}
						}
					}
				}
			}
			if okAll {
				if len(qparams) == 0 {
					add("NewRequest/url", eq(args[off+1], url))
				} else if qm != "" {
					enc := e.D.UF("lib_"+mangle("(net/url.Values).Encode")+"_r0", []string{"Int"}, "Str")
					add("NewRequest/url", eq(args[off+1], sx("scat", url, sx("scat", e.D.Lit("?"), sx(enc, qm)))))
				}
			} else {
				e.Abstracted = append(e.Abstracted, "path parameter of a type outside the formatter table: URL not decided")
			}
			if len(qparams) > 0 && qm == "" {
				add("NewRequest/query", "false")
			}
			if qm != "" {
				mt := pfURLValues(e, co)
				vk, hk, vs, hs, _, _ := e.mapKeys(mt)
				hasArr := sx("select", e.heapName(e.cur, hk, hs), qm)
				valArr := sx("select", e.heapName(e.cur, vk, vs), qm)
				var names []string
				for _, b := range qparams {
					p := b.P
					names = append(names, eq("qk", e.D.Lit(p.Name)))
					fv, ft := field(b)
					has := sx("select", hasArr, e.D.Lit(p.Name))
					sl := sx("select", valArr, e.D.Lit(p.Name))
					var want, present string
					target, tt := fv, ft
					present = "true"
					if isSet, val, vt, isMaybe := maybeParts(e, fv, ft); isMaybe {
						target, tt, present = val, vt, isSet
					}
					if p.IsArray {
						// the list of formatted elements: only presence and length are decided here
						want = eq(sx("sl_len", sl), sx("sl_len", target))
						if !p.Required {
							// an unset optional list is not sent
						}
					} else {
						fs, ok := formatterFor(e, p, fn, target, tt)
						if !ok {
							continue
						}
						seq := e.seqOf(sl, strT, e.cur)
						want = eq(seq, e.D.SeqLit([]string{e.boxed(fs, strT)}))
					}
					add("NewRequest/query:"+p.Name, and(eq(has, present), implies(present, want)))
				}
				add("NewRequest/query-only-declared", fmt.Sprintf("(forall ((qk Str)) (=> (select %s qk) %s))", hasArr, or(names...)))
			}
		case strings.HasSuffix(name, "HTTPClient.Do"):
			e.classCount["c09"]++
			e.needProjections()
			head := sx("respHead", e.entry.trace)
			// header parameters: declared ones, plus the credential headers of the
			// operation's security schemes when the request type carries them
			hb := []paramBinding{}
			for _, b := range binds {
				if b.P.In == "header" {
					hb = append(hb, b)
				}
			}
			if li, lt, ok := structFieldByName(pt, "Headers"); ok {
				hst := lt.Underlying().(*types.Struct)
				seenH := map[string]bool{}
				for _, b := range hb {
					seenH[normName(b.P.Name)] = true
				}
				for _, alt := range co.Op.Security {
					for _, sc := range alt {
						name := ""
						switch sc.Kind() {
						case "bearer":
							name = "Authorization"
						case "apikey-header":
							name = sc.Name
						}
						if name == "" || seenH[normName(name)] {
							continue
						}
						for i := 0; i < hst.NumFields(); i++ {
							if normName(hst.Field(i).Name()) == normName(name) {
								seenH[normName(name)] = true
								hb = append(hb, paramBinding{P: RefParam{Name: name, In: "header", Type: "string", Required: true}, LocField: li, Field: i, FieldT: hst.Field(i).Type()})
							}
						}
					}
				}
			}
			order := headerSetKeys(fn)
			sort.SliceStable(hb, func(i, j int) bool { return indexFold(order, hb[i].P.Name) < indexFold(order, hb[j].P.Name) })
			for _, b := range hb {
				fv, ft := field(b)
				target, tt, present := fv, ft, "true"
				if isSet, val, vt, isMaybe := maybeParts(e, fv, ft); isMaybe {
					target, tt, present = val, vt, isSet
				}
				fs, ok := formatterFor(e, b.P, fn, target, tt)
				if !ok || b.P.IsArray {
					e.Abstracted = append(e.Abstracted, "header parameter outside the formatter table: header operations not decided")
					return
				}
				head = ite(present, sx("head_set", head, e.D.Lit(keyAsEmitted(order, b.P.Name)), fs), head)
			}
			add("Do/headers", eq(sx("respHead", e.cur.trace), head))
		}
	}
}

func headerSetKeys(f *ssa.Function) []string {
	var out []string
	for _, b := range f.Blocks {
		for _, in := range b.Instrs {
			if c, ok := in.(*ssa.Call); ok {
				if g := c.Call.StaticCallee(); g != nil && (g.String() == "(net/http.Header).Set" || g.String() == "(net/http.Header).Add") {
					if k, ok := constString(c.Call.Args[1]); ok {
						out = append(out, k)
					}
				}
			}
		}
	}
	return out
}

func pfURLValues(e *FuncEnc, co clientOp) *types.Map {
	for _, b := range co.Fn.Blocks {
		for _, in := range b.Instrs {
			if mm, ok := in.(*ssa.MakeMap); ok {
				if m, ok := mm.Type().Underlying().(*types.Map); ok {
					return m
				}
			}
		}
	}
	return types.NewMap(types.Typ[types.String], types.NewSlice(types.Typ[types.String]))
}
