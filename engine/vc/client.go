package vc

import (
	"os"
	"fmt"
	"go/token"
	"go/types"
	"sort"
	"strings"

	"golang.org/x/tools/go/ssa"
)

// ClientFamily (DESIGN §4.10, second sentence, plus the raw-body clause):
//
//	emitted func (c *Client) <Op>(ctx, request) (resp <Op>Response, err error)
//	  let sc = the status code of the HTTP response
//	  ensures err == nil ==> (exists documented s: sc == s && kind(resp) == T_s)
//	                      || (default documented && sc not documented && kind(resp) == T_default && resp.Code == sc)
//	  ensures sc not documented && no default ==> err != nil
//	  ensures err == nil && T has a raw Body ==> the response body has not been closed
//
// T_s is the type that serves status s on the server side (the C02 binding).

type clientOp struct {
	Fn    *ssa.Function
	Op    *RefOp
	Iface *types.Named
	Kinds map[string]*types.Named // status -> type
}

func (cr *CheckRun) CheckClient(job *EmittedJob) {
	em := job.Em
	if em.W == nil || job.RF == nil {
		return
	}
	wf := &WriteFamily{Em: em, RF: job.RF}
	em.W.LoopSummary = HeaderAddLoopSummary
	var ops []clientOp
	for k, idx := range job.RF.opField {
		var op *RefOp
		for _, o := range em.Ref.Ops {
			if o.Method == k[0] && o.Template == k[1] {
				op = o
			}
		}
		iface := wf.respInterface(idx)
		if op == nil || iface == nil {
			continue
		}
		// the client method returning this interface
		var fn *ssa.Function
		for _, f := range em.W.Functions() {
			if f.Signature.Recv() == nil || !strings.Contains(f.String(), "(*emitted.Client).") {
				continue
			}
			rs := f.Signature.Results()
			if rs.Len() == 2 && types.Identical(rs.At(0).Type(), iface) {
				fn = f
			}
		}
		if fn == nil {
			continue
		}
		// binding status -> type (as on the server side)
		kinds := map[string]*types.Named{}
		impls := wf.implementersOf(iface)
		for _, t := range impls {
			wfn := wf.method(t, iface.Underlying().(*types.Interface).Method(0).Name())
			writeFn := wf.method(t, "Write")
			if wfn == nil || writeFn == nil {
				continue
			}
			for _, R := range op.Responses {
				if _, taken := kinds[R.Status]; taken {
					continue
				}
				if ok, _ := wf.verifyPair(cr, job, t, wfn, writeFn, writeShape{R: R, Op: op, Default: R.Status == "default"}, 10); ok {
					kinds[R.Status] = t
					break
				}
				// write<Op> fixes one status per (type, operation); a type shared by
				// several statuses has one write method per status only through aliases
			}
		}
		if len(kinds) != len(op.Responses) {
			var have []string
			for k, t := range kinds {
				have = append(have, k+"->"+t.Obj().Name())
			}
			cr.Note("%s: %s %s: server-side binding found for %v of %d documented responses", em.Entry.Name, op.Method, op.Template, have, len(op.Responses))
		}
		ops = append(ops, clientOp{Fn: fn, Op: op, Iface: iface, Kinds: kinds})
	}
	sort.Slice(ops, func(i, j int) bool { return ops[i].Fn.String() < ops[j].Fn.String() })
	for _, co := range ops {
		co := co
		c := &Contract{Name: co.Fn.String(), Emitted: true, TraceSpecified: true, Options: map[string]string{}, LoopInv: map[int][]*Clause{}, LoopDec: map[int]*Clause{}}
		if base := em.W.ContractFor(co.Fn); base != nil {
			c.PreHook = base.PreHook
		}
		c.RetHook = func(e *FuncEnc, results []string) []NamedFormula { return clientObligations(e, co, results) }
		em.W.Contracts[co.Fn.String()] = c
		e := &FuncEnc{W: em.W, Fn: co.Fn, Name: fmt.Sprintf("emitted[%s].%s", em.Entry.Name, relName(co.Fn)), D: NewDecls(), Contract: c}
		cr.VerifyFunc(e, em.Entry.Name, nil, nil)
	}
}

// statusCodeTerm: the SSA load of resp.StatusCode (resp = result of HTTPClient.Do).
func statusCodeTerm(e *FuncEnc, fn *ssa.Function) (string, string, bool) {
	for _, b := range fn.Blocks {
		for _, in := range b.Instrs {
			u, ok := in.(*ssa.UnOp)
			if !ok || u.Op != token.MUL {
				continue
			}
			fa, ok := u.X.(*ssa.FieldAddr)
			if !ok || fieldName(fa) != "StatusCode" {
				continue
			}
			if v, ok := e.val[u]; ok {
				return v, e.v(fa.X), true
			}
		}
	}
	return "", "", false
}

func clientObligations(e *FuncEnc, co clientOp, results []string) []NamedFormula {
	sc, _, ok := statusCodeTerm(e, co.Fn)
	res, err := results[0], results[1]
	noErr := eq(sx("if_tag", err), "0")
	if e.curRet != nil {
		if k, isC := e.curRet.Results[1].(*ssa.Const); isC && k.Value == nil {
			noErr = "true"
		} else if _, isM := e.curRet.Results[1].(*ssa.MakeInterface); isM {
			noErr = "false"
		} else if c, isCall := e.curRet.Results[1].(*ssa.Call); isCall {
			if g := c.Call.StaticCallee(); g != nil && g.String() == "fmt.Errorf" {
				noErr = "false"
			}
		}
	}
	if !ok {
		if noErr == "false" {
			return nil // failed before a response was received
		}
		return []NamedFormula{{Name: "ensures#status-read", Props: []string{"C10"}, Formula: implies(noErr, "false")}}
	}
	var statuses []string
	hasDefault := false
	for _, R := range co.Op.Responses {
		if R.Status == "default" {
			hasDefault = true
		} else if isDigits(R.Status) {
			statuses = append(statuses, R.Status)
		}
	}
	sort.Strings(statuses)
	var alts []string
	var notDoc []string
	rawBody := "false"
	kindTag := func(t *types.Named) string {
		return eq(sx("if_tag", res), itoa(int64(e.D.TypeTag(t))))
	}
	hasRaw := func(t *types.Named) bool {
		_, bt, ok := structFieldByName(t, "Body")
		if !ok {
			return false
		}
		return isNamed(bt, "io", "ReadCloser") || isNamed(bt, "io", "Reader")
	}
	for _, s := range statuses {
		notDoc = append(notDoc, not(eq(sc, s)))
		t := co.Kinds[s]
		if t == nil {
			alts = append(alts, "false")
			continue
		}
		alts = append(alts, and(eq(sc, s), kindTag(t)))
		if hasRaw(t) {
			rawBody = or(rawBody, kindTag(t))
		}
	}
	undocumented := and(notDoc...)
	if hasDefault {
		if t := co.Kinds["default"]; t != nil {
			_, unbox := e.D.Box(t)
			ci, _, okC := structFieldByName(t, "Code")
			codeOK := "false"
			if okC && unbox != "" {
				codeOK = eq(sx(e.D.FieldSelector(t, ci), sx(unbox, sx("if_val", res))), sc)
			}
			alts = append(alts, and(undocumented, kindTag(t), codeOK))
			if hasRaw(t) {
				rawBody = or(rawBody, kindTag(t))
			}
		}
	}
	if os.Getenv("GOAGVC_DEBUG") != "" {
		fmt.Println("DEBUG client", co.Fn.Name(), "sc=", sc, "statuses=", statuses, "alts=", alts, "kinds=", len(co.Kinds))
	}
	out := []NamedFormula{
		{Name: "ensures#kind", Props: []string{"C10"}, Formula: implies(noErr, or(alts...))},
	}
	if !hasDefault {
		out = append(out, NamedFormula{Name: "ensures#undocumented", Props: []string{"C10"}, Formula: implies(undocumented, not(noErr))})
	}
	if rawBody != "false" {
		e.D.UF("nClose", []string{"Trace"}, "Int")
		out = append(out, NamedFormula{Name: "ensures#rawbody-open", Props: []string{"C10"}, Formula: implies(and(noErr, rawBody), eq(sx("nClose", e.cur.trace), sx("nClose", e.entry.trace)))})
	}
	return out
}
