package vc

import (
	"fmt"
	"net/textproto"
	"net/url"
	"os"
	"sort"
	"strings"

	"gopkg.in/yaml.v3"
)

// RefSpec is the reference reading of an OpenAPI document: it is written from
// the OpenAPI 3.0 text and the property statements, not from goag's code.

type RefSeg struct {
	Lit   string // literal text (without slash) when !IsVar
	IsVar bool
	Var   string
}

type RefScheme struct {
	Key    string // name in components.securitySchemes
	Type   string // http | apiKey | oauth2 | openIdConnect | mutualTLS
	Scheme string // for http
	In     string // for apiKey
	Name   string // for apiKey
}

// Kind: "bearer", "apikey-header", "apikey-query" or "unsupported"
func (s RefScheme) Kind() string {
	switch {
	case s.Type == "http" && s.Scheme == "bearer":
		return "bearer"
	case s.Type == "apiKey" && s.In == "header":
		return "apikey-header"
	case s.Type == "apiKey" && s.In == "query":
		return "apikey-query"
	}
	return "unsupported"
}

type RefParam struct {
	Name     string
	In       string
	Required bool
	Schema   map[string]any // dereferenced
	IsArray  bool
	Type     string // effective scalar type: boolean integer number string
	Format   string
	Nullable bool
}

type RefHeader struct {
	Name     string
	Required bool
	Type     string
	Format   string
}

type RefResponse struct {
	Status      string // "200", "default"
	ContentType string // "" when no body
	IsJSON      bool
	Headers     []RefHeader
	Component   string // name when it is a component response
	Schema      any    // raw schema node of the (first) content entry
}

type RefOp struct {
	Method      string // upper case
	Template    string
	Segs        []RefSeg
	OperationID string
	// Security: alternatives; each alternative is a conjunction of schemes.
	// nil slice and Public==true means no requirement.
	Security  [][]RefScheme
	Params    []RefParam
	Responses []RefResponse
	HasBody   bool
	BodyJSON  bool
	BodyRequired bool
}

type RefSpec struct {
	Raw      map[string]any
	BasePath string // as goag is told (servers[0] path after substitution, or flag), NOT normalised
	Ops      []*RefOp
	Schemes  map[string]RefScheme
	Templates []string
	Cors     bool
	schemaMemo map[string]*RefSchema
}

// NormBase: "a trailing slash on it is insignificant".
func (r *RefSpec) NormBase() string { return strings.TrimSuffix(r.BasePath, "/") }

var httpMethodsOrder = []string{"get", "post", "patch", "put", "delete", "connect", "head", "options", "trace"}

func LoadRefSpec(path string, basePathFlag string, cors bool) (*RefSpec, error) {
	data, err := os.ReadFile(path)
	if err != nil {
		return nil, err
	}
	var raw map[string]any
	if err := yaml.Unmarshal(data, &raw); err != nil {
		return nil, fmt.Errorf("yaml: %w", err)
	}
	raw, _ = normalizeYAML(raw).(map[string]any)
	rs := &RefSpec{Raw: raw, Schemes: map[string]RefScheme{}, Cors: cors}
	// base path
	rs.BasePath = basePathFlag
	if rs.BasePath == "" {
		if servers, ok := raw["servers"].([]any); ok && len(servers) > 0 {
			if s0, ok := servers[0].(map[string]any); ok {
				u, _ := s0["url"].(string)
				if vars, ok := s0["variables"].(map[string]any); ok {
					// substitute in sorted key order (deterministic reading)
					for _, k := range sortedAnyKeys(vars) {
						if vm, ok := vars[k].(map[string]any); ok {
							if def, ok := vm["default"].(string); ok {
								u = strings.ReplaceAll(u, "{"+k+"}", def)
							}
						}
					}
				}
				if pu, err := url.Parse(u); err == nil {
					rs.BasePath = pu.Path
				}
			}
		}
	}
	// security schemes
	if comps, ok := raw["components"].(map[string]any); ok {
		if ss, ok := comps["securitySchemes"].(map[string]any); ok {
			for k, v := range ss {
				m, _ := rs.deref(v).(map[string]any)
				sc := RefScheme{Key: k}
				sc.Type, _ = m["type"].(string)
				sc.Scheme, _ = m["scheme"].(string)
				sc.In, _ = m["in"].(string)
				sc.Name, _ = m["name"].(string)
				rs.Schemes[k] = sc
			}
		}
	}
	global, hasGlobal := raw["security"]
	paths, _ := raw["paths"].(map[string]any)
	for _, tpl := range sortedAnyKeys(paths) {
		pi, _ := rs.deref(paths[tpl]).(map[string]any)
		rs.Templates = append(rs.Templates, tpl)
		for _, m := range httpMethodsOrder {
			opRaw, ok := pi[m].(map[string]any)
			if !ok {
				continue
			}
			op := &RefOp{Method: strings.ToUpper(m), Template: tpl, Segs: splitTemplate(tpl)}
			op.OperationID, _ = opRaw["operationId"].(string)
			// effective security
			var sec any
			if s, ok := opRaw["security"]; ok {
				sec = s
			} else if hasGlobal {
				sec = global
			}
			if lst, ok := sec.([]any); ok {
				for _, alt := range lst {
					am, _ := alt.(map[string]any)
					var conj []RefScheme
					for _, k := range sortedAnyKeys(am) {
						conj = append(conj, rs.Schemes[k])
					}
					op.Security = append(op.Security, conj)
				}
			}
			// parameters: path-item level, overridden by operation level (same name+in)
			var params []RefParam
			add := func(list any) {
				l, _ := list.([]any)
				for _, p := range l {
					pm, _ := rs.deref(p).(map[string]any)
					rp := RefParam{}
					rp.Name, _ = pm["name"].(string)
					rp.In, _ = pm["in"].(string)
					rp.Required, _ = pm["required"].(bool)
					if sch, ok := pm["schema"]; ok {
						rp.Schema, _ = rs.deref(sch).(map[string]any)
					}
					rp.fill(rs)
					replaced := false
					for i := range params {
						if params[i].Name == rp.Name && params[i].In == rp.In {
							params[i] = rp
							replaced = true
						}
					}
					if !replaced {
						params = append(params, rp)
					}
				}
			}
			add(pi["parameters"])
			add(opRaw["parameters"])
			op.Params = params
			// request body
			if rb, ok := opRaw["requestBody"]; ok {
				rbm, _ := rs.deref(rb).(map[string]any)
				op.HasBody = true
				op.BodyRequired, _ = rbm["required"].(bool)
				if c, ok := rbm["content"].(map[string]any); ok {
					if _, ok := c["application/json"]; ok {
						op.BodyJSON = true
					}
				}
			}
			// responses
			if resps, ok := opRaw["responses"].(map[string]any); ok {
				for _, st := range sortedAnyKeys(resps) {
					rr := RefResponse{Status: st}
					rv := resps[st]
					if m, ok := rv.(map[string]any); ok {
						if ref, ok := m["$ref"].(string); ok {
							rr.Component = ref[strings.LastIndex(ref, "/")+1:]
						}
					}
					rm, _ := rs.deref(rv).(map[string]any)
					if c, ok := rm["content"].(map[string]any); ok {
						for _, ct := range sortedAnyKeys(c) {
							rr.ContentType = ct
							rr.IsJSON = ct == "application/json"
							if cm, ok := rs.deref(c[ct]).(map[string]any); ok {
								rr.Schema = cm["schema"]
							}
							break
						}
					}
					if hs, ok := rm["headers"].(map[string]any); ok {
						for _, hn := range sortedAnyKeys(hs) {
							hm, _ := rs.deref(hs[hn]).(map[string]any)
							h := RefHeader{Name: hn}
							h.Required, _ = hm["required"].(bool)
							if sch, ok := hm["schema"]; ok {
								sm, _ := rs.deref(sch).(map[string]any)
								h.Type, _ = sm["type"].(string)
								h.Format, _ = sm["format"].(string)
							}
							rr.Headers = append(rr.Headers, h)
						}
					}
					op.Responses = append(op.Responses, rr)
				}
			}
			rs.Ops = append(rs.Ops, op)
		}
	}
	return rs, nil
}

func (p *RefParam) fill(rs *RefSpec) {
	s := p.Schema
	if s == nil {
		return
	}
	t, _ := s["type"].(string)
	if t == "array" {
		p.IsArray = true
		if it, ok := s["items"]; ok {
			im, _ := rs.deref(it).(map[string]any)
			p.Type, _ = im["type"].(string)
			p.Format, _ = im["format"].(string)
		}
		return
	}
	p.Type = t
	p.Format, _ = s["format"].(string)
	p.Nullable, _ = s["nullable"].(bool)
}

func sortedAnyKeys(m map[string]any) []string {
	var ks []string
	for k := range m {
		ks = append(ks, k)
	}
	sort.Strings(ks)
	return ks
}

// deref follows $ref chains inside the document.
func (rs *RefSpec) deref(v any) any {
	for i := 0; i < 32; i++ {
		m, ok := v.(map[string]any)
		if !ok {
			return v
		}
		ref, ok := m["$ref"].(string)
		if !ok || !strings.HasPrefix(ref, "#/") {
			return v
		}
		var cur any = rs.Raw
		for _, part := range strings.Split(ref[2:], "/") {
			part = strings.ReplaceAll(strings.ReplaceAll(part, "~1", "/"), "~0", "~")
			cm, ok := cur.(map[string]any)
			if !ok {
				return v
			}
			cur = cm[part]
		}
		v = cur
	}
	return v
}

// splitTemplate: "/a/{b}/" -> [a, {b}, ""]
func splitTemplate(t string) []RefSeg {
	t = strings.TrimPrefix(t, "/")
	var out []RefSeg
	for _, p := range strings.Split(t, "/") {
		if strings.HasPrefix(p, "{") && strings.HasSuffix(p, "}") {
			out = append(out, RefSeg{IsVar: true, Var: p[1 : len(p)-1]})
		} else {
			out = append(out, RefSeg{Lit: p})
		}
	}
	return out
}

// prefers: t1 is preferred over t2 (literal at the first position where the
// kinds differ; ties broken lexicographically to get a total order).
func segsLess(a, b []RefSeg) bool {
	for i := 0; i < len(a) && i < len(b); i++ {
		if a[i].IsVar != b[i].IsVar {
			return !a[i].IsVar
		}
		if !a[i].IsVar && a[i].Lit != b[i].Lit {
			return a[i].Lit < b[i].Lit
		}
	}
	return len(a) < len(b)
}

// RefCORS: methods and headers a preflight for `tpl` must advertise.
func (rs *RefSpec) RefCORS(tpl string) (methods []string, headers []string, hasOptions bool) {
	seen := map[string]bool{}
	addH := func(h string) {
		h = textproto.CanonicalMIMEHeaderKey(h)
		if !seen[h] {
			seen[h] = true
			headers = append(headers, h)
		}
	}
	for _, op := range rs.Ops {
		if op.Template != tpl {
			continue
		}
		if op.Method == "OPTIONS" {
			hasOptions = true
		}
		methods = append(methods, op.Method)
		for _, p := range op.Params {
			if p.In == "header" {
				addH(p.Name)
			}
		}
		for _, alt := range op.Security {
			for _, s := range alt {
				switch s.Kind() {
				case "bearer":
					addH("Authorization")
				case "apikey-header":
					addH(s.Name)
				}
			}
		}
	}
	return
}

// normalizeYAML: maps with non-string keys (status codes written as integers)
// become map[string]any.
func normalizeYAML(v any) any {
	switch x := v.(type) {
	case map[string]any:
		for k, e := range x {
			x[k] = normalizeYAML(e)
		}
		return x
	case map[any]any:
		out := map[string]any{}
		for k, e := range x {
			out[fmt.Sprint(k)] = normalizeYAML(e)
		}
		return out
	case []any:
		for i, e := range x {
			x[i] = normalizeYAML(e)
		}
		return x
	}
	return v
}
