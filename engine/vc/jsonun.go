package vc

import (
	"sync"
	"regexp"
	"sort"
	"fmt"
	"go/types"
	"strings"

	"golang.org/x/tools/go/ssa"
)

// Decoding half of the JSON codec family (DESIGN §0.7).
//
// Ghost vocabulary (uninterpreted; the axioms about encoding/json are listed as
// assumptions):
//
//	rawdoc(bs)            the document held by a byte slice (raw messages are not mutated while decoding)
//	docNull(d)            d is the token null
//	docKind(d)            1 object 2 array 3 string 4 number 5 boolean 0 null
//	docObj(d)[k]          member k of an object document (JD option)
//	jdecErr_T(d)          json.Unmarshal of d into a zero T fails
//	jdec_T(d)             the value it produces otherwise
//	uerr_T(d) / udec_T(d) the same for a schema-derived type T with its own UnmarshalJSON
//
//	emitted func (*T).unmarshalJSONInnerBody(m map[string]json.RawMessage) error     [object schemas]
//	  requires *c == zero(T)                                     -- decoding starts from a fresh value
//	  ensures  err == nil ==> no required member is missing and no present member fails to decode
//	  ensures  err != nil ==> some declared member p is missing-and-required or present-and-failing,
//	                          and the error text names p                                   [C08]
//	  ensures  err == nil ==> every present member holds the decoded value, every absent one stays zero [C06/C08]
//	  ensures  err == nil ==> the declared names are removed from m, nothing else changes
//	emitted func (*T).UnmarshalJSON(bs []byte) error
//	  requires *c == zero(T)
//	  ensures  the same clauses over docObj(rawdoc(bs)); a non-null non-object document is rejected

const unPrelude = `(declare-sort Doc 0)
(declare-datatypes ((DOpt 0)) (((d_none) (d_some (d_val Doc)))))
(declare-fun rawdoc (Slice) Doc)
(declare-fun docNull (Doc) Bool)
(declare-fun docKind (Doc) Int)
(declare-fun docObj (Doc) (Array Str DOpt))
(assert (forall ((d Doc)) (! (= (docNull d) (= (docKind d) 0)) :pattern ((docNull d)))))
(assert (forall ((s Slice)) (! (=> (docNull (rawdoc s)) (= (sl_len s) 4)) :pattern ((rawdoc s)))))`

func (e *FuncEnc) needUn() {
	e.needJSON()
	e.D.add("un-prelude", unPrelude)
}

// jsonKindOfGo: the JSON kind json.Unmarshal accepts for a Go type (0 = any).
func jsonKindOfGo(t types.Type) int {
	switch u := t.Underlying().(type) {
	case *types.Basic:
		switch {
		case u.Kind() == types.String:
			return 3
		case u.Kind() == types.Bool:
			return 5
		case u.Info()&(types.IsInteger|types.IsFloat) != 0:
			return 4
		}
	case *types.Slice:
		if b, ok := u.Elem().Underlying().(*types.Basic); ok && b.Kind() == types.Uint8 {
			return 0 // raw bytes / base64: not constrained here
		}
		return 2
	case *types.Map, *types.Struct:
		return 1
	}
	return 0
}

func jsonKindOfSchema(s *RefSchema) int {
	if s == nil {
		return 0
	}
	switch s.Type {
	case "object":
		return 1
	case "array":
		return 2
	case "string":
		return 3
	case "integer", "number":
		return 4
	case "boolean":
		return 5
	}
	if len(s.AllOf) > 0 {
		return 1
	}
	return 0
}

// decFns declares jdecErr_T / jdec_T for a Go type and the assumed contract
// of encoding/json for it.
func (e *FuncEnc) decFns(t types.Type) (errFn, valFn string) {
	e.needUn()
	srt := e.D.SortOf(t)
	n := mangle(typeKey(t))
	errFn = e.D.UF("jdecErr_"+n, []string{"Doc"}, "Bool")
	valFn = e.D.UF("jdec_"+n, []string{"Doc"}, srt)
	// null never fails and leaves the zero value; a non-null document of another kind fails
	k := jsonKindOfGo(t)
	ax := fmt.Sprintf("(forall ((d Doc)) (! (and (=> (docNull d) (and (not (%s d)) (= (%s d) %s)))", errFn, valFn, e.D.Zero(t))
	if k != 0 {
		ax += fmt.Sprintf(" (=> (and (not (docNull d)) (not (= (docKind d) %d))) (%s d))", k, errFn)
	}
	ax += fmt.Sprintf(") :pattern ((%s d)) :pattern ((%s d))))", errFn, valFn)
	e.D.Axiom("jdec:"+n, ax)
	return
}

// udecFns: the same names for a schema-derived type with its own UnmarshalJSON.
func (e *FuncEnc) udecFns(t types.Type) (errFn, valFn string) {
	e.needUn()
	n := mangle(typeKey(t))
	errFn = e.D.UF("uerr_"+n, []string{"Doc"}, "Bool")
	valFn = e.D.UF("udec_"+n, []string{"Doc"}, e.D.SortOf(t))
	return
}

// InstallJSONDecodeLibrary: json.Unmarshal.
func InstallJSONDecodeLibrary(w *World) {
	L := w.Library
	L["encoding/json.Unmarshal"] = LibModel{Doc: "fails or stores the decoded value: a function (jdecErr_T, jdec_T) of the document for a zero target; null is accepted and changes nothing; a non-null document of another JSON kind than the target's is rejected; only the target is written", WritesArgs: true, Fn: func(e *FuncEnc, in ssa.Instruction, av []ssa.Value, a []string, rts []types.Type, res ssa.Value) bool {
		e.needUn()
		mi, ok := av[1].(*ssa.MakeInterface)
		if !ok {
			return false
		}
		pt, ok := mi.X.Type().Underlying().(*types.Pointer)
		if !ok {
			return false
		}
		T := pt.Elem()
		p := e.v(mi.X)
		d := sx("rawdoc", a[0])
		rs := e.freshResults("unmarshal", rts)
		e.setResult(res, rs)
		okT := eq(sx("if_tag", rs[0]), "0")
		if mt, isMap := T.Underlying().(*types.Map); isMap && isRawMessage(mt.Elem()) {
			// the raw key/value map of an object document
			vk, hk, vs, hs, _, _ := e.mapKeys(mt)
			m := e.load(e.cur, p, T)
			ef := e.rawMapErrFn()
			e.assume(e.curReach, eq(okT, not(sx(ef, d))))
			oldH, oldV := e.heapName(e.cur, hk, hs), e.heapName(e.cur, vk, vs)
			e.havocHeap(e.cur, hk)
			e.havocHeap(e.cur, vk)
			newH, newV := e.heapName(e.cur, hk, hs), e.heapName(e.cur, vk, vs)
			// other maps are untouched; this one gains the members of the document
			e.assume(e.curReach, fmt.Sprintf("(forall ((x Int)) (! (=> (not (= x %s)) (and (= (select %s x) (select %s x)) (= (select %s x) (select %s x)))) :pattern ((select %s x)) :pattern ((select %s x))))", m, newH, oldH, newV, oldV, newH, newV))
			e.assume(e.curReach, implies(and(okT, not(sx("docNull", d)), not(eq(m, "0"))), fmt.Sprintf("(forall ((k Str)) (! (and (= (select (select %s %s) k) (or (select (select %s %s) k) ((_ is d_some) (select (docObj %s) k)))) (=> ((_ is d_some) (select (docObj %s) k)) (and (> (sl_base (select (select %s %s) k)) 0) (= (rawdoc (select (select %s %s) k)) (d_val (select (docObj %s) k)))))) :pattern ((select (select %s %s) k)) :pattern ((select (select %s %s) k))))", newH, m, oldH, m, d, d, newV, m, newV, m, d, newH, m, newV, m)))
			e.assume(e.curReach, implies(and(okT, sx("docNull", d)), and(eq(sx("select", newH, m), sx("select", oldH, m)), eq(sx("select", newV, m), sx("select", oldV, m)))))
			return true
		}
		if sl, isSl := T.Underlying().(*types.Slice); isSl && isRawMessage(sl.Elem()) {
			// the raw items of an array document
			e.D.UF("docLen", []string{"Doc"}, "Int")
			e.D.UF("docItem", []string{"Doc", "Int"}, "Doc")
			e.D.Axiom("docLen", "(forall ((d Doc)) (! (>= (docLen d) 0) :pattern ((docLen d))))")
			ef := e.rawListErrFn()
			e.assume(e.curReach, eq(okT, not(sx(ef, d))))
			nv := e.newSym("rawitems", "Slice")
			e.paramLikeFacts(nv, T)
			e.allocIdx++
			hk := e.D.heapKey(sl.Elem())
			hs := e.D.heapSort(sl.Elem())
			e.heapSorts[hk] = hs
			h := e.heapName(e.cur, hk, hs)
			// a fresh array holding the raw items (older cells keep their content: the heap symbol is unchanged,
			// the facts below only speak about the fresh array)
			e.assume(e.curReach, implies(okT, ite(sx("docNull", d), eq(nv, "slice_nil"),
				and(eq(sx("sl_len", nv), sx("docLen", d)), eq(sx("sl_off", nv), "0"), sx(">", sx("sl_base", nv), "0"),
					eq(sx("atime", sx("sl_base", nv)), fmt.Sprintf("(+ T0 %d)", e.allocIdx)),
					fmt.Sprintf("(forall ((i Int)) (! (=> (and (<= 0 i) (< i (docLen %s))) (and (= (rawdoc (select %s (elem (sl_base %s) i))) (docItem %s i)) (> (sl_base (select %s (elem (sl_base %s) i))) 0))) :pattern ((elem (sl_base %s) i))))", d, h, nv, d, h, nv, nv)))))
			e.store(e.cur, p, T, nv)
			e.Assumed["json.Unmarshal into []json.RawMessage: fails exactly on non-null non-array documents; yields the raw items in order (null yields nil)"] = true
			return true
		}
		if key, fieldT, ok := singleTaggedStringField(T); ok {
			// struct{ Key string `json:"<key>"` }: the discriminator probe
			e.D.UF("docStrMember", []string{"Doc", "Str"}, "Str")
			e.assume(e.curReach, eq(okT, not(sx(e.rawMapErrFn(), d))))
			nv := e.newSym("probe", "Str")
			e.assume(e.curReach, implies(okT, eq(nv, sx("docStrMember", d, e.D.Lit(key)))))
			st := T.Underlying().(*types.Struct)
			_ = st
			e.store(e.cur, "("+e.D.FieldAddrFn(T, 0)+" "+p+")", fieldT, nv)
			e.Assumed["json.Unmarshal into struct{Key string `json:\"k\"`}: fails exactly on non-null non-object documents; Key is the string value of member k (\"\" when absent or not a string is not distinguished: such documents are treated as failing the strict clause only)"] = true
			return true
		}
		errFn, valFn := e.decFns(T)
		old := e.load(e.cur, p, T)
		zero := e.D.Zero(T)
		e.assume(e.curReach, eq(okT, not(sx(errFn, d))))
		// the target: decoded value when it started from zero; unspecified otherwise
		nv := e.newSym("decoded", e.D.SortOf(T))
		e.paramLikeFacts(nv, T)
		e.assume(e.curReach, implies(and(okT, eq(old, zero)), eq(nv, sx(valFn, d))))
		e.store(e.cur, p, T, nv)
		e.Assumed["json.Unmarshal into a target that is not zero: the result is not specified (the codec must start from fresh values)"] = true
		return true
	}}
}

// rawMapErrFn: json.Unmarshal into map[string]json.RawMessage fails exactly on
// documents that are neither null nor an object.
func (e *FuncEnc) rawMapErrFn() string {
	e.needUn()
	f := e.D.UF("jdecErr_rawmap", []string{"Doc"}, "Bool")
	e.D.Axiom("jdecErr_rawmap", "(forall ((d Doc)) (! (= (jdecErr_rawmap d) (and (not (docNull d)) (not (= (docKind d) 1)))) :pattern ((jdecErr_rawmap d))))")
	return f
}

func (e *FuncEnc) rawListErrFn() string {
	e.needUn()
	f := e.D.UF("jdecErr_rawlist", []string{"Doc"}, "Bool")
	e.D.Axiom("jdecErr_rawlist", "(forall ((d Doc)) (! (= (jdecErr_rawlist d) (and (not (docNull d)) (not (= (docKind d) 2)))) :pattern ((jdecErr_rawlist d))))")
	return f
}

func isRawMessage(t types.Type) bool {
	return isNamed(t, "encoding/json", "RawMessage")
}

// ---------------------------------------------------------------- member specs

type unMember struct {
	m       jsonMember
	present string // has0[name]
	doc     string // rawdoc(val0[name])
	fails   string // decoding the present member fails
	value   string // the field's value after a successful decode of a present member
	zero    string // the field's zero value
	addr    string // address of the field
	problem string
}

// fieldAddr: address of the member's field inside *c.
func (e *FuncEnc) fieldAddr(c string, m jsonMember) string {
	a := c
	for i, idx := range m.Path {
		a = "(" + e.D.FieldAddrFn(m.PathT[i], idx) + " " + a + ")"
	}
	return a
}

// decodeSpec: (fails, value) of decoding document d into Go type t under schema s.
func (jf *JSONFamily) decodeSpec(e *FuncEnc, d, raw string, t types.Type, s *RefSchema) (fails, value, problem string) {
	kind, inner := wrapperOf(t)
	if kind == "Nullable" {
		if s != nil && !s.Nullable {
			return "false", e.D.Zero(t), fmt.Sprintf("Nullable Go type %s for a schema that is not nullable", t)
		}
		f, v, p := jf.decodePlain(e, d, raw, inner, s)
		isI, valI := structFieldIndex(t, "IsSet"), structFieldIndex(t, "Value")
		mk := "mk_" + e.D.SortOf(t)
		build := func(is, val string) string {
			args := make([]string, 2)
			args[isI], args[valI] = is, val
			return sx(mk, args...)
		}
		return and(not(sx("docNull", d)), f), ite(sx("docNull", d), build("false", e.D.Zero(inner)), build("true", v)), p
	}
	if s != nil && s.Nullable {
		return "false", e.D.Zero(t), fmt.Sprintf("nullable schema but Go type %s", t)
	}
	return jf.decodePlain(e, d, raw, t, s)
}

func (jf *JSONFamily) decodePlain(e *FuncEnc, d, raw string, t types.Type, s *RefSchema) (fails, value, problem string) {
	if isRawMessage(t) {
		// any: the raw message itself is kept
		return "false", raw, ""
	}
	t = types.Unalias(t)
	if ownCodecMissing(t, "UnmarshalJSON") && !isWrapperType(t) {
		return "false", e.D.Zero(t), fmt.Sprintf("Go type %s has no UnmarshalJSON of its own (a defined type does not have the methods of its base type): it is decoded by reflection", t)
	}
	if !goKindMatches(t, s) {
		return "false", e.D.Zero(t), fmt.Sprintf("Go type %s does not decode JSON %q", t, s.Type)
	}
	if n, ok := t.(*types.Named); ok && n.Obj().Pkg() != nil && n.Obj().Pkg().Path() == "emitted" && hasMethod(n, "UnmarshalJSON") {
		ef, vf := e.udecFns(t)
		return sx(ef, d), sx(vf, d), ""
	}
	if isNamed(t, "time", "Time") {
		layout := "2006-01-02T15:04:05.999999999Z07:00"
		if s != nil && s.Format == "date" {
			layout = "2006-01-02"
		} else if l, ok := timeLayoutOf(s); ok {
			layout = l
		}
		ef, vf := e.decFns(types.Typ[types.String])
		name := mangle("time.Parse")
		p0 := e.D.UF("lib_"+name+"_r0", []string{"Str", "Str"}, e.D.SortOf(t))
		p1 := e.D.UF("lib_"+name+"_r1", []string{"Str", "Str"}, "Iface")
		str := sx(vf, d)
		return or(sx(ef, d), not(eq(sx("if_tag", sx(p1, e.D.Lit(layout), str)), "0"))), sx(p0, e.D.Lit(layout), str), ""
	}
	if b, ok := t.Underlying().(*types.Basic); ok && b.Kind() == types.Float32 {
		// decoded as a float64 and narrowed (floats are reals here: no rounding)
		ef, vf := e.decFns(types.Typ[types.Float64])
		return sx(ef, d), sx(vf, d), ""
	}
	ef, vf := e.decFns(t)
	return sx(ef, d), sx(vf, d), ""
}

// unMembers: the per-member terms over the raw map (has0, val0).
func (jf *JSONFamily) unMembers(e *FuncEnc, jt *jsonType, c string, has0, val0 string) []unMember {
	var out []unMember
	for _, m := range jt.Members {
		lit := e.D.Lit(m.Name)
		rawv := sx("select", val0, lit)
		u := unMember{m: m, present: sx("select", has0, lit), doc: sx("rawdoc", rawv), addr: e.fieldAddr(c, m), zero: e.D.Zero(m.Type)}
		kind, inner := wrapperOf(m.Type)
		if !m.Required {
			if kind != "Maybe" {
				u.problem = fmt.Sprintf("optional property %q is not a Maybe field", m.Name)
				out = append(out, u)
				continue
			}
			f, v, p := jf.decodeSpec(e, u.doc, rawv, inner, m.Schema)
			isI, valI := structFieldIndex(m.Type, "IsSet"), structFieldIndex(m.Type, "Value")
			args := make([]string, 2)
			args[isI], args[valI] = "true", v
			u.fails, u.value, u.problem = f, sx("mk_"+e.D.SortOf(m.Type), args...), p
		} else {
			if kind == "Maybe" {
				u.problem = fmt.Sprintf("required property %q is a Maybe field", m.Name)
				out = append(out, u)
				continue
			}
			u.fails, u.value, u.problem = jf.decodeSpec(e, u.doc, rawv, m.Type, m.Schema)
		}
		out = append(out, u)
	}
	return out
}

// namesProperty: the error text names property p (by its quoted name).
func (e *FuncEnc) namesProperty(err, name string) string {
	e.D.UF("errfmt", []string{"Iface"}, "Str")
	var alts []string
	for _, f := range sortedKeys(e.ErrFormats) {
		sym := e.ErrFormats[f]
		if strings.Contains(f, "'"+name+"'") {
			alts = append(alts, eq(sx("errfmt", err), sym))
		}
	}
	if len(alts) == 0 {
		return "false"
	}
	return or(alts...)
}

// unSpec: the decoding clauses over (has0, val0) for receiver c.
func (jf *JSONFamily) unSpec(e *FuncEnc, jt *jsonType, c, err string, has0, val0 string, post *state, notObject string) []NamedFormula {
	e.needUn()
	ok := eq(sx("if_tag", err), "0")
	ms := jf.unMembers(e, jt, c, has0, val0)
	var outF []NamedFormula
	var bads, named []string
	for _, u := range ms {
		if u.problem != "" {
			jf.note(jt.Named.Obj().Name() + "." + u.m.Name + ": " + u.problem)
			outF = append(outF, NamedFormula{Name: "ensures#decodes:" + u.m.Name, Props: []string{"C08"}, Formula: "false"})
			continue
		}
		bad := and(u.present, u.fails)
		if u.m.Required {
			bad = or(not(u.present), bad)
		}
		bads = append(bads, bad)
		named = append(named, and(bad, e.namesProperty(err, u.m.Name)))
		got := e.load(post, u.addr, u.m.Type)
		outF = append(outF, NamedFormula{Name: "ensures#decodes:" + u.m.Name, Props: []string{"C08", "C06"}, Formula: implies(ok, jf.sameDecoded(e, got, ite(u.present, u.value, u.zero), u.m.Type))})
		// strictness: a non-null value of another JSON kind is rejected
		if k := jsonKindOfSchema(u.m.Schema); k != 0 && !jf.ownCodecUnverified(u.m.Type) {
			outF = append(outF, NamedFormula{Name: "ensures#strict-type:" + u.m.Name, Props: []string{"C08"}, Formula: implies(and(u.present, not(sx("docNull", u.doc)), not(eq(sx("docKind", u.doc), itoa(int64(k))))), not(ok))})
		}
	}
	outF = append(outF, NamedFormula{Name: "ensures#accepts-only-complete", Props: []string{"C08"}, Formula: implies(ok, not(or(bads...)))})
	if !jt.AP {
		cause := or(named...)
		if notObject != "" {
			cause = or(notObject, cause)
		}
		outF = append(outF, NamedFormula{Name: "ensures#rejects-only-faulty", Props: []string{"C08"}, Formula: implies(not(ok), cause)})
	}
	return outF
}

// ---------------------------------------------------------------- installation

func (jf *JSONFamily) zeroReceiver(e *FuncEnc, st *state, c string, t types.Type) string {
	return eq(e.load(st, c, t), e.D.Zero(t))
}

func (jf *JSONFamily) installUnInner(f *ssa.Function, jt *jsonType) {
	c := newFamilyContract(f)
	c.Options["family"] = "json-unmarshal-inner"
	T := jt.Named
	mt := f.Params[1].Type().Underlying().(*types.Map)
	c.PreHook = func(e *FuncEnc, args []string) []NamedFormula {
		e.needUn()
		return []NamedFormula{{Name: "fresh-receiver", Props: []string{"C06", "C08"}, Formula: and(not(eq(args[0], "0")), jf.zeroReceiver(e, e.cur, args[0], T))}}
	}
	var spec func(e *FuncEnc, cptr, m, err string, pre, post *state) []NamedFormula
	spec = func(e *FuncEnc, cptr, m, err string, pre, post *state) []NamedFormula {
		vk, hk, vs, hs, _, _ := e.mapKeys(mt)
		has0 := sx("select", e.heapName(pre, hk, hs), m)
		val0 := sx("select", e.heapName(pre, vk, vs), m)
		// a nil map has no members
		has0 = ite(eq(m, "0"), "((as const (Array Str Bool)) false)", has0)
		fs := jf.unSpec(e, jt, cptr, err, has0, val0, post, "")
		// the declared names are consumed, the rest of the map is unchanged
		has1 := sx("select", e.heapName(post, hk, hs), m)
		val1 := sx("select", e.heapName(post, vk, vs), m)
		var notDecl []string
		for _, mm := range jt.Members {
			notDecl = append(notDecl, not(eq("kq", e.D.Lit(mm.Name))))
		}
		okk := eq(sx("if_tag", err), "0")
		fs = append(fs, NamedFormula{Name: "ensures#consumes-declared", Props: []string{"C08", "C06"}, Formula: implies(and(okk, not(eq(m, "0"))), fmt.Sprintf("(forall ((kq Str)) (! (and (= (select %s kq) (and (select %s kq) %s)) (=> %s (= (select %s kq) (select %s kq)))) :pattern ((select %s kq)) :pattern ((select %s kq)) :pattern ((select %s kq))))", has1, has0, and(notDecl...), and(notDecl...), val1, val0, has1, val1, sx("select", e.heapName(pre, hk, hs), m)))})
		return fs
	}
	if !jt.AP && declaresAP(jt.Schema, 0) {
		// the schema keeps additional properties, the Go type has no place for them
		base0 := spec
		spec = func(e *FuncEnc, cptr, m, err string, pre, post *state) []NamedFormula {
			fs := base0(e, cptr, m, err, pre, post)
			jf.note(jt.Named.Obj().Name() + ": the schema declares additionalProperties but the Go type has no AdditionalProperties map")
			return append(fs, NamedFormula{Name: "ensures#additional-kept", Props: []string{"C08", "C06"}, Formula: "false"})
		}
	}
	if jt.AP {
		base := spec
		spec = func(e *FuncEnc, cptr, m, err string, pre, post *state) []NamedFormula {
			fs := base(e, cptr, m, err, pre, post)
			ap := jf.unAP(e, jt, cptr, m, mt, pre, post)
			okk := eq(sx("if_tag", err), "0")
			fs = append(fs, NamedFormula{Name: "ensures#additional-kept", Props: []string{"C08", "C06"}, Formula: implies(okk, ap.all(func(k string) string {
				return and(eq(ap.hasAP(post, k), ap.left(k)), implies(ap.left(k), and(not(ap.fails(k)), eq(ap.valAP(post, k), ap.decoded(k)))))
			}))})
			var named []string
			for _, u := range jf.unMembers(e, jt, cptr, ap.has0, ap.val0) {
				if u.problem != "" {
					continue
				}
				bad := and(u.present, u.fails)
				if u.m.Required {
					bad = or(not(u.present), bad)
				}
				named = append(named, and(bad, e.namesProperty(err, u.m.Name)))
			}
			named = append(named, fmt.Sprintf("(exists ((kx Str)) %s)", and(ap.left("kx"), ap.fails("kx"))))
			fs = append(fs, NamedFormula{Name: "ensures#rejects-only-faulty", Props: []string{"C08"}, Formula: implies(not(okk), or(named...))})
			return fs
		}
		jf.installUnAPLoop(c, f, jt, mt)
	}
	c.RetHook = func(e *FuncEnc, results []string) []NamedFormula {
		return pruneByReturn(e, spec(e, e.val[f.Params[0]], e.val[f.Params[1]], results[0], e.entry, e.cur))
	}
	c.PostHook = func(e *FuncEnc, args, results []string, pre, post *state) []NamedFormula {
		fs := spec(e, args[0], args[1], results[0], pre, post)
		return append(fs, jf.receiverFrame(e, args[0], T, pre, post)...)
	}
	c.Modifies = jf.receiverKeys(T, mt)
	jf.Em.W.Contracts[f.String()] = c
}

// receiverKeys: heap keys of the leaves of T (and the raw map).
func (jf *JSONFamily) receiverKeys(T types.Type, mt *types.Map) map[string]bool {
	e := &FuncEnc{D: NewDecls()}
	e.init()
	keys := map[string]bool{}
	for _, lf := range e.leaves(T, func(s string) string { return s }, 0) {
		keys[lf.key] = true
	}
	if mt != nil {
		vk, hk, _, _, _, _ := e.mapKeys(mt)
		keys[vk], keys[hk] = true, true
	}
	// the sorts of these heaps, for callers that have not touched them yet when
	// they call (a heap without a known sort cannot be havocked: the call would
	// leave it unchanged and the callee's postcondition would contradict it)
	for k, s := range e.heapSorts {
		modSortRegistry.Store(k, s)
	}
	return keys
}

var modSortRegistry sync.Map // heap key -> sort, for the keys named in contract mod sets

// receiverFrame: cells that existed before the call and are not part of the
// receiver keep their value (the callee writes its receiver and fresh memory only).
func (jf *JSONFamily) receiverFrame(e *FuncEnc, c string, T types.Type, pre, post *state) []NamedFormula {
	byKey := map[string][]string{}
	for _, lf := range e.leaves(T, func(s string) string { return s }, 0) {
		byKey[lf.key] = append(byKey[lf.key], not(eq("a", lf.addr(c))))
	}
	var out []NamedFormula
	for _, k := range sortedKeys(byKey) {
		srt := e.heapSorts[k]
		h0, h1 := e.heapName(pre, k, srt), e.heapName(post, k, srt)
		if h0 == h1 {
			continue
		}
		// "existed before the call": allocated no later than now, or an element cell of a slice
		// carried around an enclosing loop (objects made in earlier iterations bear later static times)
		existed := []string{fmt.Sprintf("(<= (atime a) (+ T0 %d))", e.allocIdx)}
		if e.curBlock != nil {
			for _, li := range e.loopList() {
				h := li.header
				if !li.body[e.curBlock] {
					continue
				}
				for _, in := range h.Instrs {
					phi, ok := in.(*ssa.Phi)
					if !ok {
						break
					}
					pv, have := e.val[phi]
					sl, isSl := phi.Type().Underlying().(*types.Slice)
					if !have || !isSl {
						continue
					}
					for _, lf := range e.leaves(sl.Elem(), func(s string) string { return s }, 0) {
						if lf.key != k {
							continue
						}
						ra := lf.root("a")
						existed = append(existed, and(eq(sx("akind", ra), "1"), eq(sx("elem_base", ra), sx("sl_base", pv)), eq("a", lf.addr(ra))))
					}
				}
			}
		}
		conds := append(byKey[k], or(existed...))
		out = append(out, NamedFormula{Name: "frame:" + k, Formula: fmt.Sprintf("(forall ((a Int)) (! (=> %s (= (select %s a) (select %s a))) :pattern ((select %s a))))", and(conds...), h1, h0, h1)})
	}
	e.Assumed["UnmarshalJSON / unmarshalJSONInnerBody write only their receiver, the raw map and fresh memory (C20 proves the frame obligations of the same functions)"] = true
	return out
}

func (jf *JSONFamily) installUnOuter(f *ssa.Function, jt *jsonType) {
	c := newFamilyContract(f)
	c.Options["family"] = "json-unmarshal"
	T := jt.Named
	c.PreHook = func(e *FuncEnc, args []string) []NamedFormula {
		e.needUn()
		return []NamedFormula{{Name: "fresh-receiver", Props: []string{"C06", "C08"}, Formula: and(not(eq(args[0], "0")), jf.zeroReceiver(e, e.cur, args[0], T))}}
	}
	spec := func(e *FuncEnc, cptr, bs, err string, post *state) []NamedFormula {
		e.needUn()
		d := sx("rawdoc", bs)
		// members of the document as (has, rawdoc) arrays
		e.D.UF("doc_has", []string{"Doc"}, "(Array Str Bool)")
		e.D.UF("doc_raw", []string{"Doc"}, "(Array Str Slice)")
		e.D.Axiom("doc_has", "(forall ((d Doc) (k Str)) (! (= (select (doc_has d) k) (and (not (docNull d)) ((_ is d_some) (select (docObj d) k)))) :pattern ((select (doc_has d) k))))")
		e.D.Axiom("doc_raw", "(forall ((d Doc) (k Str)) (! (=> (select (doc_has d) k) (and (> (sl_base (select (doc_raw d) k)) 0) (= (rawdoc (select (doc_raw d) k)) (d_val (select (docObj d) k))))) :pattern ((select (doc_raw d) k))))")
		fs := jf.unSpec(e, jt, cptr, err, sx("doc_has", d), sx("doc_raw", d), post, sx(e.rawMapErrFn(), d))
		okk := eq(sx("if_tag", err), "0")
		fs = append(fs, NamedFormula{Name: "ensures#strict-object", Props: []string{"C08"}, Formula: implies(and(not(sx("docNull", d)), not(eq(sx("docKind", d), "1"))), not(okk))})
		// naming: the outcome as a function of the document (zero receiver)
		ef, vf := e.udecFns(T)
		fs = append(fs, NamedFormula{Name: "def#udec", Formula: and(eq(okk, not(sx(ef, d))), implies(okk, eq(e.load(post, cptr, T), sx(vf, d))))})
		return fs
	}
	c.RetHook = func(e *FuncEnc, results []string) []NamedFormula {
		var out []NamedFormula
		for _, nf := range spec(e, e.val[f.Params[0]], e.val[f.Params[1]], results[0], e.cur) {
			if strings.HasPrefix(nf.Name, "def#") {
				continue // a definition (naming of the outcome), not an obligation
			}
			out = append(out, nf)
		}
		return out
	}
	c.PostHook = func(e *FuncEnc, args, results []string, pre, post *state) []NamedFormula {
		fs := spec(e, args[0], args[1], results[0], post)
		e.Assumed["the outcome of UnmarshalJSON on a fresh receiver is a function of the document (uerr_T, udec_T name it)"] = true
		return append(fs, jf.receiverFrame(e, args[0], T, pre, post)...)
	}
	c.Modifies = jf.receiverKeys(T, nil)
	jf.Em.W.Contracts[f.String()] = c
}

// pruneByReturn: at a return whose error result is syntactically nil (or a
// freshly made error) the clauses guarded by the opposite outcome hold
// trivially; they are not emitted. The guard is the prefix of the formula.
func pruneByReturn(e *FuncEnc, fs []NamedFormula) []NamedFormula {
	if e.curRet == nil || len(e.curRet.Results) == 0 {
		return fs
	}
	r := e.curRet.Results[len(e.curRet.Results)-1]
	isNil, isErr := false, false
	switch x := r.(type) {
	case *ssa.Const:
		isNil = x.Value == nil
	case *ssa.Call:
		if f := x.Call.StaticCallee(); f != nil && f.String() == "fmt.Errorf" {
			isErr = true
		}
	}
	if !isNil && !isErr {
		return fs
	}
	var out []NamedFormula
	for _, nf := range fs {
		pos := strings.HasPrefix(nf.Formula, "(=> (= (if_tag ")      // ok ==> ...
		neg := strings.HasPrefix(nf.Formula, "(=> (not (= (if_tag ") // !ok ==> ...
		concl := strings.HasSuffix(nf.Formula, " (not (= (if_tag "+e.results[len(e.results)-1]+") 0)))") // ... ==> !ok
		switch {
		case isErr && (pos || concl):
			continue
		case isNil && neg:
			continue
		}
		out = append(out, nf)
	}
	return out
}

// ---------------------------------------------------------------- additional properties (decoding)

type unAPCtx struct {
	e          *FuncEnc
	has0, val0 string
	apAddr     string
	apT        *types.Map
	left       func(k string) string
	fails      func(k string) string
	decoded    func(k string) string
}

func (a *unAPCtx) hasAP(st *state, k string) string {
	e := a.e
	_, hk, _, hs, _, _ := e.mapKeys(a.apT)
	m := e.load(st, a.apAddr, a.apT)
	return and(not(eq(m, "0")), sx("select", sx("select", e.heapName(st, hk, hs), m), k))
}

func (a *unAPCtx) valAP(st *state, k string) string {
	e := a.e
	vk, _, vs, _, _, _ := e.mapKeys(a.apT)
	m := e.load(st, a.apAddr, a.apT)
	return sx("select", sx("select", e.heapName(st, vk, vs), m), k)
}

func (a *unAPCtx) all(body func(k string) string) string {
	return fmt.Sprintf("(forall ((ka Str)) %s)", body("ka"))
}

// unAP: terms of the additional-properties part of decoding into *c from the
// raw map m as it was at entry (pre).
func (jf *JSONFamily) unAP(e *FuncEnc, jt *jsonType, c, m string, mt *types.Map, pre, post *state) *unAPCtx {
	vk, hk, vs, hs, _, _ := e.mapKeys(mt)
	has0 := ite(eq(m, "0"), "((as const (Array Str Bool)) false)", sx("select", e.heapName(pre, hk, hs), m))
	val0 := sx("select", e.heapName(pre, vk, vs), m)
	apT := jt.APType.Underlying().(*types.Map)
	a := &unAPCtx{e: e, has0: has0, val0: val0, apT: apT}
	a.apAddr = "(" + e.D.FieldAddrFn(jt.Named, jt.APField) + " " + c + ")"
	a.left = func(k string) string {
		cs := []string{sx("select", has0, k)}
		for _, mm := range jt.Members {
			cs = append(cs, not(eq(k, e.D.Lit(mm.Name))))
		}
		return and(cs...)
	}
	ef, vf := e.decFns(apT.Elem())
	a.fails = func(k string) string { return sx(ef, sx("rawdoc", sx("select", val0, k))) }
	a.decoded = func(k string) string { return sx(vf, sx("rawdoc", sx("select", val0, k))) }
	return a
}

// installUnAPLoop: invariant of `for k, bs := range m { var v T; json.Unmarshal(bs, &v); c.AdditionalProperties[k] = v }`.
//
//	loop #0 invariant m holds exactly the left-over members of the entry map, with their raw values
//	loop #0 invariant key k is in c.AdditionalProperties iff it was visited; then its value is the decoded raw value
//	loop #0 invariant visited keys are keys of m; a non-empty m means the map was made
//	loop #0 invariant the declared members keep their decoded values
func (jf *JSONFamily) installUnAPLoop(c *Contract, f *ssa.Function, jt *jsonType, mt *types.Map) {
	var rng *ssa.Range
	for _, b := range f.Blocks {
		for _, in := range b.Instrs {
			if r, ok := in.(*ssa.Range); ok && r.X == ssa.Value(f.Params[1]) {
				rng = r
			}
		}
	}
	if rng == nil {
		jf.note(f.String() + ": no additional-properties loop of the expected shape")
		return
	}
	c.LoopHook = func(e *FuncEnc, ord int, env *cenv) []NamedFormula {
		e.needUn()
		st := env.st
		cptr, m := e.val[f.Params[0]], e.val[f.Params[1]]
		ap := jf.unAP(e, jt, cptr, m, mt, e.entry, st)
		vk, hk, vs, hs, _, _ := e.mapKeys(mt)
		hasm := sx("select", e.heapName(st, hk, hs), m)
		valm := sx("select", e.heapName(st, vk, vs), m)
		key, srt := e.visitedKey(rng, mt)
		vis := e.heapName(st, key, srt)
		var out []NamedFormula
		out = append(out, NamedFormula{Name: "invariant#left-over", Props: []string{"C08"}, Formula: implies(not(eq(m, "0")), ap.all(func(k string) string {
			return and(eq(sx("select", hasm, k), ap.left(k)), implies(ap.left(k), eq(sx("select", valm, k), sx("select", ap.val0, k))))
		}))})
		out = append(out, NamedFormula{Name: "invariant#visited-decoded", Props: []string{"C08", "C06"}, Formula: ap.all(func(k string) string {
			return and(eq(ap.hasAP(st, k), sx("select", vis, k)), implies(sx("select", vis, k), and(ap.left(k), not(ap.fails(k)), eq(ap.valAP(st, k), ap.decoded(k)))))
		})})
		lenf := e.D.MapLen("Str")
		apm := e.load(st, ap.apAddr, ap.apT)
		out = append(out, NamedFormula{Name: "invariant#map-made", Props: []string{"C08"}, Formula: implies(and(not(eq(m, "0")), sx(">", sx(lenf, hasm), "0")), not(eq(apm, "0")))})
		for _, u := range jf.unMembers(e, jt, cptr, ap.has0, ap.val0) {
			if u.problem != "" {
				continue
			}
			got := e.load(st, u.addr, u.m.Type)
			bad := and(u.present, u.fails)
			if u.m.Required {
				bad = or(not(u.present), bad)
			}
			out = append(out, NamedFormula{Name: "invariant#decodes:" + u.m.Name, Props: []string{"C08", "C06"}, Formula: and(not(bad), eq(got, ite(u.present, u.value, u.zero)))})
		}
		return out
	}
}

// sameDecoded: equality of a decoded field with its specified value; raw
// messages (schema "any") are compared by the document they hold.
func (jf *JSONFamily) sameDecoded(e *FuncEnc, a, b string, t types.Type) string {
	kind, inner := wrapperOf(t)
	if kind != "" && containsRaw(inner) {
		is := e.D.FieldSelector(t, structFieldIndex(t, "IsSet"))
		vl := e.D.FieldSelector(t, structFieldIndex(t, "Value"))
		return and(eq(sx(is, a), sx(is, b)), implies(sx(is, a), jf.sameDecoded(e, sx(vl, a), sx(vl, b), inner)))
	}
	if isRawMessage(t) {
		return and(eq(eq(sx("sl_base", a), "0"), eq(sx("sl_base", b), "0")), eq(sx("rawdoc", a), sx("rawdoc", b)))
	}
	return eq(a, b)
}

func containsRaw(t types.Type) bool {
	for i := 0; i < 3; i++ {
		if isRawMessage(t) {
			return true
		}
		k, in := wrapperOf(t)
		if k == "" {
			return false
		}
		t = in
	}
	return false
}

// singleTaggedStringField: struct{ X string `json:"key"` }.
func singleTaggedStringField(t types.Type) (key string, ft types.Type, ok bool) {
	st, isS := t.Underlying().(*types.Struct)
	if !isS || st.NumFields() != 1 {
		return "", nil, false
	}
	b, isB := st.Field(0).Type().Underlying().(*types.Basic)
	if !isB || b.Kind() != types.String {
		return "", nil, false
	}
	tag := reflectTag(st.Tag(0), "json")
	if tag == "" {
		return "", nil, false
	}
	return tag, st.Field(0).Type(), true
}

func reflectTag(tag, key string) string {
	// `json:"name,omitempty"`
	i := strings.Index(tag, key+":\"")
	if i < 0 {
		return ""
	}
	rest := tag[i+len(key)+2:]
	j := strings.Index(rest, "\"")
	if j < 0 {
		return ""
	}
	v := rest[:j]
	if k := strings.Index(v, ","); k >= 0 {
		v = v[:k]
	}
	return v
}

// ---------------------------------------------------------------- oneOf components (decoding)
//
//	emitted func (*O).UnmarshalJSON(bs []byte) error            [oneOf schemas]
//	  requires *c == zero(O)
//	  with a discriminator k: let d = docStrMember(doc, k); the table maps every explicit mapping value and every
//	  member schema name to its variant
//	    ensures d == value(V) && V's decoder accepts doc ==> err == nil && c.V is set to V's decoded value, no other variant set
//	    ensures d == value(V) && V's decoder rejects doc ==> err != nil
//	    ensures d in no table entry ==> err != nil
//	  without discriminator (first success wins):
//	    ensures err == nil <==> some variant's decoder accepts doc; then the first accepting variant is set to its decoded value

func (jf *JSONFamily) installOneOfUn(f *ssa.Function, jt *jsonType) {
	vars, problem := jf.oneOfVariants(jt)
	if problem != "" {
		return
	}
	T := jt.Named
	c := newFamilyContract(f)
	c.Options["family"] = "json-unmarshal-oneof"
	c.PreHook = func(e *FuncEnc, args []string) []NamedFormula {
		e.needUn()
		return []NamedFormula{{Name: "fresh-receiver", Props: []string{"C06", "C08"}, Formula: and(not(eq(args[0], "0")), jf.zeroReceiver(e, e.cur, args[0], T))}}
	}
	// discriminator table: value -> variant index
	type entry struct {
		val string
		idx int
	}
	var table []entry
	if jt.Schema.DiscKey != "" {
		for i, v := range vars {
			name := v.jt.Schema.Component
			table = append(table, entry{name, i})
			for val, comp := range jt.Schema.DiscMap {
				if comp == name {
					table = append(table, entry{val, i})
				}
			}
		}
	}
	spec := func(e *FuncEnc, cptr, bs, err string, post *state) []NamedFormula {
		e.needUn()
		d := sx("rawdoc", bs)
		okk := eq(sx("if_tag", err), "0")
		st := T.Underlying().(*types.Struct)
		fieldVal := func(i int) (is, val string) {
			ft := st.Field(vars[i].field).Type()
			fv := e.load(post, "("+e.D.FieldAddrFn(T, vars[i].field)+" "+cptr+")", ft)
			return sx(e.D.FieldSelector(ft, structFieldIndex(ft, "IsSet")), fv), sx(e.D.FieldSelector(ft, structFieldIndex(ft, "Value")), fv)
		}
		onlySet := func(i int) string {
			var cs []string
			for j := range vars {
				is, val := fieldVal(j)
				if j == i {
					_, vf := e.udecFns(vars[j].jt.Named)
					cs = append(cs, is, eq(val, sx(vf, d)))
				} else {
					cs = append(cs, not(is))
				}
			}
			return and(cs...)
		}
		var out []NamedFormula
		if jt.Schema.DiscKey != "" {
			e.D.UF("docStrMember", []string{"Doc", "Str"}, "Str")
			dv := sx("docStrMember", d, e.D.Lit(jt.Schema.DiscKey))
			isObj := or(sx("docNull", d), eq(sx("docKind", d), "1"))
			var inTable []string
			sort.Slice(table, func(a, b int) bool { return table[a].val < table[b].val })
			for _, t := range table {
				ef, _ := e.udecFns(vars[t.idx].jt.Named)
				hit := and(isObj, eq(dv, e.D.Lit(t.val)))
				inTable = append(inTable, eq(dv, e.D.Lit(t.val)))
				out = append(out,
					NamedFormula{Name: "ensures#accepts:" + t.val, Props: []string{"C08"}, Formula: implies(and(hit, not(sx(ef, d))), and(okk, onlySet(t.idx)))},
					NamedFormula{Name: "ensures#rejects:" + t.val, Props: []string{"C08"}, Formula: implies(and(hit, sx(ef, d)), not(okk))})
			}
			out = append(out, NamedFormula{Name: "ensures#unknown-discriminator", Props: []string{"C08"}, Formula: implies(not(or(inTable...)), not(okk))})
			return out
		}
		// first success wins
		var earlierFail []string
		var anyOK []string
		for i, v := range vars {
			ef, _ := e.udecFns(v.jt.Named)
			first := and(append([]string{not(sx(ef, d))}, earlierFail...)...)
			out = append(out, NamedFormula{Name: "ensures#first-accepting:" + v.jt.Named.Obj().Name(), Props: []string{"C08"}, Formula: implies(first, and(okk, onlySet(i)))})
			earlierFail = append(earlierFail, sx(ef, d))
			anyOK = append(anyOK, not(sx(ef, d)))
		}
		out = append(out, NamedFormula{Name: "ensures#rejects-when-none-accepts", Props: []string{"C08"}, Formula: implies(not(or(anyOK...)), not(okk))})
		return out
	}
	c.RetHook = func(e *FuncEnc, results []string) []NamedFormula {
		return pruneByReturn(e, spec(e, e.val[f.Params[0]], e.val[f.Params[1]], results[0], e.cur))
	}
	c.PostHook = func(e *FuncEnc, args, results []string, pre, post *state) []NamedFormula {
		fs := spec(e, args[0], args[1], results[0], post)
		return append(fs, jf.receiverFrame(e, args[0], T, pre, post)...)
	}
	c.Modifies = jf.receiverKeys(T, nil)
	jf.Em.W.Contracts[f.String()] = c
}

func hasMethod(n *types.Named, name string) bool {
	ms := types.NewMethodSet(types.NewPointer(n))
	for i := 0; i < ms.Len(); i++ {
		if ms.At(i).Obj().Name() == name {
			return true
		}
	}
	return false
}

// ---------------------------------------------------------------- array components (decoding)
//
//	emitted func (*A).unmarshalJSONInnerBody(m []json.RawMessage) error
//	  ensures err == nil ==> len(*c) == len(m) && for i < len(m): item i decodes and (*c)[i] is its decoded value
//	  ensures err != nil ==> some item fails to decode
//	  loop #0 invariant len(out) == processed && for q < processed: item q decodes and out[q] is its decoded value
//	emitted func (*A).UnmarshalJSON(bs []byte) error
//	  ensures the same over docItem(rawdoc(bs), i); a non-null non-array document is rejected

func (jf *JSONFamily) arrayItemSpec(e *FuncEnc, jt *jsonType, d, raw string) (fails, value, problem string) {
	elemT := jt.Named.Underlying().(*types.Slice).Elem()
	return jf.decodeSpec(e, d, raw, elemT, jt.Schema.Items)
}

func (jf *JSONFamily) installArrayUnInner(f *ssa.Function, jt *jsonType) {
	A := jt.Named
	elemT := A.Underlying().(*types.Slice).Elem()
	mT := f.Params[1].Type()
	rawT := mT.Underlying().(*types.Slice).Elem()
	c := newFamilyContract(f)
	c.Options["family"] = "json-unmarshal-array-inner"
	if _, _, p := jf.arrayItemSpec(&FuncEnc{D: NewDecls()}, jt, "d", "r"); p != "" {
		jf.note(A.Obj().Name() + ": " + p)
		return
	}
	c.PreHook = func(e *FuncEnc, args []string) []NamedFormula {
		e.needUn()
		return []NamedFormula{{Name: "receiver", Props: []string{"C08"}, Formula: not(eq(args[0], "0"))}}
	}
	// per-item terms over the raw slice m as it is in state st
	itemTerms := func(e *FuncEnc, m string, st *state, idx string) (fails, value string) {
		hk, hs := e.D.heapKey(rawT), e.D.heapSort(rawT)
		e.heapSorts[hk] = hs
		raw := sx("select", e.heapName(st, hk, hs), sx("elem", sx("sl_base", m), sx("+", sx("sl_off", m), idx)))
		fl, vl, _ := jf.arrayItemSpec(e, jt, sx("rawdoc", raw), raw)
		return fl, vl
	}
	prefix := func(e *FuncEnc, m string, mst *state, out string, ost *state, upto string, goal bool) string {
		// out[q] == decoded(m[q]) and item q decodes, for q in [0, upto)
		ob, oo := constOf(e, "ua_ob", "Int", sx("sl_base", out)), constOf(e, "ua_oo", "Int", sx("sl_off", out))
		mb, mo := constOf(e, "ua_mb", "Int", sx("sl_base", m)), constOf(e, "ua_mo", "Int", sx("sl_off", m))
		hk, hs := e.D.heapKey(rawT), e.D.heapSort(rawT)
		e.heapSorts[hk] = hs
		rh := constOf(e, "ua_rh", hs, e.heapName(mst, hk, hs))
		// quantified over the absolute cell index qa of m (no arithmetic in the trigger)
		raw := sx("select", rh, sx("elem", mb, "qa"))
		fl, vl, _ := jf.arrayItemSpec(e, jt, sx("rawdoc", raw), raw)
		got := e.load(ost, sx("elem", ob, sx("+", oo, sx("-", "qa", mo))), elemT)
		body := fmt.Sprintf("(=> (and (<= %s qa) (< qa (+ %s %s))) (and (not %s) %s))", mo, mo, upto, fl, jf.sameDecoded(e, got, vl, elemT))
		if goal {
			// proved for an arbitrary fresh index (explicit skolemisation of the goal)
			sk := e.newSym("sk_qa", "Int")
			return replaceVar(body, "qa", sk)
		}
		return fmt.Sprintf("(forall ((qa Int)) (! %s :pattern ((elem %s qa))))", body, mb)
	}
	spec := func(e *FuncEnc, cptr, m, err string, pre, post *state, goal bool) []NamedFormula {
		e.needUn()
		okk := eq(sx("if_tag", err), "0")
		res := e.load(post, cptr, A)
		n := sx("sl_len", m)
		_ = itemTerms
		mb, mo := constOf(e, "ua_mb", "Int", sx("sl_base", m)), constOf(e, "ua_mo", "Int", sx("sl_off", m))
		hk, hs := e.D.heapKey(rawT), e.D.heapSort(rawT)
		e.heapSorts[hk] = hs
		rh := constOf(e, "ua_rh", hs, e.heapName(pre, hk, hs))
		rawx := sx("select", rh, sx("elem", mb, "qx"))
		fl, _, _ := jf.arrayItemSpec(e, jt, sx("rawdoc", rawx), rawx)
		return []NamedFormula{
			{Name: "ensures#items-decoded", Props: []string{"C08", "C06"}, Formula: implies(okk, and(eq(sx("sl_len", res), n), prefix(e, m, pre, res, post, n, goal)))},
			{Name: "ensures#rejects-only-faulty", Props: []string{"C08"}, Formula: implies(not(okk), fmt.Sprintf("(exists ((qx Int)) (! (and (<= %s qx) (< qx (+ %s %s)) %s) :pattern ((elem %s qx))))", mo, mo, n, fl, mb))},
		}
	}
	c.RetHook = func(e *FuncEnc, results []string) []NamedFormula {
		return pruneByReturn(e, spec(e, e.val[f.Params[0]], e.val[f.Params[1]], results[0], e.entry, e.cur, true))
	}
	c.PostHook = func(e *FuncEnc, args, results []string, pre, post *state) []NamedFormula {
		fs := spec(e, args[0], args[1], results[0], pre, post, false)
		// the same item clause keyed by the cells of the result (for callers that reason from the result)
		{
			m := args[1]
			res := e.load(post, args[0], A)
			rb, ro := constOf(e, "ua_rb", "Int", sx("sl_base", res)), constOf(e, "ua_ro", "Int", sx("sl_off", res))
			mb, mo := constOf(e, "ua_mb", "Int", sx("sl_base", m)), constOf(e, "ua_mo", "Int", sx("sl_off", m))
			hk, hs := e.D.heapKey(rawT), e.D.heapSort(rawT)
			rh := constOf(e, "ua_rh", hs, e.heapName(pre, hk, hs))
			raw := sx("select", rh, sx("elem", mb, sx("+", mo, sx("-", "ra", ro))))
			fl, vl, _ := jf.arrayItemSpec(e, jt, sx("rawdoc", raw), raw)
			got := e.load(post, sx("elem", rb, "ra"), elemT)
			fs = append(fs, NamedFormula{Name: "ensures#items-decoded(result-keyed)", Formula: implies(eq(sx("if_tag", results[0]), "0"),
				fmt.Sprintf("(forall ((ra Int)) (! (=> (and (<= %s ra) (< ra (+ %s (sl_len %s)))) (and (not %s) %s)) :pattern ((elem %s ra))))", ro, ro, m, fl, jf.sameDecoded(e, got, vl, elemT), rb))})
		}
		return append(fs, jf.receiverFrame(e, args[0], A, pre, post)...)
	}
	c.Modifies = jf.receiverKeys(A, nil)
	for _, lf := range (&FuncEnc{D: NewDecls(), heapSorts: map[string]string{}}).leaves(elemT, func(s string) string { return s }, 0) {
		c.Modifies[lf.key] = true
	}
	c.LoopHook = func(e *FuncEnc, ord int, env *cenv) []NamedFormula {
		e.needUn()
		st := env.st
		m := e.val[f.Params[1]]
		idx, ok1 := env.vars["rangeindex"]
		out, ok2 := phiOfType(env, func(t types.Type) bool { return types.Identical(t, A) })
		if !ok1 || !ok2 {
			return []NamedFormula{{Name: "invariant#shape", Props: []string{"C08"}, Formula: "false"}}
		}
		done := sx("+", idx.s, "1")
		invs := []NamedFormula{
			{Name: "invariant#length", Props: []string{"C08"}, Formula: and(eq(sx("sl_len", out.s), done), sx(">", sx("sl_base", out.s), "0"), sx(">=", sx("atime", sx("sl_base", out.s)), "T0"))},
			{Name: "invariant#items-decoded", Props: []string{"C08", "C06"}, Formula: prefix(e, m, e.entry, out.s, st, done, e.invAsGoal)},
		}
		// the raw items are not written (they may share a heap with leaves of the element type)
		hk, hs := e.D.heapKey(rawT), e.D.heapSort(rawT)
		e.heapSorts[hk] = hs
		h0, h1 := e.heapName(e.entry, hk, hs), e.heapName(st, hk, hs)
		if h0 != h1 {
			mb := constOf(e, "ua_mb", "Int", sx("sl_base", m))
			c0, c1 := constOf(e, "ua_h0", hs, h0), constOf(e, "ua_h1", hs, h1)
			invs = append(invs, NamedFormula{Name: "invariant#raw-items-unchanged", Props: []string{"C08"}, Formula: skolemIf(e, e.invAsGoal, "qa", fmt.Sprintf("(= (select %s (elem %s qa)) (select %s (elem %s qa)))", c1, mb, c0, mb), sx("elem", mb, "qa"))})
		}
		return invs
	}
	jf.Em.W.Contracts[f.String()] = c
}

// replaceVar substitutes a bound variable name by a term (token-wise).
func replaceVar(body, v, by string) string {
	re := regexp.MustCompile(`(^|[\s(])` + regexp.QuoteMeta(v) + `([\s)]|$)`)
	for i := 0; i < 2; i++ { // adjacent occurrences share a separator
		body = re.ReplaceAllString(body, "${1}"+strings.ReplaceAll(by, "$", "$$")+"${2}")
	}
	return body
}

// ownCodecUnverified: the member type decodes itself with an UnmarshalJSON that
// is not under a family contract (date / date-time components): what it rejects
// is not known here, so no strictness clause is stated for such members.
func (jf *JSONFamily) ownCodecUnverified(t types.Type) bool {
	_, inner := wrapperOf(types.Unalias(t))
	if !isTimeComponent(inner) {
		return false
	}
	jf.note("JSON methods of date / date-time components (`type X time.Time`) are not under contract: their outcome is an uninterpreted function of the document, no strictness clause for such members")
	return true
}

// declaresAP: the object schema itself, or a member of its allOf that is
// declared in place, declares additionalProperties (true or a schema).
func declaresAP(s *RefSchema, depth int) bool {
	if s == nil || depth > 4 {
		return false
	}
	if s.APDeclared {
		return true
	}
	for _, m := range s.AllOf {
		if m != nil && m.Component == "" && declaresAP(m, depth+1) {
			return true
		}
	}
	return false
}
