package vc

import (
	"go/token"
	"fmt"
	"go/types"
	"sort"
	"strings"

	"golang.org/x/tools/go/ssa"
)

// WriteFamily (DESIGN §4.2): for every operation, the types that satisfy its
// response interface are exactly its documented responses, and writing one
// emits the documented status, Content-Type, headers and body:
//
//	emitted func (<Resp>).Write(w http.ResponseWriter [, code int])
//	  ensures respHead(trace) == head_wh(head_set?(head_addall*(respHead(old(trace)) ...), "Content-Type", CT), CODE)
//	  ensures respBody(trace) == body_json|body_copy?(respBody(old(trace)), r.Body)
//	emitted func (<Resp>).write<Op>(w http.ResponseWriter)
//	  same, with CODE the documented status of <Op> for this response
//
// respHead / respBody are views of the event trace that ignore everything but
// header operations resp. body writes (engine/vc/calls.go declareProjections).

// HeaderAddLoopSummary recognises
//
//	for _, h := range hs { w.Header().Add(K, h) }
//
// and replaces it by head_addall(K, seq(hs)).
func HeaderAddLoopSummary(e *FuncEnc, li *loopInfo) bool {
	src, key, ok := headerAddLoopMatch(li)
	if !ok {
		return false
	}
	st := src.Type().Underlying().(*types.Slice)
	e.needProjections()
	seq := e.seqOf(e.v(src), st.Elem(), e.cur)
	old := e.cur.trace
	nu := e.newSym("tr", "Trace")
	e.D.UF("nResp", []string{"Trace"}, "Int")
	e.assume(e.curReach, and(
		eq(sx("respHead", nu), sx("head_addall", sx("respHead", old), e.D.Lit(key), seq)),
		eq(sx("respBody", nu), sx("respBody", old)),
		eq(sx("respCore", nu), sx("respCore", old)),
		eq(sx("nResp", nu), sx("nResp", old))))
	e.cur.trace = nu
	e.Assumed["loop `for _, h := range hs { w.Header().Add(K, h) }` summarised as head_addall(K, seq(hs)) (engine rule, pattern-matched)"] = true
	return true
}

// HeaderAddLoopMatches: the loop is one that HeaderAddLoopSummary replaces.
func HeaderAddLoopMatches(li *loopInfo) bool {
	_, _, ok := headerAddLoopMatch(li)
	return ok
}

func headerAddLoopMatch(li *loopInfo) (ssa.Value, string, bool) {
	// the loop visits the elements of one slice in order (a range loop, or
	// `for i := 0; i < len(s); i++`) and does nothing but w.Header().Add(K, s[i])
	if len(li.body) < 2 || len(li.body) > 3 {
		return nil, "", false
	}
	var src ssa.Value
	var add *ssa.Call
	var idxUse ssa.Value
	for _, b := range li.blocks() {
		for _, in := range b.Instrs {
			switch x := in.(type) {
			case *ssa.IndexAddr:
				if src != nil {
					return nil, "", false
				}
				src, idxUse = x.X, x.Index
			case *ssa.UnOp, *ssa.Jump, *ssa.DebugRef, *ssa.Phi, *ssa.BinOp, *ssa.If:
			case *ssa.Call:
				if x.Call.IsInvoke() {
					if x.Call.Method.Name() != "Header" {
						return nil, "", false
					}
					continue
				}
				if bi, ok := x.Call.Value.(*ssa.Builtin); ok && bi.Name() == "len" {
					continue
				}
				g := x.Call.StaticCallee()
				if g == nil || g.String() != "(net/http.Header).Add" || add != nil {
					return nil, "", false
				}
				add = x
			default:
				return nil, "", false
			}
		}
	}
	if src == nil || add == nil || !loopVisitsAll(li, src, idxUse) {
		return nil, "", false
	}
	if in, ok := src.(ssa.Instruction); ok && li.body[in.Block()] {
		return nil, "", false
	}
	key, ok := constString(add.Call.Args[1])
	if !ok {
		return nil, "", false
	}
	// the added value must be the ranged element
	if u, ok := add.Call.Args[2].(*ssa.UnOp); !ok || func() bool { ia, ok := u.X.(*ssa.IndexAddr); return !ok || ia.X != src }() {
		return nil, "", false
	}
	st, ok := src.Type().Underlying().(*types.Slice)
	if !ok {
		return nil, "", false
	}
	_ = st
	return src, key, true
}

type writeShape struct {
	R       RefResponse
	Op      *RefOp
	Default bool
}

type WriteFamily struct {
	Em *Emitted
	RF *RouteFamily
}

// respInterface: the response interface of an operation's handler func type.
func (wf *WriteFamily) respInterface(idx int) *types.Named {
	ft, ok := wf.RF.api.Struct.Field(idx).Type().(*types.Named)
	if !ok {
		return nil
	}
	sig, ok := ft.Underlying().(*types.Signature)
	if !ok || sig.Results().Len() != 1 {
		return nil
	}
	n, _ := sig.Results().At(0).Type().(*types.Named)
	return n
}

func (wf *WriteFamily) implementersOf(iface *types.Named) []*types.Named {
	it := iface.Underlying().(*types.Interface)
	var out []*types.Named
	scope := wf.Em.Pkg.Pkg.Scope()
	for _, name := range scope.Names() {
		tn, ok := scope.Lookup(name).(*types.TypeName)
		if !ok || tn.IsAlias() {
			continue
		}
		nt, ok := tn.Type().(*types.Named)
		if !ok {
			continue
		}
		if _, isI := nt.Underlying().(*types.Interface); isI {
			continue
		}
		if types.Implements(nt, it) || types.Implements(types.NewPointer(nt), it) {
			out = append(out, nt)
		}
	}
	return out
}

func (wf *WriteFamily) method(t *types.Named, name string) *ssa.Function {
	for _, tt := range []types.Type{t, types.NewPointer(t)} {
		ms := wf.Em.W.Prog.MethodSets.MethodSet(tt)
		for i := 0; i < ms.Len(); i++ {
			if ms.At(i).Obj().Name() == name {
				return wf.Em.W.Prog.MethodValue(ms.At(i))
			}
		}
	}
	return nil
}

// expected header / body views for a response written through receiver r.
func (wf *WriteFamily) expected(e *FuncEnc, sh writeShape, r string, rt types.Type, code string, oldTrace string, emittedOrder []string) (head, body string, full bool, bodyGuard string) {
	bodyGuard = "true"
	e.needProjections()
	head = sx("respHead", oldTrace)
	full = true
	// declared headers, in the order of the emitted code (hint), names compared case-insensitively
	hdrs := append([]RefHeader{}, sh.R.Headers...)
	sort.SliceStable(hdrs, func(i, j int) bool {
		return indexFold(emittedOrder, hdrs[i].Name) < indexFold(emittedOrder, hdrs[j].Name)
	})
	hi, ht, okH := structFieldByName(rt, "Headers")
	for _, h := range hdrs {
		if !okH {
			return head, "", false, bodyGuard
		}
		hv := sx(e.D.FieldSelector(rt, hi), r)
		fi := -1
		hst := ht.Underlying().(*types.Struct)
		for i := 0; i < hst.NumFields(); i++ {
			if normName(hst.Field(i).Name()) == normName(h.Name) {
				fi = i
			}
		}
		if fi < 0 {
			return head, "", false, bodyGuard
		}
		fv := sx(e.D.FieldSelector(ht, fi), hv)
		ftT := hst.Field(fi).Type()
		key := e.D.Lit(keyAsEmitted(emittedOrder, h.Name))
		fmtOf := func(v string, t types.Type) (string, bool) {
			if b, ok := t.Underlying().(*types.Basic); ok && b.Kind() == types.String {
				return v, true
			}
			return "", false
		}
		strT := types.Typ[types.String]
		if isSet, val, vt, isMaybe := maybeParts(e, fv, ftT); isMaybe {
			fs, ok := fmtOf(val, vt)
			if !ok {
				full = false
				continue
			}
			head = ite(isSet, sx("head_addall", head, key, e.D.SeqLit([]string{e.boxed(fs, strT)})), head)
		} else {
			fs, ok := fmtOf(fv, ftT)
			if !ok {
				full = false
				continue
			}
			head = sx("head_addall", head, key, e.D.SeqLit([]string{e.boxed(fs, strT)}))
		}
	}
	if sh.R.ContentType != "" {
		head = sx("head_set", head, e.D.Lit("Content-Type"), e.D.Lit(sh.R.ContentType))
	}
	head = sx("head_wh", head, code)
	body = sx("respBody", oldTrace)
	if sh.R.ContentType != "" {
		bi, bt, ok := structFieldByName(rt, "Body")
		if !ok {
			return head, "", full, bodyGuard
		}
		bv := sx(e.D.FieldSelector(rt, bi), r)
		if sh.R.IsJSON {
			if _, isSl := bt.(*types.Slice); isSl {
				// an array body declared in place: a nil slice is written as [], not
				// as null (the schema is not nullable): what is handed to the encoder
				// is the slice itself when it is non-nil, an empty non-nil one otherwise
				// (that it is never handed over as nil is the call-site obligation
				// call:writeJSON/requires:array-body-not-nil; for a nil field the value
				// written is the fresh empty slice, which this clause does not name)
				bodyGuard = not(eq(sx("sl_base", bv), "0"))
			}
			body = sx("body_json", body, ifaceOf(e, bv, bt))
		} else {
			if _, isI := bt.Underlying().(*types.Interface); isI {
				body = sx("body_copy", body, bv)
			} else {
				body = sx("body_copy", body, ifaceOf(e, bv, bt))
			}
		}
	}
	return head, body, full, bodyGuard
}

func indexFold(xs []string, s string) int {
	for i, x := range xs {
		if strings.EqualFold(x, s) {
			return i
		}
	}
	return len(xs)
}

func keyAsEmitted(xs []string, s string) string {
	for _, x := range xs {
		if strings.EqualFold(x, s) {
			return x
		}
	}
	return s
}

// headerKeysIn: the literal keys passed to Header().Add in a function (order hint).
func headerKeysIn(f *ssa.Function) []string {
	var out []string
	for _, b := range f.Blocks {
		for _, in := range b.Instrs {
			if c, ok := in.(*ssa.Call); ok {
				if g := c.Call.StaticCallee(); g != nil && g.String() == "(net/http.Header).Add" {
					if k, ok := constString(c.Call.Args[1]); ok {
						out = append(out, k)
					}
				}
			}
		}
	}
	return out
}

// CheckWrites: C02 for one emitted package.
func (cr *CheckRun) CheckWrites(job *EmittedJob) {
	em := job.Em
	if em.W == nil || job.RF == nil {
		return
	}
	wf := &WriteFamily{Em: em, RF: job.RF}
	em.W.LoopSummary = HeaderAddLoopSummary
	em.W.LoopSummaryMatch = HeaderAddLoopMatches
	entry := em.Entry.Name
	timeout := 10
	type key struct{ m, t string }
	var keys []key
	for k := range job.RF.opField {
		keys = append(keys, key{k[0], k[1]})
	}
	sort.Slice(keys, func(i, j int) bool { return keys[i].t+keys[i].m < keys[j].t+keys[j].m })
	for _, k := range keys {
		idx := job.RF.opField[[2]string{k.m, k.t}]
		var op *RefOp
		for _, o := range em.Ref.Ops {
			if o.Method == k.m && o.Template == k.t {
				op = o
			}
		}
		iface := wf.respInterface(idx)
		if op == nil || iface == nil {
			continue
		}
		opName := fmt.Sprintf("emitted[%s].%s", entry, iface.Obj().Name())
		impls := wf.implementersOf(iface)
		docs := op.Responses
		if len(docs) == 0 {
			continue
		}
		// sealing: as many implementers as documented responses
		cr.recordSimple(opName+"/sealed", len(impls) == len(docs), fmt.Sprintf("%d types satisfy %s, %d responses are documented for %s %s", len(impls), iface.Obj().Name(), len(docs), op.Method, op.Template), "go/types method sets")
		served := map[string]string{}
		for _, t := range impls {
			wfn := wf.method(t, "write"+strings.TrimSuffix(iface.Obj().Name(), "Response"))
			if wfn == nil {
				for _, tt := range []types.Type{t, types.NewPointer(t)} {
					ms := em.W.Prog.MethodSets.MethodSet(tt)
					for i := 0; i < ms.Len(); i++ {
						if strings.HasPrefix(ms.At(i).Obj().Name(), "write") && iface.Underlying().(*types.Interface).NumMethods() == 1 && iface.Underlying().(*types.Interface).Method(0).Name() == ms.At(i).Obj().Name() {
							wfn = em.W.Prog.MethodValue(ms.At(i))
						}
					}
				}
			}
			writeFn := wf.method(t, "Write")
			if wfn == nil || writeFn == nil {
				cr.recordSimple(fmt.Sprintf("emitted[%s].(%s)/has-write", entry, t.Obj().Name()), false, "response type without write<Op>/Write", "go/types")
				continue
			}
			// find the documented response this type writes: the one whose contract its
			// Write and write<Op> satisfy
			matched := ""
			var lastFail []*Obligation
			for _, R := range docs {
				if _, taken := served[R.Status]; taken {
					continue
				}
				sh := writeShape{R: R, Op: op, Default: R.Status == "default"}
				ok, fails := wf.verifyPair(cr, job, t, wfn, writeFn, sh, timeout)
				if ok {
					matched = R.Status
					break
				}
				if lastFail == nil || len(fails) < len(lastFail) {
					lastFail = fails
				}
			}
			name := fmt.Sprintf("emitted[%s].(%s).write%s/documented", entry, t.Obj().Name(), strings.TrimSuffix(iface.Obj().Name(), "Response"))
			if matched != "" {
				served[matched] = t.Obj().Name()
				cr.recordSimple(name, true, fmt.Sprintf("writes the documented response %s of %s %s", matched, op.Method, op.Template), "z3 (Write and write<Op> contracts)")
			} else {
				detail := "no documented response of " + op.Method + " " + op.Template + " has a contract this type's Write satisfies"
				for _, o := range lastFail {
					detail += "; closest candidate fails " + o.Name
				}
				cr.recordSimple(name, false, detail, "z3")
			}
		}
		for _, R := range docs {
			if _, ok := served[R.Status]; !ok {
				cr.recordSimple(fmt.Sprintf("%s/response-%s/expressible", opName, R.Status), false, fmt.Sprintf("no type satisfying %s writes the documented response %s", iface.Obj().Name(), R.Status), "z3")
			} else {
				cr.recordSimple(fmt.Sprintf("%s/response-%s/expressible", opName, R.Status), true, "served by "+served[R.Status], "z3")
			}
		}
	}
}

// recordSimple files a boolean obligation.
func (cr *CheckRun) recordSimple(name string, ok bool, detail, solver string) {
	cr.mu.Lock()
	defer cr.mu.Unlock()
	cr.Obligations++
	if ok {
		cr.Discharged++
		cr.ProvedNames = append(cr.ProvedNames, name)
		if len(cr.Samples) < 8 {
			cr.Samples = append(cr.Samples, map[string]any{"obligation": name, "status": "proved", "solver": solver, "what": detail})
		}
		return
	}
	o := &Obligation{Name: name, Func: name, Class: "c02", Props: []string{cr.Prop}, Status: "failed", Formula: detail}
	f := &Failure{Prop: cr.Prop, Obl: o, Entry: "", Verdict: "violation"}
	for _, kf := range cr.Known {
		if kf.Prop == cr.Prop && kf.Excuse == "" && matchPattern(kf.Pattern, name) {
			f.Known, f.Verdict = kf, "known"
			cr.KnownHits[kf.Line] = append(cr.KnownHits[kf.Line], name)
		}
	}
	cr.Failures = append(cr.Failures, f)
}

// verifyPair checks Write and write<Op> of type t against the shape of a
// documented response. Returns the failing obligations (nil = all proved).
func (wf *WriteFamily) verifyPair(cr *CheckRun, job *EmittedJob, t *types.Named, wfn, writeFn *ssa.Function, sh writeShape, timeout int) (bool, []*Obligation) {
	em := wf.Em
	order := headerKeysIn(writeFn)
	status := sh.R.Status
	takesCode := writeFn.Signature.Params().Len() == 2
	codeOf := func(e *FuncEnc, r string, rt types.Type, codeArg string) (string, bool) {
		switch {
		case takesCode:
			return codeArg, true
		case status == "default":
			ci, _, ok := structFieldByName(rt, "Code")
			if !ok {
				return "", false
			}
			return sx(e.D.FieldSelector(rt, ci), r), true
		default:
			return status, isDigits(status)
		}
	}
	mkContract := func(fn *ssa.Function, isWrite bool) *Contract {
		base := em.W.ContractFor(fn)
		c := &Contract{Name: fn.String(), Emitted: true, TraceSpecified: true, Options: map[string]string{"responder": "true"}, LoopInv: map[int][]*Clause{}, LoopDec: map[int]*Clause{}}
		if base != nil {
			c.PreHook = base.PreHook
		}
		c.RetHook = func(e *FuncEnc, results []string) []NamedFormula {
			r := e.val[fn.Params[0]]
			rt := fn.Params[0].Type()
			if p, ok := rt.Underlying().(*types.Pointer); ok {
				rt = p.Elem()
				r = e.load(e.entry, r, rt)
			}
			codeArg := ""
			if isWrite && takesCode {
				codeArg = e.val[fn.Params[2]]
			}
			var code string
			var ok bool
			if isWrite {
				code, ok = codeOf(e, r, rt, codeArg)
			} else {
				// write<Op>: the documented status of this operation
				if status == "default" {
					code, ok = codeOf(e, r, rt, "")
				} else {
					code, ok = status, isDigits(status)
				}
			}
			if !ok {
				return []NamedFormula{{Name: "ensures#shape", Props: []string{"C02"}, Formula: "false"}}
			}
			head, body, full, bodyGuard := wf.expected(e, sh, r, rt, code, e.entry.trace, order)
			out := []NamedFormula{}
			if full {
				out = append(out, NamedFormula{Name: "ensures#head", Props: []string{"C02", "C10"}, Formula: eq(sx("respHead", e.cur.trace), head)})
			} else {
				e.Abstracted = append(e.Abstracted, "header values of non-string or array type: only status and Content-Type are decided")
				core := sx("respCore", e.entry.trace)
				if sh.R.ContentType != "" {
					core = sx("core_ct", core, e.D.Lit(sh.R.ContentType))
				}
				core = sx("core_wh", core, code)
				out = append(out, NamedFormula{Name: "ensures#core", Props: []string{"C02"}, Formula: eq(sx("respCore", e.cur.trace), core)})
			}
			if body != "" {
				out = append(out, NamedFormula{Name: "ensures#body", Props: []string{"C02", "C10"}, Formula: implies(bodyGuard, eq(sx("respBody", e.cur.trace), body))})
			} else {
				out = append(out, NamedFormula{Name: "ensures#body", Props: []string{"C02"}, Formula: "false"})
			}
			return out
		}
		if isWrite {
			c.PostHook = func(e *FuncEnc, args, results []string, pre, post *state) []NamedFormula {
				r := args[0]
				rt := fn.Params[0].Type()
				if p, ok := rt.Underlying().(*types.Pointer); ok {
					rt = p.Elem()
					r = e.load(pre, r, rt)
				}
				codeArg := ""
				if takesCode && len(args) > 2 {
					codeArg = args[2]
				}
				code, ok := codeOf(e, r, rt, codeArg)
				if !ok {
					return nil
				}
				head, body, full, bodyGuard := wf.expected(e, sh, r, rt, code, pre.trace, order)
				e.D.UF("nResp", []string{"Trace"}, "Int")
				out := []NamedFormula{{Name: "ensures#oneResponse", Formula: eq(sx("nResp", post.trace), sx("+", sx("nResp", pre.trace), "1"))}}
				if full {
					out = append(out, NamedFormula{Name: "ensures#head", Formula: eq(sx("respHead", post.trace), head)})
				} else {
					core := sx("respCore", pre.trace)
					if sh.R.ContentType != "" {
						core = sx("core_ct", core, e.D.Lit(sh.R.ContentType))
					}
					out = append(out, NamedFormula{Name: "ensures#core", Formula: eq(sx("respCore", post.trace), sx("core_wh", core, code))})
				}
				if body != "" {
					out = append(out, NamedFormula{Name: "ensures#body", Formula: implies(bodyGuard, eq(sx("respBody", post.trace), body))})
				}
				return out
			}
		}
		return c
	}
	saved1, saved2 := em.W.Contracts[writeFn.String()], em.W.Contracts[wfn.String()]
	defer func() {
		em.W.Contracts[writeFn.String()], em.W.Contracts[wfn.String()] = saved1, saved2
	}()
	em.W.Contracts[writeFn.String()] = mkContract(writeFn, true)
	em.W.Contracts[wfn.String()] = mkContract(wfn, false)
	var fails []*Obligation
	for _, fn := range []*ssa.Function{writeFn, wfn} {
		e := &FuncEnc{W: em.W, Fn: fn, Name: fmt.Sprintf("emitted[%s].%s[as %s]", em.Entry.Name, relName(fn), status), D: NewDecls(), Contract: em.W.ContractFor(fn)}
		e.Encode()
		var mine []*Obligation
		for _, o := range e.Obls {
			for _, p := range o.Props {
				if p == "C02" {
					mine = append(mine, o)
				}
			}
		}
		all := e.Obls
		e.Obls = mine
		e.Verify(cr.Scratch, timeout)
		e.Obls = all
		for _, o := range mine {
			if o.Status != "proved" {
				fails = append(fails, o)
			}
		}
		cr.mu.Lock()
		cr.Functions[fmt.Sprintf("emitted[%s].%s", em.Entry.Name, relName(fn))] = true
		for k := range e.Assumed {
			cr.Assumed[k] = true
		}
		cr.mu.Unlock()
	}
	return len(fails) == 0, fails
}

func isDigits(s string) bool {
	if s == "" {
		return false
	}
	for _, r := range s {
		if r < '0' || r > '9' {
			return false
		}
	}
	return true
}

func matchPattern(pat, s string) bool {
	return regexpMatch(pat, s)
}

// loopVisitsAll: the loop indexes `src` with a counter that runs 0, 1, ...,
// len(src)-1: the rangeindex of a range loop over src, or a phi that starts at
// 0, is compared `< len(src)` in the header and incremented by one.
func loopVisitsAll(li *loopInfo, src, idx ssa.Value) bool {
	// range loop: idx == rangeindex+1 where rangeindex is the header phi compared with len(src)
	var phi *ssa.Phi
	switch x := idx.(type) {
	case *ssa.Phi:
		phi = x
	case *ssa.BinOp:
		if p, ok := x.X.(*ssa.Phi); ok && x.Op == token.ADD {
			if c, ok := x.Y.(*ssa.Const); ok && c.Int64() == 1 && p.Comment == "rangeindex" {
				phi = p
			}
		}
	}
	if phi == nil || phi.Block() != li.header {
		return false
	}
	iff, ok := li.header.Instrs[len(li.header.Instrs)-1].(*ssa.If)
	if !ok {
		return false
	}
	cmp, ok := iff.Cond.(*ssa.BinOp)
	if !ok || cmp.Op != token.LSS {
		return false
	}
	lenOf := func(v ssa.Value) bool {
		c, ok := v.(*ssa.Call)
		if !ok {
			return false
		}
		bi, ok := c.Call.Value.(*ssa.Builtin)
		return ok && bi.Name() == "len" && len(c.Call.Args) == 1 && c.Call.Args[0] == src
	}
	if !lenOf(cmp.Y) {
		return false
	}
	if phi.Comment == "rangeindex" {
		// compared value is rangeindex+1
		inc, ok := cmp.X.(*ssa.BinOp)
		return ok && inc.X == ssa.Value(phi)
	}
	if cmp.X != ssa.Value(phi) || idx != ssa.Value(phi) {
		return false
	}
	for i, p := range li.header.Preds {
		e := phi.Edges[i]
		if li.body[p] {
			inc, ok := e.(*ssa.BinOp)
			if !ok || inc.Op != token.ADD || inc.X != ssa.Value(phi) {
				return false
			}
			if c, ok := inc.Y.(*ssa.Const); !ok || c.Int64() != 1 {
				return false
			}
		} else {
			if c, ok := e.(*ssa.Const); !ok || c.Int64() != 0 {
				return false
			}
		}
	}
	return true
}
