package vc

import (
	"bytes"
	"fmt"
	"go/token"
	"go/types"
	"os"
	"os/exec"
	"path/filepath"
	"regexp"
	"sort"
	"strings"

	"golang.org/x/tools/go/ssa"
)

// C12 (DESIGN §4.12): every source of nondeterminism reachable from the
// generator's entry points is an obligation.
//
//   maprange  a `range` over a map must be order-independent:
//             rule sorted-bag : the only effect is `s = append(s, x)` on one local
//                               slice that is sorted before any other use
//             rule keyed      : the only effects are m2[k] = v keyed by the iteration
//                               key (array-store commutativity, discharged by SMT),
//                               no loop-carried value, exits only by exhaustion or by
//                               returning an error (no bytes are written on error)
//   mapkeys   maps.Keys / maps.Values must flow into a sort before any other use
//   env/time/rand/go/select: must not be reachable (TEMPLATE_DEBUG is a stated exception)

type detSite struct {
	Name   string
	Fn     *ssa.Function
	Pos    token.Position
	OK     bool
	Rule   string
	Why    string
	SMT    string // optional script that must be unsat
}

// reachableFrom: static call graph closure (closures included; interface
// invokes resolved by method name over module methods).
func (w *World) reachableFrom(roots []*ssa.Function) map[*ssa.Function]bool {
	byName := map[string][]*ssa.Function{}
	for _, f := range w.Functions() {
		if f.Signature.Recv() != nil {
			byName[f.Name()] = append(byName[f.Name()], f)
		}
	}
	seen := map[*ssa.Function]bool{}
	var stack []*ssa.Function
	push := func(f *ssa.Function) {
		if f != nil && !seen[f] && w.IsModule(f) && f.Blocks != nil {
			seen[f] = true
			stack = append(stack, f)
		}
	}
	for _, r := range roots {
		push(r)
	}
	for len(stack) > 0 {
		f := stack[len(stack)-1]
		stack = stack[:len(stack)-1]
		for _, b := range f.Blocks {
			for _, in := range b.Instrs {
				for _, op := range in.Operands(nil) {
					switch v := (*op).(type) {
					case *ssa.Function:
						push(v)
					case *ssa.MakeClosure:
						push(v.Fn.(*ssa.Function))
					}
				}
				if c, ok := in.(ssa.CallInstruction); ok && c.Common().IsInvoke() {
					for _, g := range byName[c.Common().Method.Name()] {
						push(g)
					}
				}
			}
		}
		for _, a := range f.AnonFuncs {
			push(a)
		}
	}
	return seen
}

func (w *World) detSites(reach map[*ssa.Function]bool) []detSite {
	var out []detSite
	var fns []*ssa.Function
	for f := range reach {
		fns = append(fns, f)
	}
	sort.Slice(fns, func(i, j int) bool { return fns[i].String() < fns[j].String() })
	seenPos := map[string]bool{}
	for _, f := range fns {
		fname := shortFn(f)
		counts := map[string]int{}
		for _, b := range f.Blocks {
			for _, in := range b.Instrs {
				pos := w.Prog.Fset.Position(in.Pos())
				mk := func(class string) detSite {
					n := counts[class]
					counts[class]++
					return detSite{Name: fmt.Sprintf("%s/%s#%d", fname, class, n), Fn: f, Pos: pos}
				}
				switch x := in.(type) {
				case *ssa.Range:
					if _, ok := x.X.Type().Underlying().(*types.Map); !ok {
						continue
					}
					s := mk("maprange")
					key := pos.String()
					if seenPos[key] {
						continue // other instantiation of the same generic source
					}
					seenPos[key] = true
					w.classifyMapRange(f, x, &s)
					out = append(out, s)
				case *ssa.Go, *ssa.Select:
					s := mk("concurrency")
					s.Why = "goroutine / select in generator code"
					out = append(out, s)
				case *ssa.Call:
					g := x.Call.StaticCallee()
					if g == nil {
						continue
					}
					n := g.String()
					if g.Origin() != nil {
						n = g.Origin().String()
					}
					switch {
					case n == "golang.org/x/exp/maps.Keys" || n == "golang.org/x/exp/maps.Values" || n == "maps.Keys" || n == "maps.Values":
						s := mk("mapkeys")
						key := pos.String()
						if seenPos[key] {
							continue
						}
						seenPos[key] = true
						if sortedBeforeUse(x, x) {
							s.OK, s.Rule = true, "sorted-bag"
							s.Why = "the key slice is passed to sort before any other use"
						} else {
							s.Why = "maps.Keys result is used before being sorted"
						}
						out = append(out, s)
					case n == "os.Getenv" || n == "os.Environ" || n == "os.LookupEnv":
						s := mk("env")
						if v, ok := constString(x.Call.Args[0]); ok && v == "TEMPLATE_DEBUG" {
							s.OK, s.Rule = true, "stated-input"
							s.Why = "TEMPLATE_DEBUG is a stated extra input (DESIGN §11: assumed unset)"
						} else {
							s.Why = "reads the environment"
						}
						out = append(out, s)
					case n == "time.Now" || strings.HasPrefix(n, "math/rand.") || n == "os.Getpid" || n == "os.Hostname":
						s := mk("clock-rand")
						s.Why = "reads " + n
						out = append(out, s)
					}
				}
			}
		}
	}
	return out
}

func shortFn(f *ssa.Function) string {
	s := f.String()
	if f.Origin() != nil {
		s = f.Origin().String()
	}
	s = strings.ReplaceAll(s, repoPkg+"/", "")
	s = strings.ReplaceAll(s, repoPkg, "goag")
	return s
}

// sortedBeforeUse: every use of slice value v (following appends/phis) reaches
// sort.Strings / sort.Slice / slices.Sort first.
func sortedBeforeUse(v ssa.Value, origin ssa.Instruction) bool {
	return sortedBeforeUseIn(v, origin, nil)
}

func sortedBeforeUseIn(v ssa.Value, origin ssa.Instruction, li *loopInfo) bool {
	refs := v.Referrers()
	if refs == nil {
		return false
	}
	// order of uses in the block of definition / dominated blocks: we accept
	// when the first non-append, non-phi use is a sort call and all other uses
	// come after it in the same block or are dominated by it.
	var sortCall ssa.Instruction
	for _, r := range *refs {
		if c, ok := r.(*ssa.Call); ok {
			if g := c.Call.StaticCallee(); g != nil {
				switch g.String() {
				case "sort.Strings", "sort.Ints", "slices.Sort", "sort.Slice", "sort.SliceStable":
					if sortCall == nil {
						sortCall = c
					}
				}
			}
		}
	}
	if sortCall == nil {
		return false
	}
	for _, r := range *refs {
		if r == sortCall {
			continue
		}
		if _, isDbg := r.(*ssa.DebugRef); isDbg {
			continue
		}
		if r == origin {
			continue
		}
		if li != nil && li.body[r.Block()] {
			if _, isPhi := r.(*ssa.Phi); isPhi {
				continue
			}
			return false
		}
		rb, sb := r.Block(), sortCall.Block()
		if rb == sb {
			if instrIndex(r) < instrIndex(sortCall) {
				return false
			}
			continue
		}
		if !sb.Dominates(rb) {
			return false
		}
	}
	return true
}

func instrIndex(in ssa.Instruction) int {
	for i, x := range in.Block().Instrs {
		if x == in {
			return i
		}
	}
	return -1
}

func (w *World) classifyMapRange(f *ssa.Function, rng *ssa.Range, s *detSite) {
	// locate the loop: header = block of the Next instruction
	var next *ssa.Next
	for _, r := range *rng.Referrers() {
		if n, ok := r.(*ssa.Next); ok {
			next = n
		}
	}
	if next == nil {
		s.Why = "range without next"
		return
	}
	if singletonGuard(rng) {
		s.OK, s.Rule = true, "singleton"
		s.Why = "the range is only reached when len(m) == 1"
		return
	}
	e := &FuncEnc{W: w, Fn: f, D: NewDecls()}
	e.init()
	e.prepareCFG()
	li := e.loops[next.Block()]
	if li == nil {
		s.Why = "takes one arbitrary entry of the map (a range whose body never iterates again)"
		return
	}
	var keyVal ssa.Value
	for _, r := range *next.Referrers() {
		if ex, ok := r.(*ssa.Extract); ok && ex.Index == 1 {
			keyVal = ex
		}
	}
	// loop-carried values
	var carried []*ssa.Phi
	for _, in := range li.header.Instrs {
		if phi, ok := in.(*ssa.Phi); ok {
			carried = append(carried, phi)
		}
	}
	// exits
	exitOK := true
	exitWhy := ""
	for _, b := range li.blocks() {
		for _, succ := range b.Succs {
			if li.body[succ] {
				continue
			}
			if b == li.header {
				continue // exhaustion
			}
			if leadsOnlyToErrorReturn(succ, li, map[*ssa.BasicBlock]bool{}) {
				continue
			}
			exitOK = false
			exitWhy = "leaves the loop early (break)"
		}
		if ret, ok := b.Instrs[len(b.Instrs)-1].(*ssa.Return); ok {
			if !returnsError(ret) {
				exitOK = false
				exitWhy = "returns a non-error result from inside the loop"
			}
		}
	}
	// effects
	type eff struct {
		kind string
		in   ssa.Instruction
	}
	var effs []eff
	for _, b := range li.blocks() {
		for _, in := range b.Instrs {
			switch x := in.(type) {
			case *ssa.Store:
				if a, ok := rootAlloc(x.Addr); ok && allocInLoop(a, li) {
					continue // a cell allocated per iteration
				}
				if a, ok := rootAlloc(x.Addr); ok && onlyFeedsErrors(a, li) {
					continue
				}
				effs = append(effs, eff{"store", in})
			case *ssa.MapUpdate:
				if x.Key == keyVal {
					effs = append(effs, eff{"keyed", in})
				} else {
					effs = append(effs, eff{"mapupdate", in})
				}
			case *ssa.Call:
				if bi, ok := x.Call.Value.(*ssa.Builtin); ok {
					if bi.Name() == "append" {
						if valueOnlyFeedsErrors(x, 0) {
							continue // only reported in an error text
						}
						effs = append(effs, eff{"append", in})
					}
					continue
				}
				g := x.Call.StaticCallee()
				if g == nil {
					effs = append(effs, eff{"dyncall", in})
					continue
				}
				if w.IsModule(g) && g.Blocks != nil {
					keys, top, _ := w.ModSet(g)
					if top || len(keys) > 0 {
						if ct := w.ContractFor(g); ct == nil || !ct.Pure {
							effs = append(effs, eff{"modcall:" + g.Name(), in})
						}
					}
				}
			}
		}
	}
	// rule sorted-bag
	if exitOK && len(carried) == 1 {
		phi := carried[0]
		okBag := true
		var app *ssa.Call
		for _, ef := range effs {
			if ef.kind == "append" && app == nil {
				app = ef.in.(*ssa.Call)
				continue
			}
			okBag = false
		}
		if okBag && app != nil && app.Call.Args[0] == phi && phiBackIs(phi, app, li) && sortedBeforeUseIn(phi, app, li) {
			s.OK, s.Rule = true, "sorted-bag"
			s.Why = "keys are appended to one local slice that is sorted before any other use"
			return
		}
	}
	if len(carried) > 0 {
		// carried values that only feed error returns are fine
		var bad []string
		for _, phi := range carried {
			if !phiOnlyFeedsErrors(phi, li) {
				bad = append(bad, "`"+strings.TrimPrefix(phi.Comment, "#")+"`")
			}
		}
		if len(bad) > 0 {
			s.Why = "loop-carried value " + strings.Join(bad, ", ") + " is updated in iteration order"
			return
		}
	}
	if !exitOK {
		s.Why = exitWhy
		return
	}
	for _, ef := range effs {
		if ef.kind != "keyed" {
			s.Why = "effect `" + ef.kind + "` in the loop body depends on iteration order: " + strings.TrimSpace(ef.in.String())
			return
		}
	}
	s.OK, s.Rule = true, "keyed"
	s.Why = fmt.Sprintf("%d keyed update(s) m[k]=v with k the iteration key; exits only by exhaustion or error", len(effs))
	s.SMT = `(declare-sort K 0)(declare-sort V 0)
(declare-const m (Array K V))(declare-const k1 K)(declare-const k2 K)(declare-const v1 V)(declare-const v2 V)
(assert (not (= k1 k2)))
(assert (not (= (store (store m k1 v1) k2 v2) (store (store m k2 v2) k1 v1))))
(check-sat)
`
}

// leadsOnlyToErrorReturn: every path from b (outside the loop) ends in a
// return of a non-nil error or a panic.
func leadsOnlyToErrorReturn(b *ssa.BasicBlock, li *loopInfo, seen map[*ssa.BasicBlock]bool) bool {
	if seen[b] {
		return true
	}
	seen[b] = true
	if li.body[b] {
		return false
	}
	switch t := b.Instrs[len(b.Instrs)-1].(type) {
	case *ssa.Return:
		return returnsError(t)
	case *ssa.Panic:
		return true
	}
	if len(b.Succs) == 0 {
		return false
	}
	for _, s := range b.Succs {
		if !leadsOnlyToErrorReturn(s, li, seen) {
			return false
		}
	}
	return true
}

func returnsError(ret *ssa.Return) bool {
	if len(ret.Results) == 0 {
		return false
	}
	last := ret.Results[len(ret.Results)-1]
	if !isErrorType(last.Type()) {
		return false
	}
	if c, ok := last.(*ssa.Const); ok && c.Value == nil {
		return false
	}
	return true
}

func rootAlloc(v ssa.Value) (*ssa.Alloc, bool) {
	for i := 0; i < 8; i++ {
		switch x := v.(type) {
		case *ssa.Alloc:
			return x, true
		case *ssa.FieldAddr:
			v = x.X
		case *ssa.IndexAddr:
			v = x.X
		default:
			return nil, false
		}
	}
	return nil, false
}

func allocInLoop(a *ssa.Alloc, li *loopInfo) bool { return li.body[a.Block()] }

// onlyFeedsErrors: a local cell whose loads flow only into fmt.Errorf / error returns.
func onlyFeedsErrors(a *ssa.Alloc, li *loopInfo) bool {
	if a.Heap {
		return false
	}
	for _, r := range *a.Referrers() {
		switch x := r.(type) {
		case *ssa.Store:
		case *ssa.UnOp:
			if !valueOnlyFeedsErrors(x, 0) {
				return false
			}
		case *ssa.DebugRef:
		default:
			return false
		}
	}
	return true
}

var feedsVisiting = map[ssa.Value]bool{}

func valueOnlyFeedsErrors(v ssa.Value, depth int) bool {
	if depth > 12 {
		return false
	}
	if feedsVisiting[v] {
		return true // cycle through a phi: no new use
	}
	feedsVisiting[v] = true
	defer delete(feedsVisiting, v)
	refs := v.Referrers()
	if refs == nil {
		return true
	}
	for _, r := range *refs {
		switch x := r.(type) {
		case *ssa.DebugRef:
		case *ssa.Return:
			if !returnsError(x) {
				return false
			}
		case *ssa.Call:
			if g := x.Call.StaticCallee(); g != nil && (g.String() == "fmt.Errorf" || g.String() == "errors.New") {
				continue
			}
			if bi, ok := x.Call.Value.(*ssa.Builtin); ok && bi.Name() == "append" {
				if !valueOnlyFeedsErrors(x, depth+1) {
					return false
				}
				continue
			}
			return false
		case *ssa.MakeInterface:
			if !valueOnlyFeedsErrors(x, depth+1) {
				return false
			}
		case *ssa.Store:
			a, ok := rootAlloc(x.Addr)
			if !ok {
				return false
			}
			if !varargsFeedsErrors(a) {
				return false
			}
		case *ssa.Phi:
			if !valueOnlyFeedsErrors(x, depth+1) {
				return false
			}
		case *ssa.Slice:
			if !valueOnlyFeedsErrors(x, depth+1) {
				return false
			}
		default:
			return false
		}
	}
	return true
}

// varargsFeedsErrors: the array backing a variadic argument list of fmt.Errorf.
func varargsFeedsErrors(a *ssa.Alloc) bool {
	for _, r := range *a.Referrers() {
		switch x := r.(type) {
		case *ssa.IndexAddr, *ssa.DebugRef:
		case *ssa.Slice:
			if !valueOnlyFeedsErrors(x, 2) {
				return false
			}
		default:
			_ = x
			return false
		}
	}
	return true
}

func phiOnlyFeedsErrors(phi *ssa.Phi, li *loopInfo) bool {
	return valueOnlyFeedsErrors(phi, 0)
}

func phiBackIs(phi *ssa.Phi, app *ssa.Call, li *loopInfo) bool {
	for i, p := range li.header.Preds {
		if li.body[p] && phi.Edges[i] != app && phi.Edges[i] != phi {
			return false
		}
	}
	return true
}

// CheckDeterminism runs the C12 obligations.
func (cr *CheckRun) CheckDeterminism() {
	rw, err := LoadRepoWorld(cr.Repo)
	if err != nil {
		cr.EngineErrors = append(cr.EngineErrors, "load repo: "+err.Error())
		return
	}
	w := rw.W
	var roots []*ssa.Function
	for _, n := range []string{"(" + repoPkg + ".Generator).Generate", "(" + repoPkg + ".Generator).GenerateFile", "(" + repoPkg + ".Generator).GenerateDir", repoPkg + "/cmd/goag.main"} {
		if f := w.funcByName(n); f != nil {
			roots = append(roots, f)
		}
	}
	if len(roots) == 0 {
		cr.EngineErrors = append(cr.EngineErrors, "no generator entry point found")
		return
	}
	reach := w.reachableFrom(roots)
	cr.Extra["reachable_functions"] = len(reach)
	cr.Assumed["externals (kin-openapi loader, text/template, goimports, sort) are deterministic; text/template ranges over maps in sorted key order"] = true
	cr.Assumed["TEMPLATE_DEBUG is unset"] = true
	var bin string
	for _, s := range w.detSites(reach) {
		cr.Functions[shortFn(s.Fn)] = true
		cr.Obligations++
		o := &Obligation{Name: s.Name, Func: shortFn(s.Fn), Class: "determinism", Props: []string{"C12"}, Pos: s.Pos, Formula: s.Why}
		ok := s.OK
		solver := "structural rule " + s.Rule
		if ok && s.SMT != "" {
			r := Solve(s.SMT, cr.Scratch, s.Name+".commute", 10)
			ok = r.Status == "unsat"
			solver += " + " + r.Solver + " (store commutativity)"
		}
		if ok {
			cr.Discharged++
			cr.ProvedNames = append(cr.ProvedNames, o.Name)
			cr.Samples = append(cr.Samples, map[string]any{"obligation": o.Name, "status": "proved", "solver": solver, "pos": s.Pos.String(), "why": s.Why})
			continue
		}
		o.Status = "failed"
		f := &Failure{Prop: "C12", Obl: o, Entry: "layer-G"}
		for _, kf := range cr.Known {
			if kf.Prop == cr.Prop {
				if re, err := regexp.Compile(kf.Pattern); err == nil && re.MatchString(o.Name) {
					f.Known, f.Verdict = kf, "known"
					cr.KnownHits[kf.Line] = append(cr.KnownHits[kf.Line], o.Name)
				}
			}
		}
		if f.Known == nil {
			f.Verdict = "violation"
			if bin == "" {
				bin, _ = BuildGoag(cr.Repo, cr.Scratch)
			}
			if bin != "" {
				f.Replay = cr.replayDeterminism(bin)
			}
		}
		cr.Failures = append(cr.Failures, f)
	}
}

// replayDeterminism: run the real generator repeatedly on the map-fat specs of
// /verif/corpus/mapfat and compare the written bytes.
func (cr *CheckRun) replayDeterminism(bin string) *ReplayResult {
	specs, _ := filepath.Glob(filepath.Join(cr.VerifDir, "corpus", "mapfat", "*.yaml"))
	res := &ReplayResult{Cmd: "goag run 12 times per map-fat spec (separate processes), outputs compared", Expected: "identical bytes"}
	for _, spec := range specs {
		var first map[string]string
		for i := 0; i < 12; i++ {
			dir, _ := os.MkdirTemp(cr.Scratch, "det")
			_ = os.WriteFile(filepath.Join(dir, ".goag.yaml"), []byte("cors:\n  enable: true\n"), 0o644)
			cmd := exec.Command(bin, "-file", spec, "-out", dir, "-package", "emitted", "-client", "-config", filepath.Join(dir, ".goag.yaml"))
			var out bytes.Buffer
			cmd.Stdout, cmd.Stderr = &out, &out
			if err := cmd.Run(); err != nil {
				os.RemoveAll(dir)
				break
			}
			snap := snapshot(dir)
			os.RemoveAll(dir)
			if first == nil {
				first = snap
				continue
			}
			if d := diffSnap(snap, first); d != "" {
				res.Reproduced = true
				res.Input = "spec " + filepath.Base(spec)
				res.Observed = "run " + fmt.Sprint(i) + " differs from run 0: " + d
				return res
			}
		}
	}
	res.Input = fmt.Sprintf("%d map-fat spec(s)", len(specs))
	res.Observed = "all runs identical"
	return res
}

// singletonGuard: the range is dominated by a test that len(m) == 1.
func singletonGuard(rng *ssa.Range) bool {
	b := rng.Block()
	isLen1 := func(v ssa.Value) (eq bool, ok bool) {
		bin, isBin := v.(*ssa.BinOp)
		if !isBin || (bin.Op != token.EQL && bin.Op != token.NEQ) {
			return false, false
		}
		c, isC := bin.Y.(*ssa.Const)
		call, isCall := bin.X.(*ssa.Call)
		if !isC || !isCall || c.Value == nil || c.Int64() != 1 {
			return false, false
		}
		bi, isB := call.Call.Value.(*ssa.Builtin)
		if !isB || bi.Name() != "len" || call.Call.Args[0] != rng.X {
			return false, false
		}
		return bin.Op == token.EQL, true
	}
	for d := b.Idom(); d != nil; d = d.Idom() {
		iff, ok := d.Instrs[len(d.Instrs)-1].(*ssa.If)
		if !ok {
			continue
		}
		eq, ok := isLen1(iff.Cond)
		if !ok {
			continue
		}
		branch := d.Succs[0]
		if !eq {
			branch = d.Succs[1]
		}
		if branch == b || branch.Dominates(b) {
			return true
		}
	}
	return false
}
