package vc

import (
	"encoding/json"
	"fmt"
	"os"
	"path/filepath"
	"reflect"
	"sort"
	"strings"

	"gopkg.in/yaml.v3"
)

// C18 (DESIGN §4.18): a relation between two emitted programs is not a contract
// on a function. The reduction: every Layer E contract instance is computed
// from the dereferenced spec, and its postconditions determine the observable
// result. If the $ref form and its mechanically inlined twin are both proved
// against the *same* instance, they agree on everything the contracts cover.

func deepCopy(v any) any {
	switch x := v.(type) {
	case map[string]any:
		out := make(map[string]any, len(x))
		for k, e := range x {
			out[k] = deepCopy(e)
		}
		return out
	case []any:
		out := make([]any, len(x))
		for i, e := range x {
			out[i] = deepCopy(e)
		}
		return out
	}
	return v
}

// inlineRefs replaces every local component $ref (except security schemes) by
// a deep copy of its target. Cyclic references are left in place.
func inlineRefs(root map[string]any) (map[string]any, int) {
	n := 0
	resolve := func(ref string) (any, bool) {
		var cur any = root
		for _, part := range strings.Split(strings.TrimPrefix(ref, "#/"), "/") {
			m, ok := cur.(map[string]any)
			if !ok {
				return nil, false
			}
			cur, ok = m[part]
			if !ok {
				return nil, false
			}
		}
		return cur, true
	}
	var walk func(v any, stack []string) any
	walk = func(v any, stack []string) any {
		switch x := v.(type) {
		case map[string]any:
			if ref, ok := x["$ref"].(string); ok && strings.HasPrefix(ref, "#/components/") && !strings.HasPrefix(ref, "#/components/securitySchemes/") {
				for _, s := range stack {
					if s == ref {
						return x // cycle
					}
				}
				if tgt, ok := resolve(ref); ok {
					n++
					return walk(deepCopy(tgt), append(stack, ref))
				}
				return x
			}
			out := make(map[string]any, len(x))
			for k, e := range x {
				out[k] = walk(e, stack)
			}
			return out
		case []any:
			out := make([]any, len(x))
			for i, e := range x {
				out[i] = walk(e, stack)
			}
			return out
		}
		return v
	}
	out := map[string]any{}
	for k, v := range root {
		if k == "components" {
			continue
		}
		out[k] = walk(v, nil)
	}
	// keep only what cannot be inlined
	if comps, ok := root["components"].(map[string]any); ok {
		keep := map[string]any{}
		if ss, ok := comps["securitySchemes"]; ok {
			keep["securitySchemes"] = ss
		}
		if len(keep) > 0 {
			out["components"] = keep
		}
	}
	return out, n
}

// TwinEntry writes the inlined twin of a corpus entry (nil if the spec has no $ref).
func TwinEntry(ce CorpusEntry, dir string) (*CorpusEntry, error) {
	data, err := os.ReadFile(ce.Spec)
	if err != nil {
		return nil, err
	}
	var raw map[string]any
	if err := yaml.Unmarshal(data, &raw); err != nil {
		return nil, err
	}
	raw, _ = normalizeYAML(raw).(map[string]any)
	tw, n := inlineRefs(raw)
	if n == 0 {
		return nil, nil
	}
	out, err := json.MarshalIndent(tw, "", " ") // JSON is YAML
	if err != nil {
		return nil, err
	}
	t := ce
	t.Name = ce.Name + "~inline"
	t.Group = "twin"
	d := filepath.Join(dir, sanitize(t.Name))
	_ = os.MkdirAll(d, 0o755)
	t.Spec = filepath.Join(d, "openapi.yaml")
	if err := os.WriteFile(t.Spec, append(out, '\n'), 0o644); err != nil {
		return nil, err
	}
	return &t, nil
}

// refSignature: the part of the reference reading that contract instances are
// computed from, with component names erased.
func refSignature(rs *RefSpec) any {
	type op struct {
		Method, Template string
		Security          [][]string
		Params            []string
		Responses         []string
		Body              string
	}
	var ops []op
	for _, o := range rs.Ops {
		x := op{Method: o.Method, Template: o.Template, Body: fmt.Sprint(o.HasBody, o.BodyJSON, o.BodyRequired)}
		for _, alt := range o.Security {
			var ks []string
			for _, s := range alt {
				ks = append(ks, s.Key)
			}
			x.Security = append(x.Security, ks)
		}
		for _, p := range o.Params {
			x.Params = append(x.Params, fmt.Sprint(p.In, ":", p.Name, ":", p.Required, ":", p.IsArray, ":", p.Type, ":", p.Format, ":", p.Nullable))
		}
		for _, r := range o.Responses {
			var hs []string
			for _, h := range r.Headers {
				hs = append(hs, fmt.Sprint(h.Name, ":", h.Required, ":", h.Type, ":", h.Format))
			}
			sort.Strings(hs)
			x.Responses = append(x.Responses, fmt.Sprint(r.Status, ":", r.ContentType, ":", r.IsJSON, ":", hs))
		}
		ops = append(ops, x)
	}
	return []any{rs.BasePath, ops}
}

func sameSignature(a, b *RefSpec) bool {
	return reflect.DeepEqual(refSignature(a), refSignature(b))
}
