package vc

import (
	"fmt"
	"go/ast"
	"go/types"
	"sort"

	"golang.org/x/tools/go/packages"
)

// CheckDefinedTypeCodecs: structural obligation (go/types method sets, like the
// sealing obligations of C02) for every defined type of the emitted package
// declared over another type of the package (`type T U`, no `=`)
// that brings JSON methods of its own (`type NewPetJSON NewPet`, a request body
// component over a schema component): a defined type does not inherit methods,
// so it would be decoded / encoded by reflection (Go field names, no
// required-member check) where the type it was declared from follows its
// schema. The obligation: such a type has the method too (an alias has).
func (cr *CheckRun) CheckDefinedTypeCodecs(job *EmittedJob) {
	var pkg *packages.Package
	for _, p := range job.Em.W.Pkgs {
		if p.Types == job.Em.Pkg.Pkg {
			pkg = p
		}
	}
	if pkg == nil || pkg.TypesInfo == nil {
		return
	}
	// declarations of the shape `type T U` (no `=`) with U a type of the package
	type decl struct {
		name   string
		t, src *types.Named
	}
	var decls []decl
	for _, file := range pkg.Syntax {
		for _, d := range file.Decls {
			gd, ok := d.(*ast.GenDecl)
			if !ok {
				continue
			}
			for _, sp := range gd.Specs {
				ts, ok := sp.(*ast.TypeSpec)
				if !ok || ts.TypeParams != nil { // aliases included: they hold the obligation by construction
					continue
				}
				id, ok := ts.Type.(*ast.Ident)
				if !ok {
					continue
				}
				tn, _ := pkg.TypesInfo.Defs[ts.Name].(*types.TypeName)
				un, _ := pkg.TypesInfo.Uses[id].(*types.TypeName)
				if tn == nil || un == nil || un.Pkg() != tn.Pkg() {
					continue
				}
				t, _ := types.Unalias(tn.Type()).(*types.Named)
				src, _ := types.Unalias(un.Type()).(*types.Named)
				if t != nil && src != nil {
					decls = append(decls, decl{ts.Name.Name, t, src})
				}
			}
		}
	}
	sort.Slice(decls, func(i, j int) bool { return decls[i].name < decls[j].name })
	for _, mp := range [][2]string{{"MarshalJSON", "C07"}, {"UnmarshalJSON", "C08"}} {
		method, prop := mp[0], mp[1]
		if cr.Prop != prop && cr.Prop != "C06" {
			continue
		}
		for _, d := range decls {
			if !hasMethod(d.src, method) {
				continue
			}
			ok := hasMethod(d.t, method)
			detail := ""
			if !ok {
				detail = fmt.Sprintf("type %s is declared as a defined type over %s and does not have its %s: values are handled by reflection (Go field names, no required-member / kind checks)", d.name, d.src.Obj().Name(), method)
			}
			cr.recordSimple("emitted["+job.Em.Entry.Name+"].type:"+d.name+"/own-codec:"+method, ok, detail, "go/types method sets")
		}
	}
}
