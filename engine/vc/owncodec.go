package vc

import (
	"fmt"
	"go/types"
)

// CheckDefinedTypeCodecs: structural obligation (go/types method sets, like the
// sealing obligations of C02) for every defined type of the emitted package
// whose underlying type is the underlying type of another type of the package
// that brings JSON methods of its own (`type NewPetJSON NewPet`, a request body
// component over a schema component): a defined type does not inherit methods,
// so it would be decoded / encoded by reflection (Go field names, no
// required-member check) where the type it was declared from follows its
// schema. The obligation: such a type has the method too (an alias has).
func (cr *CheckRun) CheckDefinedTypeCodecs(job *EmittedJob) {
	scope := job.Em.Pkg.Pkg.Scope()
	var named []*types.Named
	for _, n := range scope.Names() {
		tn, ok := scope.Lookup(n).(*types.TypeName)
		if !ok || tn.IsAlias() {
			continue
		}
		if nt, ok := tn.Type().(*types.Named); ok && nt.TypeParams().Len() == 0 {
			named = append(named, nt)
		}
	}
	for _, mp := range [][2]string{{"MarshalJSON", "C07"}, {"UnmarshalJSON", "C08"}} {
		method, prop := mp[0], mp[1]
		if cr.Prop != prop && cr.Prop != "C06" {
			continue
		}
		for _, t := range named {
			switch t.Underlying().(type) {
			case *types.Struct, *types.Slice, *types.Map:
			default:
				continue
			}
			var src *types.Named
			for _, u := range named {
				if u != t && hasMethod(u, method) && types.Identical(u.Underlying(), t.Underlying()) {
					src = u
					break
				}
			}
			if src == nil {
				continue
			}
			ok := hasMethod(t, method)
			detail := ""
			if !ok {
				detail = fmt.Sprintf("type %s is a defined type with the structure of %s but without its %s: values are handled by reflection (Go field names, no required-member / kind checks)", t.Obj().Name(), src.Obj().Name(), method)
			}
			cr.recordSimple("emitted["+job.Em.Entry.Name+"].type:"+t.Obj().Name()+"/own-codec:"+method, ok, detail, "go/types method sets")
		}
	}
}
