package vc

import (
	"fmt"
	"os"
	"os/exec"
	"path/filepath"
	"regexp"
	"sort"
	"strings"
	"sync"

	"golang.org/x/tools/go/ssa"
)

var safetyClasses = map[string]bool{"nil": true, "index": true, "slice": true, "nilinvoke": true, "nilcall": true, "nilmap": true, "typeassert": true, "div": true, "panic": true, "makeslice": true, "overflow": true}

// tagProps fills Obligation.Props where the generator of the obligation did
// not: contract clauses get the `option props=` of the contract, safety
// obligations get safetyProp.
func tagProps(e *FuncEnc, safetyProp string) {
	var cprops []string
	if e.Contract != nil {
		if p := e.Contract.Options["props"]; p != "" {
			cprops = strings.Split(p, ",")
		}
	}
	for _, o := range e.Obls {
		if len(o.Props) > 0 {
			continue
		}
		if safetyClasses[o.Class] || strings.HasPrefix(o.Class, "call:") {
			o.Props = []string{safetyProp}
			continue
		}
		o.Props = cprops
	}
}

// InstallEmittedTextContracts reads the contract families written in /repo and
// attaches the non-wildcard ones to the emitted functions of this package.
func InstallEmittedTextContracts(em *Emitted, repo string) ([]*Contract, error) {
	cs, err := ParseContractFile(filepath.Join(repo, "generator", "contracts_emitted_verif.go"), "emitted")
	if err != nil {
		return nil, err
	}
	for _, c := range cs {
		if !strings.HasSuffix(c.Name, "*") {
			em.W.Contracts[c.Name] = c
		}
	}
	return cs, nil
}

func familyDeclared(cs []*Contract, family string) bool {
	for _, c := range cs {
		if c.Options["family"] == family {
			return true
		}
	}
	return false
}

// EmittedJob: what to verify in one emitted package for the property of the run.
type EmittedJob struct {
	Em *Emitted
	RF *RouteFamily
	SF *ServeHTTPFamily
	PF *ParamsFamily
	CS []*Contract
}

// PrepareEmitted generates, loads and instruments one corpus entry.
func (cr *CheckRun) PrepareEmitted(bin string, ce CorpusEntry, expectGenError bool) *EmittedJob {
	em := Generate(bin, ce, filepath.Join(cr.Scratch, "pkgs"))
	if em.GenErr != nil {
		if expectGenError {
			cr.Note("%s: generation failed as the reference demands: %v", ce.Name, truncate(em.GenErr.Error(), 200))
		} else {
			cr.mu.Lock()
			cr.SkippedProgs = append(cr.SkippedProgs, ce.Name+": generation error: "+truncate(em.GenErr.Error(), 200))
			cr.mu.Unlock()
		}
		return &EmittedJob{Em: em}
	}
	em.Load()
	if em.LoadErr != nil {
		cr.mu.Lock()
		cr.SkippedProgs = append(cr.SkippedProgs, ce.Name+": generated package does not load (C01): "+truncate(em.LoadErr.Error(), 300))
		if cr.LoadFailureRelevant != nil && !needsUserCode(em.LoadErr.Error()) && cr.LoadFailureRelevant(em.LoadErr.Error()) {
			// the generated code this property is about does not compile: nothing can
			// be proved of it, and the compiler's message is a concrete witness
			cr.Obligations++
			o := &Obligation{Name: "emitted[" + ce.Name + "]/loads", Func: "emitted[" + ce.Name + "]", Class: "load", Props: []string{cr.Prop}, Status: "failed", Formula: "the generated package type-checks", Model: em.LoadErr.Error()}
			cr.Failures = append(cr.Failures, &Failure{Prop: cr.Prop, Obl: o, Entry: ce.Name, Verdict: "violation", Replay: &ReplayResult{Reproduced: true, Input: "corpus entry " + ce.Name, Expected: "generated package type-checks", Observed: truncate(em.LoadErr.Error(), 400), Cmd: "goag; go/packages load"}})
		}
		cr.mu.Unlock()
		return &EmittedJob{Em: em}
	}
	job := &EmittedJob{Em: em}
	cs, err := InstallEmittedTextContracts(em, cr.Repo)
	if err != nil {
		cr.mu.Lock()
		cr.EngineErrors = append(cr.EngineErrors, "contract file: "+err.Error())
		cr.mu.Unlock()
		return job
	}
	job.CS = cs
	if em.Func("(*API).route") != nil {
		if !familyDeclared(cs, "route") {
			cr.mu.Lock()
			cr.EngineErrors = append(cr.EngineErrors, "contract family `route` is not declared in generator/contracts_emitted_verif.go")
			cr.mu.Unlock()
			return job
		}
		rf, err := NewRouteFamily(em)
		if err != nil {
			cr.mu.Lock()
			cr.EngineErrors = append(cr.EngineErrors, ce.Name+": route family: "+err.Error())
			cr.mu.Unlock()
			return job
		}
		rf.Install()
		job.RF = rf
		sf := &ServeHTTPFamily{Em: em, RF: rf}
		if err := sf.Install(); err == nil {
			job.SF = sf
		}
	}
	if job.RF != nil {
		job.PF = NewParamsFamily(em, job.RF)
		job.PF.Install()
		for _, sk := range job.PF.Skipped {
			cr.Note("%s: %s", ce.Name, sk)
		}
	}
	InstallAuthFamilies(em)
	InstallSpecFileFamily(em)
	InstallResponderContracts(em)
	InstallEnvContracts(em)
	cr.mu.Lock()
	cr.Programs = append(cr.Programs, ce.Name)
	cr.mu.Unlock()
	return job
}

func (job *EmittedJob) enc(f *ssa.Function) *FuncEnc {
	em := job.Em
	return &FuncEnc{W: em.W, Fn: f, Name: "emitted[" + em.Entry.Name + "]." + relName(f), D: NewDecls(), Contract: em.W.ContractFor(f)}
}

// VerifyEmittedFuncs verifies the selected functions of the package.
func (cr *CheckRun) VerifyEmittedFuncs(job *EmittedJob, sel func(name string) bool) {
	if job.Em.W == nil || job.Em.LoadErr != nil || job.Em.GenErr != nil {
		return
	}
	for _, f := range job.Em.W.Functions() {
		name := relName(f)
		if !sel(name) {
			continue
		}
		f := f
		e := job.enc(f)
		var replay func(fl *Failure)
		if job.RF != nil {
			if _, ok := job.RF.Nodes[f]; ok {
				replay = func(fl *Failure) { job.RF.ReplayRoute(fl, f) }
			}
		}
		if job.PF != nil {
			if _, ok := job.PF.Fns[f]; ok {
				replay = func(fl *Failure) { job.PF.ReplayParams(cr, job, fl, f) }
			}
		}
		cr.verifyTagged(e, job.Em.Entry.Name, replay)
	}
	if job.RF != nil {
		for _, p := range job.RF.Problems {
			cr.Note("%s: %s", job.Em.Entry.Name, p)
		}
	}
}

func (cr *CheckRun) verifyTagged(e *FuncEnc, entry string, replay func(fl *Failure)) {
	// Encode happens inside VerifyFunc; tagging needs the obligations, so wrap.
	e.PostEncode = func() { tagProps(e, "C14") }
	cr.VerifyFunc(e, entry, nil, replay)
}

// RunEntries prepares and verifies corpus entries in parallel.
func (cr *CheckRun) RunEntries(bin string, entries []CorpusEntry, expectGenError bool, sel func(name string) bool, after func(job *EmittedJob)) {
	par := 6
	if s := os.Getenv("GOAGVC_PAR"); s != "" {
		fmt.Sscanf(s, "%d", &par)
	}
	sem := make(chan struct{}, par)
	var wg sync.WaitGroup
	for _, ce := range entries {
		ce := ce
		if only := os.Getenv("GOAGVC_ONLY"); only != "" && !strings.Contains(ce.Name, only) {
			continue
		}
		wg.Add(1)
		sem <- struct{}{}
		go func() {
			defer wg.Done()
			defer func() { <-sem }()
			defer func() {
				if r := recover(); r != nil {
					cr.mu.Lock()
					cr.EngineErrors = append(cr.EngineErrors, fmt.Sprintf("%s: engine panic: %v", ce.Name, r))
					cr.mu.Unlock()
				}
			}()
			job := cr.PrepareEmitted(bin, ce, expectGenError)
			cr.VerifyEmittedFuncs(job, sel)
			if after != nil {
				after(job)
			}
			// free the package directory early
			os.RemoveAll(job.Em.Dir)
		}()
	}
	wg.Wait()
}

func routingSel(name string) bool {
	if name == "splitPath" || strings.HasPrefix(name, "(*API).route") || name == "(*API).ServeHTTP" || name == "SpecFileHandler$1" {
		return true
	}
	// the security wrapper and the authenticators (C11)
	return strings.HasPrefix(name, "authMiddlewareOr") || name == "middlewares" || name == "(MiddlewareFunc).Middleware" || (strings.HasPrefix(name, "(Security") && strings.HasSuffix(name, ".Auth"))
}

// CheckRoutingFamily is shared by C03, C11 (route part), C16, C17 and the
// serving half of C13: the same functions are verified, the obligations that
// carry the property of this run are the ones counted.
func (cr *CheckRun) CheckRoutingFamily(entries []CorpusEntry) {
	bin, err := BuildGoag(cr.Repo, cr.Scratch)
	if err != nil {
		cr.EngineErrors = append(cr.EngineErrors, err.Error())
		return
	}
	cr.RunEntries(bin, entries, false, routingSel, nil)
}

// CheckCorpusCompiles: bounded stand-in for the type-check half of C01 (never
// counted as proved): every corpus entry that generates with exit 0 must load.
func (cr *CheckRun) CheckCorpusCompiles(corpusDir string) {
	bin, err := BuildGoag(cr.Repo, cr.Scratch)
	if err != nil {
		cr.EngineErrors = append(cr.EngineErrors, err.Error())
		return
	}
	var entries []CorpusEntry
	entries = append(entries, RouteCorpus(corpusDir, cr.Tier, cr.Seed)...)
	entries = append(entries, SecurityCorpus(corpusDir, cr.Tier)...)
	entries = append(entries, CorsCorpus(corpusDir, cr.Tier)...)
	entries = append(entries, BaseFormCorpus(corpusDir)...)
	entries = append(entries, FixtureCorpus(cr.Repo)...)
	entries = append(entries, ParamCorpus(corpusDir)...)
	entries = append(entries, ResponseCorpus(corpusDir)...)
	entries = append(entries, JSONCorpus(cr.VerifDir)...)
	entries = append(entries, FindingsCorpus(cr.VerifDir)...)
	type res struct {
		name string
		gen  error
		load error
	}
	out := make([]res, len(entries))
	sem := make(chan struct{}, 8)
	var wg sync.WaitGroup
	for i, ce := range entries {
		i, ce := i, ce
		wg.Add(1)
		sem <- struct{}{}
		go func() {
			defer wg.Done()
			defer func() { <-sem }()
			em := Generate(bin, ce, filepath.Join(cr.Scratch, "c01pkgs"))
			out[i].name, out[i].gen = ce.Name, em.GenErr
			if em.GenErr == nil {
				if os.Getenv("GOAGVC_RECORD_EMITTED") != "" {
					recordEmittedNames(em.Dir)
				}
				b := exec.Command("go", "build", "./...")
				b.Dir = em.Dir
				b.Env = append(os.Environ(), goEnv...)
				if o, err := b.CombinedOutput(); err != nil {
					out[i].load = fmt.Errorf("%s", truncate(string(o), 400))
				}
			}
			os.RemoveAll(em.Dir)
		}()
	}
	wg.Wait()
	ok, generr, bad := 0, 0, 0
	var bads []map[string]any
	for _, r := range out {
		switch {
		case r.gen != nil:
			generr++
		case r.load != nil:
			bad++
			if needsUserCode(r.load.Error()) {
				bad--
				generr++
				continue
			}
			bads = append(bads, map[string]any{"entry": r.name, "error": r.load.Error()})
			o := &Obligation{Name: "emitted[" + r.name + "]/typecheck", Func: "emitted[" + r.name + "]", Class: "bounded", Props: []string{"C01"}, Status: "failed", Formula: "go build of the generated package", Model: r.load.Error()}
			f := &Failure{Prop: "C01", Obl: o, Entry: r.name, Replay: &ReplayResult{Reproduced: true, Input: "corpus entry " + r.name, Expected: "package type-checks", Observed: truncate(r.load.Error(), 300), Cmd: "goag; go build ./..."}}
			cr.triageBounded(f)
		default:
			ok++
		}
	}
	cr.Bounded = append(cr.Bounded, map[string]any{"what": "type-check of generated corpus packages (bounded, not proved)", "entries": len(entries), "compiled": ok, "generation_errors_or_user_code": generr, "failed": bads})
}


func needsUserCode(msg string) bool {
	return strings.Contains(msg, "is not in std") || strings.Contains(msg, "cannot find module") || strings.Contains(msg, "no required module provides") || strings.Contains(msg, "could not import")
}

// triageBounded: bounded-part failures are matched against known findings by name only.
func (cr *CheckRun) triageBounded(f *Failure) {
	for _, kf := range cr.Known {
		if kf.Prop != cr.Prop {
			continue
		}
		if re, err := regexp.Compile(kf.Pattern); err == nil && re.MatchString(f.Obl.Name) {
			f.Known, f.Verdict = kf, "known"
			cr.KnownHits[kf.Line] = append(cr.KnownHits[kf.Line], f.Obl.Name)
			cr.Failures = append(cr.Failures, f)
			return
		}
	}
	f.Verdict = "violation"
	cr.Failures = append(cr.Failures, f)
}

func serverSideSel(name string) bool {
	if strings.Contains(name, "Client") || strings.HasPrefix(name, "init") {
		return false
	}
	return true
}

// CheckEmittedSafety: C14 over the corpus.
func (cr *CheckRun) CheckEmittedSafety(entries []CorpusEntry) {
	bin, err := BuildGoag(cr.Repo, cr.Scratch)
	if err != nil {
		cr.EngineErrors = append(cr.EngineErrors, err.Error())
		return
	}
	cr.RunEntries(bin, entries, false, serverSideSel, nil)
}

// CheckParams: C04 / C05 over the corpus.
func (cr *CheckRun) CheckParams(entries []CorpusEntry) {
	bin, err := BuildGoag(cr.Repo, cr.Scratch)
	if err != nil {
		cr.EngineErrors = append(cr.EngineErrors, err.Error())
		return
	}
	// lemma used by the path-parameter reference (proved here, assumed there)
	cr.Obligations++
	if r := Solve(SegatLemmaScript(), cr.Scratch, "lemma-segat-index", 20); r.Status == "unsat" {
		cr.Discharged++
		cr.ProvedNames = append(cr.ProvedNames, "lemma#segat-index")
		cr.Samples = append(cr.Samples, map[string]any{"obligation": "lemma#segat-index", "status": "proved", "solver": r.Solver, "what": "segat(s,i) == (Index(s[i+1:], \"/\") == -1 ? len(s) : i+1+Index(s[i+1:], \"/\"))"})
	} else {
		o := &Obligation{Name: "lemma#segat-index", Func: "spec", Class: "lemma", Props: []string{cr.Prop}, Status: "failed", Formula: "segat/Index lemma", Model: r.Output}
		cr.Failures = append(cr.Failures, &Failure{Prop: cr.Prop, Obl: o, Entry: "spec", Verdict: "violation"})
	}
	cr.RunEntries(bin, entries, false, func(name string) bool {
		return strings.HasPrefix(name, "new") && strings.HasSuffix(name, "Params")
	}, nil)
}

// CheckResponses: C02 over the corpus.
func (cr *CheckRun) CheckResponses(entries []CorpusEntry) {
	bin, err := BuildGoag(cr.Repo, cr.Scratch)
	if err != nil {
		cr.EngineErrors = append(cr.EngineErrors, err.Error())
		return
	}
	cr.RunEntries(bin, entries, false, func(name string) bool { return name == "writeJSON" }, func(job *EmittedJob) { cr.CheckWrites(job) })
}

// CheckClients: C10 over the corpus.
func (cr *CheckRun) CheckClients(entries []CorpusEntry) {
	bin, err := BuildGoag(cr.Repo, cr.Scratch)
	if err != nil {
		cr.EngineErrors = append(cr.EngineErrors, err.Error())
		return
	}
	cr.RunEntries(bin, entries, false, func(name string) bool { return false }, func(job *EmittedJob) { cr.CheckClient(job) })
}

// CheckTwins: C18.
func (cr *CheckRun) CheckTwins(entries []CorpusEntry, corpusDir string) {
	bin, err := BuildGoag(cr.Repo, cr.Scratch)
	if err != nil {
		cr.EngineErrors = append(cr.EngineErrors, err.Error())
		return
	}
	cr.Assumed["the observables compared are those the Layer E contracts determine: routing, security wrapper, middleware/CORS behaviour, parameter acceptance and values, status/headers/body operations of Write, client request assembly and response kinds; JSON shape (C06-C08) is not covered"] = true
	type pair struct{ a, b CorpusEntry }
	var pairs []pair
	for _, ce := range entries {
		tw, err := TwinEntry(ce, filepath.Join(corpusDir, "twins"))
		if err != nil || tw == nil {
			continue
		}
		pairs = append(pairs, pair{ce, *tw})
	}
	props := map[string]bool{"C02": true, "C03": true, "C04": true, "C05": true, "C09": true, "C10": true, "C11": true, "C16": true, "C17": true}
	sel := func(name string) bool {
		return routingSel(name) || (strings.HasPrefix(name, "new") && strings.HasSuffix(name, "Params"))
	}
	type outcome struct {
		gen, load error
		failed    map[string]bool
		total     int
		ref       *RefSpec
	}
	run := func(ce CorpusEntry) outcome {
		sub, _ := NewCheckRun("C18", cr.Tier, cr.Seed, cr.Repo, cr.VerifDir)
		defer sub.Cleanup()
		sub.Known = nil
		job := sub.PrepareEmitted(bin, ce, false)
		o := outcome{gen: job.Em.GenErr, load: job.Em.LoadErr, failed: map[string]bool{}, ref: job.Em.Ref}
		if o.gen != nil || o.load != nil {
			return o
		}
		filter := func(ob *Obligation) bool {
			for _, p := range ob.Props {
				if props[p] {
					return true
				}
			}
			return false
		}
		for _, f := range job.Em.W.Functions() {
			if !sel(relName(f)) {
				continue
			}
			e := job.enc(f)
			e.PostEncode = func() { tagProps(e, "C14") }
			sub.VerifyFunc(e, ce.Name, filter, nil)
		}
		sub.CheckTimeCodecs(job)
		sub.Prop = "C02"
		sub.CheckWrites(job)
		sub.Prop = "C10"
		sub.CheckClient(job)
		sub.Prop = "C09"
		sub.CheckClient(job)
		strip := func(n string) string {
			n = strings.ReplaceAll(n, "emitted["+ce.Name+"]", "emitted")
			return n
		}
		for _, f := range sub.Failures {
			o.failed[strip(f.Obl.Name)] = true
		}
		o.total = sub.Obligations
		cr.mu.Lock()
		for k := range sub.Functions {
			cr.Functions[k] = true
		}
		for k := range sub.Assumed {
			cr.Assumed[k] = true
		}
		cr.mu.Unlock()
		os.RemoveAll(job.Em.Dir)
		return o
	}
	sem := make(chan struct{}, 4)
	done := make(chan struct{}, len(pairs))
	for _, p := range pairs {
		p := p
		sem <- struct{}{}
		go func() {
			defer func() { <-sem; done <- struct{}{} }()
			a, b := run(p.a), run(p.b)
			name := "twin[" + p.a.Name + "]"
			cr.mu.Lock()
			cr.Programs = append(cr.Programs, p.a.Name, p.b.Name)
			cr.mu.Unlock()
			if (a.load != nil && needsUserCode(a.load.Error())) || (b.load != nil && needsUserCode(b.load.Error())) {
				// the fixture needs hand-written code next to the generated one: not a twin candidate
				cr.mu.Lock()
				cr.SkippedProgs = append(cr.SkippedProgs, p.a.Name+": needs user code, twin comparison skipped")
				cr.mu.Unlock()
				return
			}
			okGen := (a.gen == nil) == (b.gen == nil) && (a.load == nil) == (b.load == nil)
			detail := ""
			if !okGen {
				detail = fmt.Sprintf("$ref form: gen=%v load=%v; inlined form: gen=%v load=%v", a.gen, a.load, b.gen, b.load)
			}
			cr.recordSimple(name+"/both-generate", okGen, detail, "generator + go/packages")
			if a.gen != nil || b.gen != nil || a.load != nil || b.load != nil {
				return
			}
			cr.recordSimple(name+"/same-contract-instance", sameSignature(a.ref, b.ref), "the reference readings of the two forms differ", "structural comparison")
			// obligations failing in exactly one form
			var only []string
			for k := range a.failed {
				if !b.failed[k] {
					only = append(only, "$ref form only: "+k)
				}
			}
			for k := range b.failed {
				if !a.failed[k] {
					only = append(only, "inlined form only: "+k)
				}
			}
			sort.Strings(only)
			cr.mu.Lock()
			cr.Extra["obligations_in_"+p.a.Name] = a.total
			cr.Extra["obligations_in_"+p.b.Name] = b.total
			cr.mu.Unlock()
			cr.recordSimple(name+"/same-verdicts", len(only) == 0, strings.Join(only, "; "), fmt.Sprintf("z3 (%d + %d obligations of the Layer E contracts)", a.total, b.total))
			both := 0
			for k := range a.failed {
				if b.failed[k] {
					both++
				}
			}
			if both > 0 {
				cr.Note("%s: %d obligations fail in both forms (not a $ref difference; see the property they belong to)", p.a.Name, both)
			}
		}()
	}
	for range pairs {
		<-done
	}
}
