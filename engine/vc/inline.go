package vc

import (
	"fmt"
	"go/token"

	"golang.org/x/tools/go/ssa"
)

// Lexically nested closures are verified as part of the function that declares
// them: a call of a closure whose control flow graph is acyclic is unfolded in
// place (the closure's blocks are encoded with their own reach/edge variables,
// the states at its returns are merged). The closure body is real code of the
// enclosing function; its obligations become obligations of that function.

type inlineFrame struct {
	fn     *ssa.Function
	entry  *ssa.BasicBlock
	reach0 string
	rets   []inlineRet
	site   ssa.Instruction // outermost call site (in the root function)
	argVals []ssa.Value
}

type inlineRet struct {
	reach   string
	st      *state
	results []string
}

func dagInlinable(f *ssa.Function) bool {
	if f == nil || len(f.Blocks) == 0 || f.Recover != nil || len(f.Blocks) > 40 {
		return false
	}
	for _, b := range f.Blocks {
		for _, s := range b.Succs {
			if s.Dominates(b) {
				return false // loop
			}
		}
		for _, in := range b.Instrs {
			switch in.(type) {
			case *ssa.Defer, *ssa.Go, *ssa.RunDefers, *ssa.Select:
				return false
			}
		}
	}
	return true
}

// resolveClosure: the closure a func-typed value denotes, when that is fixed
// syntactically (a closure literal, or a load of a single-assignment local
// variable cell that holds one).
func (e *FuncEnc) resolveClosure(v ssa.Value, depth int) *ssa.MakeClosure {
	if depth > 4 {
		return nil
	}
	switch x := v.(type) {
	case *ssa.MakeClosure:
		return x
	case *ssa.UnOp:
		if x.Op != token.MUL {
			return nil
		}
		if el := e.sliceLitElem(x); el != nil {
			return e.resolveClosure(el, depth+1)
		}
		var al *ssa.Alloc
		switch c := x.X.(type) {
		case *ssa.Alloc:
			al = c
		case *ssa.FreeVar:
			b := e.fvBind[c]
			for i := 0; i < 4; i++ {
				if fv, ok := b.(*ssa.FreeVar); ok {
					b = e.fvBind[fv]
				}
			}
			al, _ = b.(*ssa.Alloc)
		}
		if al == nil {
			return nil
		}
		st, ok := stableCell(al)
		if !ok {
			return nil
		}
		// the store must have happened: it dominates the (outermost) call site
		site := ssa.Instruction(x)
		if len(e.inlineStack) > 0 {
			site = e.inlineStack[0].site
		}
		if site.Block().Parent() != st.Block().Parent() && e.selfClosure != nil {
			// verified on its own: the closure exists only after its literal
			site = e.selfClosure
		}
		if site.Block().Parent() != st.Block().Parent() {
			return nil
		}
		if !(st.Block().Dominates(site.Block()) && (st.Block() != site.Block() || instrIndex(st) < instrIndex(site))) {
			return nil
		}
		return e.resolveClosure(st.Val, depth+1)
	}
	return nil
}

// inlineDAG unfolds a call of closure f at the current program point.
func (e *FuncEnc) inlineDAG(in ssa.Instruction, f *ssa.Function, bindings []ssa.Value, argVals []ssa.Value, args []string, res ssa.Value) {
	fr := &inlineFrame{fn: f, entry: f.Blocks[0], reach0: e.curReach, site: in, argVals: argVals}
	if len(e.inlineStack) > 0 {
		fr.site = e.inlineStack[0].site
	}
	// save the caller's CFG bookkeeping
	sReach, sEdge, sExit := e.reach, e.edge, e.exit
	sBack, sLoops, sLoopOrd := e.backEdge, e.loops, e.loopOrd
	sBlock, sCurReach := e.curBlock, e.curReach
	sPrivate := e.private
	e.reach, e.edge, e.exit = map[*ssa.BasicBlock]string{}, map[[2]int]string{}, map[*ssa.BasicBlock]*state{}
	e.backEdge, e.loops, e.loopOrd = map[[2]int]bool{}, map[*ssa.BasicBlock]*loopInfo{}, map[*ssa.BasicBlock]int{}
	e.private = map[*ssa.Alloc]bool{}
	e.inlineStack = append(e.inlineStack, fr)
	e.inlineDepth++

	for i, p := range f.Params {
		if i < len(args) {
			e.val[p] = args[i]
		}
	}
	for i, fv := range f.FreeVars {
		if i < len(bindings) {
			e.val[fv] = e.v(bindings[i])
			e.fvBind[fv] = bindings[i]
		}
	}
	// topological order
	visited := map[*ssa.BasicBlock]bool{}
	var post []*ssa.BasicBlock
	var dfs func(b *ssa.BasicBlock)
	dfs = func(b *ssa.BasicBlock) {
		visited[b] = true
		for _, s := range b.Succs {
			if !visited[s] {
				dfs(s)
			}
		}
		post = append(post, b)
	}
	dfs(f.Blocks[0])
	for i := len(post) - 1; i >= 0; i-- {
		e.encodeBlock(post[i])
	}

	e.inlineDepth--
	e.inlineStack = e.inlineStack[:len(e.inlineStack)-1]
	e.reach, e.edge, e.exit = sReach, sEdge, sExit
	e.backEdge, e.loops, e.loopOrd = sBack, sLoops, sLoopOrd
	e.private = sPrivate
	e.curBlock = sBlock

	// merge the states at the returns
	switch len(fr.rets) {
	case 0:
		// never returns (panics on every path)
		e.curReach = "false"
		e.cur = e.cur.clone()
		return
	case 1:
		e.cur = fr.rets[0].st
		e.curReach = sCurReach
		if len(fr.rets[0].results) > 0 {
			e.setResult(res, fr.rets[0].results)
		}
		if fr.rets[0].reach != sCurReach {
			e.curReach = e.define("inl_reach", "Bool", fr.rets[0].reach)
		}
		return
	}
	out := &state{heaps: map[string]string{}}
	same := true
	for _, r := range fr.rets[1:] {
		if r.st.epoch != fr.rets[0].st.epoch {
			same = false
		}
	}
	if same {
		out.epoch = fr.rets[0].st.epoch
	} else {
		e.epochs++
		out.epoch = e.epochs
	}
	keys := map[string]bool{}
	for _, r := range fr.rets {
		for k := range r.st.heaps {
			keys[k] = true
		}
	}
	if !same {
		for k := range e.heapSorts {
			keys[k] = true
		}
	}
	for _, k := range sortedKeys(keys) {
		srt, ok := e.heapSorts[k]
		if !ok {
			continue
		}
		var names []string
		allSame := true
		for _, r := range fr.rets {
			n := e.heapName(r.st, k, srt)
			names = append(names, n)
			if n != names[0] {
				allSame = false
			}
		}
		if allSame {
			out.heaps[k] = names[0]
			continue
		}
		expr := names[len(names)-1]
		for i := len(names) - 2; i >= 0; i-- {
			expr = ite(fr.rets[i].reach, names[i], expr)
		}
		out.heaps[k] = e.define(k, srt, expr)
	}
	var conds, trs []string
	for _, r := range fr.rets {
		conds = append(conds, r.reach)
		trs = append(trs, r.st.trace)
	}
	out.trace = e.mergeTraces(conds, trs)
	e.cur = out
	var rs []string
	for _, r := range fr.rets {
		rs = append(rs, r.reach)
	}
	e.curReach = e.define("inl_reach", "Bool", or(rs...))
	if n := len(fr.rets[0].results); n > 0 {
		var merged []string
		sig := f.Signature
		for j := 0; j < n; j++ {
			expr := fr.rets[len(fr.rets)-1].results[j]
			for i := len(fr.rets) - 2; i >= 0; i-- {
				expr = ite(fr.rets[i].reach, fr.rets[i].results[j], expr)
			}
			merged = append(merged, e.define(fmt.Sprintf("inl_r%d", j), e.D.SortOf(sig.Results().At(j).Type()), expr))
		}
		e.setResult(res, merged)
	}
}

// ---------------------------------------------------------------- confinement
//
// A local variable cell that is captured by closures is still private to the
// activation when neither its address nor any closure that binds it can leave:
// the closures are only called (directly or through single local cells that
// are themselves confined), never passed, stored elsewhere or returned.

type confiner struct {
	seenAddr map[ssa.Value]bool
	seenVal  map[ssa.Value]bool
}

func confinedAlloc(a *ssa.Alloc) bool {
	c := &confiner{seenAddr: map[ssa.Value]bool{}, seenVal: map[ssa.Value]bool{}}
	return c.addr(a, 0)
}

// aliases of an address through closure bindings: the value itself and the
// free variables it is bound to.
func (c *confiner) addr(v ssa.Value, depth int) bool {
	if depth > 8 {
		return false
	}
	if c.seenAddr[v] {
		return true
	}
	c.seenAddr[v] = true
	refs := v.Referrers()
	if refs == nil {
		return false
	}
	for _, r := range *refs {
		switch u := r.(type) {
		case *ssa.DebugRef:
		case *ssa.UnOp:
			if u.Op != token.MUL {
				return false
			}
		case *ssa.Store:
			if u.Val == v {
				return false
			}
		case *ssa.FieldAddr:
			if !c.addr(u, depth+1) {
				return false
			}
		case *ssa.MakeClosure:
			if !c.val(u, depth+1) {
				return false
			}
			fn := u.Fn.(*ssa.Function)
			for j, b := range u.Bindings {
				if b == v && j < len(fn.FreeVars) {
					if !c.addr(fn.FreeVars[j], depth+1) {
						return false
					}
				}
			}
		default:
			return false
		}
	}
	return true
}

// val: a closure value that is only ever called, or parked in confined cells
// whose loads are only ever called.
func (c *confiner) val(v ssa.Value, depth int) bool {
	if depth > 8 {
		return false
	}
	if c.seenVal[v] {
		return true
	}
	c.seenVal[v] = true
	refs := v.Referrers()
	if refs == nil {
		return false
	}
	for _, r := range *refs {
		switch u := r.(type) {
		case *ssa.DebugRef:
		case *ssa.Call:
			if u.Call.Value != v {
				return false
			}
			for _, a := range u.Call.Args {
				if a == v {
					return false
				}
			}
		case *ssa.Store:
			if u.Val != v {
				continue
			}
			if !c.cell(u.Addr, depth+1) {
				return false
			}
		default:
			return false
		}
	}
	return true
}

// cell: the address is a confined local cell and every value loaded from it
// (through any alias) is confined as a value.
func (c *confiner) cell(addr ssa.Value, depth int) bool {
	switch addr.(type) {
	case *ssa.Alloc, *ssa.FreeVar:
	default:
		return false
	}
	if !c.addr(addr, depth+1) {
		return false
	}
	ok := true
	var visit func(v ssa.Value, d int)
	visit = func(v ssa.Value, d int) {
		if d > 6 || v.Referrers() == nil {
			return
		}
		for _, r := range *v.Referrers() {
			switch u := r.(type) {
			case *ssa.UnOp:
				if u.Op == token.MUL && !c.val(u, depth+1) {
					ok = false
				}
			case *ssa.MakeClosure:
				fn := u.Fn.(*ssa.Function)
				for j, b := range u.Bindings {
					if b == v && j < len(fn.FreeVars) {
						visit(fn.FreeVars[j], d+1)
					}
				}
			}
		}
	}
	// start from the root allocation when addr is a free variable: its other
	// aliases are reached from the alloc; approximate by visiting addr itself
	// and, for free variables, the binding chain upwards
	visit(addr, 0)
	if fv, isFV := addr.(*ssa.FreeVar); isFV {
		if p := fv.Parent().Parent(); p != nil {
			for _, b := range p.Blocks {
				for _, in := range b.Instrs {
					if mc, ok2 := in.(*ssa.MakeClosure); ok2 && mc.Fn == fv.Parent() {
						for j, x := range fv.Parent().FreeVars {
							if x == fv && j < len(mc.Bindings) {
								visit(mc.Bindings[j], 0)
							}
						}
					}
				}
			}
		}
	}
	return ok
}

// capturedAllocs: the variable cells a closure (and the closures parked in
// cells it captures) can reach.
func capturedAllocs(bindings []ssa.Value) map[*ssa.Alloc]bool {
	out := map[*ssa.Alloc]bool{}
	var visit func(v ssa.Value, d int)
	visit = func(v ssa.Value, d int) {
		al, ok := v.(*ssa.Alloc)
		if !ok || out[al] || d > 4 {
			return
		}
		out[al] = true
		if st, ok := stableCell(al); ok {
			if mc, ok := st.Val.(*ssa.MakeClosure); ok {
				for _, b := range mc.Bindings {
					visit(b, d+1)
				}
			}
		}
	}
	for _, b := range bindings {
		visit(b, 0)
	}
	return out
}

// closureWritten: the local variable cells of `root` (a top-level function)
// that some closure declared in it stores to. A closure call can write no
// other captured cell.
func closureWritten(root *ssa.Function) map[*ssa.Alloc]bool {
	out := map[*ssa.Alloc]bool{}
	var allocOf func(v ssa.Value, d int) *ssa.Alloc
	allocOf = func(v ssa.Value, d int) *ssa.Alloc {
		if d > 8 {
			return nil
		}
		switch x := v.(type) {
		case *ssa.Alloc:
			return x
		case *ssa.FieldAddr:
			return allocOf(x.X, d+1)
		case *ssa.IndexAddr:
			return allocOf(x.X, d+1)
		case *ssa.FreeVar:
			g := x.Parent()
			p := g.Parent()
			if p == nil {
				return nil
			}
			idx := -1
			for i, fv := range g.FreeVars {
				if fv == x {
					idx = i
				}
			}
			for _, b := range p.Blocks {
				for _, in := range b.Instrs {
					if mc, ok := in.(*ssa.MakeClosure); ok && mc.Fn == g && idx >= 0 && idx < len(mc.Bindings) {
						return allocOf(mc.Bindings[idx], d+1)
					}
				}
			}
		}
		return nil
	}
	var visit func(f *ssa.Function)
	visit = func(f *ssa.Function) {
		for _, g := range f.AnonFuncs {
			for _, b := range g.Blocks {
				for _, in := range b.Instrs {
					if st, ok := in.(*ssa.Store); ok {
						if a := allocOf(st.Addr, 0); a != nil && a.Parent() != g {
							out[a] = true
						}
					}
				}
			}
			visit(g)
		}
	}
	visit(root)
	return out
}

func (e *FuncEnc) closureWrittenSet() map[*ssa.Alloc]bool {
	if m, ok := e.Cache["closureWritten"].(map[*ssa.Alloc]bool); ok {
		return m
	}
	root := e.Fn
	for root.Parent() != nil {
		root = root.Parent()
	}
	m := closureWritten(root)
	e.Cache["closureWritten"] = m
	return m
}

// capturedWritten: the captured cells a call of the closure may write.
func (e *FuncEnc) capturedWritten(bindings []ssa.Value) map[*ssa.Alloc]bool {
	w := e.closureWrittenSet()
	out := map[*ssa.Alloc]bool{}
	for a := range capturedAllocs(bindings) {
		if w[a] {
			out[a] = true
		}
	}
	return out
}
