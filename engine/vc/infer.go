package vc

import (
	"fmt"
	"go/token"
	"go/types"
	"os"
	"path/filepath"
	"sort"
	"strings"
	"sync"

	"golang.org/x/tools/go/ssa"
)

// Thin safety contracts are inferred Houdini-style (ESC/Java): candidates
//
//	requires p != nil          for every pointer-like parameter that the function
//	                           uses without ever testing it against nil
//	ensures  err == nil ==> r != nil   for (pointer-like, error) results
//	ensures  r != nil                  for a single pointer-like result
//
// are verified together; a candidate `ensures` that fails in its function, or a
// candidate `requires` that fails at some call site, is dropped, until nothing
// changes. What survives is written to contracts_inferred_verif.go files in
// /repo and from then on simply *checked* on every run.

func pointerLike(t types.Type) bool {
	switch t.Underlying().(type) {
	case *types.Pointer, *types.Map, *types.Signature, *types.Interface:
		return true
	}
	return false
}

// LCFacts configures the assumed loader contract (DESIGN §7, LC) on a world.
func LCFacts(w *World) {
	// The campaign of engine/vc/props_g15.go showed that the loader hands out nil
	// map entries, nil Values and nil list entries for explicit `null`s, so
	// nothing is assumed about the nil-ness of the loaded document.
	if true {
		return
	}
	isOpenAPI := func(t types.Type) bool {
		if p, ok := t.Underlying().(*types.Pointer); ok {
			t = p.Elem()
		}
		n, ok := t.(*types.Named)
		return ok && n.Obj().Pkg() != nil && strings.HasSuffix(n.Obj().Pkg().Path(), "kin-openapi/openapi3")
	}
	w.FieldFact = func(e *FuncEnc, st types.Type, field int, base, val string) string {
		n, ok := st.(*types.Named)
		if !ok || !isOpenAPI(n) {
			return ""
		}
		f := st.Underlying().(*types.Struct).Field(field)
		if strings.HasSuffix(n.Obj().Name(), "Ref") && f.Name() == "Value" {
			e.Assumed["LC: a loaded openapi3.*Ref has a non-nil Value (no alias cycles)"] = true
			return not(eq(val, "0"))
		}
		return ""
	}
	w.MapValueFact = func(e *FuncEnc, declared types.Type, val, has string) string {
		mt, ok := declared.Underlying().(*types.Map)
		if !ok {
			return ""
		}
		if _, ok := mt.Elem().Underlying().(*types.Pointer); ok && isOpenAPI(mt.Elem()) {
			e.Assumed["LC: entries of openapi3 maps are non-nil"] = true
			return implies(has, not(eq(val, "0")))
		}
		return ""
	}
	w.ElemFact = func(e *FuncEnc, elem types.Type, val string) string {
		if _, ok := elem.Underlying().(*types.Pointer); ok && isOpenAPI(elem) {
			e.Assumed["LC: entries of openapi3 lists are non-nil"] = true
			return not(eq(val, "0"))
		}
		return ""
	}
}

type candidate struct {
	fn     *ssa.Function
	kind   string // requires | ensures
	clause *Clause
}

func usesWithoutNilTest(f *ssa.Function, p *ssa.Parameter) bool {
	refs := p.Referrers()
	if refs == nil {
		return false
	}
	used := false
	for _, r := range *refs {
		switch x := r.(type) {
		case *ssa.BinOp:
			if (x.Op == token.EQL || x.Op == token.NEQ) && (isNilConst(x.X) || isNilConst(x.Y)) {
				return false
			}
		case *ssa.FieldAddr:
			if x.X == p {
				used = true
			}
		case *ssa.UnOp:
			if x.Op == token.MUL && x.X == p {
				used = true
			}
		case *ssa.MapUpdate:
			if x.Map == p {
				used = true
			}
		case ssa.CallInstruction:
			c := x.Common()
			if c.Value == p {
				used = true // invoke on / call of the parameter
			}
		case *ssa.IndexAddr:
			if x.X == p {
				used = true
			}
		}
	}
	return used
}

func isNilConst(v ssa.Value) bool {
	c, ok := v.(*ssa.Const)
	return ok && c.Value == nil
}

func origin(f *ssa.Function) *ssa.Function {
	if o := f.Origin(); o != nil {
		return o
	}
	return f
}

func contractHeader(f *ssa.Function) string {
	f = origin(f)
	var ps []string
	start := 0
	if f.Signature.Recv() != nil {
		start = 1
	}
	for _, p := range f.Params[start:] {
		ps = append(ps, p.Name()+" any")
	}
	var rs []string
	res := f.Signature.Results()
	for i := 0; i < res.Len(); i++ {
		rs = append(rs, fmt.Sprintf("r%d any", i))
	}
	name := f.String()
	// package-relative
	if f.Pkg != nil {
		pp := f.Pkg.Pkg.Path()
		name = strings.ReplaceAll(name, pp+".", "")
	}
	return fmt.Sprintf("%s(%s) (%s)", name, strings.Join(ps, ", "), strings.Join(rs, ", "))
}

// InferContracts runs the Houdini loop and returns the surviving clauses per function.
func InferContracts(rw *RepoWorld, scratch string, rounds int, log func(string)) map[*ssa.Function]*Contract {
	w := rw.W
	LCFacts(w)
	inferred := map[*ssa.Function]*Contract{}
	for _, f := range w.Functions() {
		if f.Origin() != nil || f.Parent() != nil {
			continue // contracts live on the generic origin; closures have none
		}
		if existing := w.ContractFor(f); existing != nil {
			continue // hand-written contract
		}
		c := &Contract{Name: f.String(), LoopInv: map[int][]*Clause{}, LoopDec: map[int]*Clause{}, Options: map[string]string{"inferred": "true"}}
		hdrParams, hdrResults := []string{}, []string{}
		start := 0
		if f.Signature.Recv() != nil {
			start = 1
		}
		for _, p := range f.Params[start:] {
			hdrParams = append(hdrParams, p.Name())
		}
		res := f.Signature.Results()
		for i := 0; i < res.Len(); i++ {
			hdrResults = append(hdrResults, fmt.Sprintf("r%d", i))
		}
		c.ParamNames, c.ResultNames = hdrParams, hdrResults
		for _, p := range f.Params {
			if pointerLike(p.Type()) && usesWithoutNilTest(f, p) && p.Name() != "_" {
				c.Requires = append(c.Requires, &Clause{Name: "requires:" + p.Name(), Text: p.Name() + " != nil"})
			}
		}
		switch {
		case res.Len() == 1 && pointerLike(res.At(0).Type()) && !isErrorType(res.At(0).Type()):
			c.Ensures = append(c.Ensures, &Clause{Name: "ensures:r0", Text: "r0 != nil"})
		case res.Len() >= 2 && isErrorType(res.At(res.Len()-1).Type()):
			for i := 0; i < res.Len()-1; i++ {
				if pointerLike(res.At(i).Type()) {
					c.Ensures = append(c.Ensures, &Clause{Name: fmt.Sprintf("ensures:r%d", i), Text: fmt.Sprintf("r%d == nil ==> r%d != nil", res.Len()-1, i)})
				}
			}
		}
		if len(c.Requires)+len(c.Ensures) > 0 {
			inferred[f] = c
			w.Contracts[f.String()] = c
		}
	}
	fns := w.Functions()
	for round := 0; round < rounds; round++ {
		dropped := 0
		var mu sync.Mutex
		dropReq := map[string]map[string]bool{} // contract name -> clause names
		dropEns := map[string]map[string]bool{}
		sem := make(chan struct{}, 12)
		var wg sync.WaitGroup
		for _, f := range fns {
			f := f
			wg.Add(1)
			sem <- struct{}{}
			go func() {
				defer wg.Done()
				defer func() { <-sem }()
				defer func() { recover() }()
				e := &FuncEnc{W: w, Fn: f, Name: f.String(), D: NewDecls(), Contract: w.ContractFor(f)}
				e.Encode()
				// only contract-related obligations matter for the loop
				var mine []*Obligation
				for _, o := range e.Obls {
					if o.Callee != "" || o.Class == "contract" {
						mine = append(mine, o)
					}
				}
				all := e.Obls
				e.Obls = mine
				e.Verify(scratch, 4)
				e.Obls = all
				mu.Lock()
				defer mu.Unlock()
				for _, o := range mine {
					if o.Status == "proved" {
						continue
					}
					if o.Callee != "" {
						if dropReq[o.Callee] == nil {
							dropReq[o.Callee] = map[string]bool{}
						}
						dropReq[o.Callee][o.Clause] = true
					} else if e.Contract != nil {
						if dropEns[e.Contract.Name] == nil {
							dropEns[e.Contract.Name] = map[string]bool{}
						}
						dropEns[e.Contract.Name][o.Clause] = true
					}
				}
			}()
		}
		wg.Wait()
		for _, c := range inferred {
			var keepR, keepE []*Clause
			for _, cl := range c.Requires {
				if dropReq[c.Name][cl.Name] {
					dropped++
					continue
				}
				keepR = append(keepR, cl)
			}
			for _, cl := range c.Ensures {
				if dropEns[c.Name][cl.Name] {
					dropped++
					continue
				}
				keepE = append(keepE, cl)
			}
			c.Requires, c.Ensures = keepR, keepE
		}
		log(fmt.Sprintf("round %d: dropped %d candidate clauses", round, dropped))
		if dropped == 0 {
			break
		}
	}
	return inferred
}

// WriteInferred writes the surviving clauses as comment-only contract files.
func WriteInferred(repo string, inferred map[*ssa.Function]*Contract) error {
	byDir := map[string][]*ssa.Function{}
	for f, c := range inferred {
		if len(c.Requires)+len(c.Ensures) == 0 || f.Pkg == nil {
			continue
		}
		rel := strings.TrimPrefix(strings.TrimPrefix(f.Pkg.Pkg.Path(), repoPkg), "/")
		byDir[rel] = append(byDir[rel], f)
	}
	for rel, fs := range byDir {
		sort.Slice(fs, func(i, j int) bool { return fs[i].String() < fs[j].String() })
		var b strings.Builder
		pkgName := fs[0].Pkg.Pkg.Name()
		fmt.Fprintf(&b, "//go:build verif\n\npackage %s\n\n", pkgName)
		b.WriteString("// Thin safety contracts inferred from the code and its call sites by\n// `goagvc infer` (Houdini-style: candidates that do not verify are dropped).\n// Comment-only file; every clause is re-checked on every run: `requires` at\n// every call site, `ensures` at every return of the function.\n\n")
		for _, f := range fs {
			c := inferred[f]
			fmt.Fprintf(&b, "//@ func %s\n//@   option props=C15\n//@   option inferred=true\n", contractHeader(f))
			for _, cl := range c.Requires {
				fmt.Fprintf(&b, "//@   requires %s\n", cl.Text)
			}
			for _, cl := range c.Ensures {
				fmt.Fprintf(&b, "//@   ensures %s\n", cl.Text)
			}
			b.WriteString("\n")
		}
		if err := os.WriteFile(filepath.Join(repo, rel, "contracts_inferred_verif.go"), []byte(strings.TrimRight(b.String(), "\n")+"\n"), 0o644); err != nil {
			return err
		}
	}
	return nil
}
