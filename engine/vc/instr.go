package vc

import (
	"fmt"
	"go/token"
	"go/types"
	"strings"

	"golang.org/x/tools/go/ssa"
)

func (e *FuncEnc) abstracted(in ssa.Instruction, why string) {
	e.Abstracted = append(e.Abstracted, fmt.Sprintf("%s: %s", why, in.String()))
	e.Imprecise = append(e.Imprecise, why+" is outside the modelled subset")
}

func (e *FuncEnc) setVal(v ssa.Value, sort, expr string) {
	e.val[v] = e.define(mangle(v.Name()), sort, expr)
}

func (e *FuncEnc) havocVal(v ssa.Value) {
	if tup, ok := v.Type().(*types.Tuple); ok {
		var xs []string
		for i := 0; i < tup.Len(); i++ {
			s := e.newSym(mangle(v.Name())+fmt.Sprintf("_%d", i), e.D.SortOf(tup.At(i).Type()))
			e.paramLikeFacts(s, tup.At(i).Type())
			xs = append(xs, s)
		}
		e.tuple[v] = xs
		return
	}
	s := e.newSym(mangle(v.Name()), e.D.SortOf(v.Type()))
	e.paramLikeFacts(s, v.Type())
	e.val[v] = s
}

func (e *FuncEnc) encodeInstr(in ssa.Instruction) {
	switch x := in.(type) {
	case *ssa.DebugRef:
	case *ssa.Alloc:
		e.encodeAlloc(x)
	case *ssa.FieldAddr:
		base := e.v(x.X)
		if !nonNilSyntactic(x.X) {
			e.safety("nil", e.describe(x.X)+"."+fieldName(x), not(eq(base, "0")), x.Pos())
		}
		st := x.X.Type().Underlying().(*types.Pointer).Elem()
		e.val[x] = "(" + e.D.FieldAddrFn(st, x.Field) + " " + base + ")"
	case *ssa.Field:
		e.setVal(x, e.D.SortOf(x.Type()), sx(e.D.FieldSelector(x.X.Type(), x.Field), e.v(x.X)))
	case *ssa.IndexAddr:
		e.encodeIndexAddr(x)
	case *ssa.Index:
		e.encodeIndex(x)
	case *ssa.Lookup:
		e.encodeLookup(x)
	case *ssa.UnOp:
		e.encodeUnOp(x)
	case *ssa.BinOp:
		e.encodeBinOp(x)
	case *ssa.Call:
		e.encodeCall(x, x.Common(), x, "true")
	case *ssa.ChangeType:
		e.val[x] = e.v(x.X)
	case *ssa.ChangeInterface:
		e.val[x] = e.v(x.X)
	case *ssa.Convert:
		e.encodeConvert(x)
	case *ssa.MakeInterface:
		tag := e.D.TypeTag(x.X.Type())
		box, _ := e.D.Box(x.X.Type())
		payload := e.v(x.X)
		if box != "" {
			payload = sx(box, payload)
		}
		e.setVal(x, "Iface", sx("mk_iface", itoa(int64(tag)), payload))
	case *ssa.TypeAssert:
		e.encodeTypeAssert(x)
	case *ssa.Extract:
		if tup, ok := e.tuple[x.Tuple]; ok && x.Index < len(tup) {
			e.val[x] = tup[x.Index]
		} else {
			e.havocVal(x)
		}
	case *ssa.MakeClosure:
		e.encodeMakeClosure(x)
	case *ssa.MakeMap:
		e.encodeMakeMap(x)
	case *ssa.MakeSlice:
		e.encodeMakeSlice(x)
	case *ssa.MakeChan:
		e.havocVal(x)
		e.abstracted(in, "channel")
	case *ssa.MapUpdate:
		e.encodeMapUpdate(x)
	case *ssa.Store:
		addr := e.v(x.Addr)
		if !nonNilSyntactic(x.Addr) {
			e.safety("nil", "store:"+e.describe(x.Addr), not(eq(addr, "0")), x.Pos())
		}
		e.checkSharedStore(x)
		e.store(e.cur, addr, x.Val.Type(), e.v(x.Val))
	case *ssa.Slice:
		e.encodeSlice(x)
	case *ssa.Range:
		e.val[x] = e.v(x.X) // iterator = the collection
		if mt, ok := x.X.Type().Underlying().(*types.Map); ok {
			// ghost: the set of keys this iteration has yielded so far
			key, srt := e.visitedKey(x, mt)
			e.setHeap(e.cur, key, srt, fmt.Sprintf("((as const %s) false)", srt))
		}
	case *ssa.Next:
		e.encodeNext(x)
	case *ssa.Defer:
		e.defers = append(e.defers, x)
		e.deferReach[x] = e.curReach
	case *ssa.RunDefers:
		for i := len(e.defers) - 1; i >= 0; i-- {
			d := e.defers[i]
			e.encodeCall(d, d.Common(), nil, e.deferReach[d])
		}
	case *ssa.Panic:
		e.oblige("panic", "", "false", x.Pos())
		e.exit[e.curBlock] = e.cur
	case *ssa.If:
		e.finishBlock(e.curBlock, e.v(x.Cond))
	case *ssa.Jump:
		e.finishBlock(e.curBlock, "true")
	case *ssa.Return:
		if n := len(e.inlineStack); n > 0 {
			var rs []string
			for _, r := range x.Results {
				rs = append(rs, e.v(r))
			}
			fr := e.inlineStack[n-1]
			fr.rets = append(fr.rets, inlineRet{reach: e.curReach, st: e.cur, results: rs})
			e.exit[e.curBlock] = e.cur
			return
		}
		e.encodeReturn(x)
		e.exit[e.curBlock] = e.cur
	case *ssa.Go, *ssa.Select, *ssa.Send:
		e.abstracted(in, "concurrency")
		if v, ok := in.(ssa.Value); ok {
			e.havocVal(v)
		}
		e.havocAll(e.cur)
	default:
		e.abstracted(in, "unsupported")
		if v, ok := in.(ssa.Value); ok {
			e.havocVal(v)
		}
	}
}

func isConstLike(v ssa.Value) bool {
	switch v.(type) {
	case *ssa.Const, *ssa.Function, *ssa.Global:
		return true
	}
	return false
}

func fieldName(x *ssa.FieldAddr) string {
	st := x.X.Type().Underlying().(*types.Pointer).Elem().Underlying().(*types.Struct)
	return st.Field(x.Field).Name()
}

// describe gives a stable, human-readable path for a value (used in
// obligation names so that they survive unrelated edits).
func (e *FuncEnc) describe(v ssa.Value) string {
	return e.describeDepth(v, 0)
}

func (e *FuncEnc) describeDepth(v ssa.Value, d int) string {
	if d > 4 {
		return "_"
	}
	switch x := v.(type) {
	case *ssa.Parameter:
		// inside an unfolded callee the parameter stands for the caller's argument
		if e != nil {
			for i := len(e.inlineStack) - 1; i >= 0; i-- {
				fr := e.inlineStack[i]
				if fr.fn != x.Parent() {
					continue
				}
				for j, p := range fr.fn.Params {
					if p == x && j < len(fr.argVals) && fr.argVals[j] != nil {
						return e.describeDepth(fr.argVals[j], d+1)
					}
				}
			}
		}
		return x.Name()
	case *ssa.FreeVar:
		return x.Name()
	case *ssa.Global:
		return x.Name()
	case *ssa.Alloc:
		if x.Comment != "" {
			return x.Comment
		}
		return "new"
	case *ssa.FieldAddr:
		return e.describeDepth(x.X, d+1) + "." + fieldName(x)
	case *ssa.Field:
		st := x.X.Type().Underlying().(*types.Struct)
		return e.describeDepth(x.X, d+1) + "." + st.Field(x.Field).Name()
	case *ssa.UnOp:
		if x.Op == token.MUL {
			return e.describeDepth(x.X, d+1)
		}
	case *ssa.IndexAddr:
		return e.describeDepth(x.X, d+1) + "[]"
	case *ssa.Index:
		return e.describeDepth(x.X, d+1) + "[]"
	case *ssa.Lookup:
		return e.describeDepth(x.X, d+1) + "[]"
	case *ssa.Extract:
		return e.describeDepth(x.Tuple, d+1) + fmt.Sprintf("#%d", x.Index)
	case *ssa.Call:
		if f := x.Call.StaticCallee(); f != nil {
			return f.Name() + "()"
		}
		if x.Call.IsInvoke() {
			return e.describeDepth(x.Call.Value, d+1) + "." + x.Call.Method.Name() + "()"
		}
		return e.describeDepth(x.Call.Value, d+1) + "()"
	case *ssa.Phi:
		if x.Comment != "" {
			return x.Comment
		}
	case *ssa.ChangeType:
		return e.describeDepth(x.X, d+1)
	case *ssa.ChangeInterface:
		return e.describeDepth(x.X, d+1)
	case *ssa.MakeInterface:
		return e.describeDepth(x.X, d+1)
	case *ssa.Slice:
		return e.describeDepth(x.X, d+1) + "[:]"
	case *ssa.TypeAssert:
		return e.describeDepth(x.X, d+1) + ".(T)"
	case *ssa.Next:
		return "next"
	case *ssa.Const:
		return "const"
	}
	return v.Name()
}

func (e *FuncEnc) encodeAlloc(x *ssa.Alloc) {
	e.allocIdx++
	s := e.newSym("alloc_"+mangle(x.Comment), "Int")
	e.assume("true", fmt.Sprintf("(and (> %s 0) (= (akind %s) 0) (= (atime %s) (+ T0 %d)))", s, s, s, e.allocIdx))
	e.val[x] = s
	// an allocation executed inside a loop is a new object: it differs from every
	// pointer / slice base carried around the loop (the static allocation times
	// alone do not say so for objects made in earlier iterations)
	if e.curBlock != nil {
		for _, li := range e.loopList() {
			h := li.header
			if !li.body[e.curBlock] {
				continue
			}
			for _, in := range h.Instrs {
				phi, ok := in.(*ssa.Phi)
				if !ok {
					break
				}
				pv, have := e.val[phi]
				if !have {
					continue
				}
				switch e.D.SortOf(phi.Type()) {
				case "Slice":
					e.assume("true", not(eq(sx("sl_base", pv), s)))
				case "Int":
					if _, isPtr := phi.Type().Underlying().(*types.Pointer); isPtr {
						e.assume("true", not(eq(pv, s)))
					}
				}
			}
		}
	}
	e.freshBufferFacts(x, s)
	t := x.Type().Underlying().(*types.Pointer).Elem()
	if e.private[x] {
		e.privateSyms[x] = s
		e.privateLeaves[x] = e.leaves(t, func(b string) string { return b }, 0)
	}
	// zero-initialise (arrays: left unconstrained except small ones)
	if at, ok := t.Underlying().(*types.Array); ok {
		if at.Len() <= 8 {
			for i := int64(0); i < at.Len(); i++ {
				e.store(e.cur, fmt.Sprintf("(elem %s %d)", s, i), at.Elem(), e.D.Zero(at.Elem()))
			}
		}
		return
	}
	e.store(e.cur, s, t, e.D.Zero(t))
}

func (e *FuncEnc) sliceParts(s string) (base, off, ln, cp string) {
	return sx("sl_base", s), sx("sl_off", s), sx("sl_len", s), sx("sl_cap", s)
}

func (e *FuncEnc) encodeIndexAddr(x *ssa.IndexAddr) {
	idx := e.v(x.Index)
	switch t := x.X.Type().Underlying().(type) {
	case *types.Slice:
		s := e.v(x.X)
		base, off, ln, _ := e.sliceParts(s)
		e.safety("index", e.describe(x.X), and(sx("<=", "0", idx), sx("<", idx, ln)), x.Pos())
		e.val[x] = e.define(mangle(x.Name()), "Int", sx("elem", base, sx("+", off, idx)))
	case *types.Pointer:
		at := t.Elem().Underlying().(*types.Array)
		p := e.v(x.X)
		if !nonNilSyntactic(x.X) {
			e.safety("nil", e.describe(x.X), not(eq(p, "0")), x.Pos())
		}
		e.safety("index", e.describe(x.X), and(sx("<=", "0", idx), sx("<", idx, itoa(at.Len()))), x.Pos())
		e.val[x] = e.define(mangle(x.Name()), "Int", sx("elem", p, idx))
	default:
		e.havocVal(x)
	}
}

func (e *FuncEnc) encodeIndex(x *ssa.Index) {
	idx := e.v(x.Index)
	switch t := x.X.Type().Underlying().(type) {
	case *types.Basic: // string
		s := e.v(x.X)
		e.safety("index", e.describe(x.X), and(sx("<=", "0", idx), sx("<", idx, sx("slen", s))), x.Pos())
		e.setVal(x, "Int", sx("sat", s, idx))
	case *types.Array:
		e.safety("index", e.describe(x.X), and(sx("<=", "0", idx), sx("<", idx, itoa(t.Len()))), x.Pos())
		e.setVal(x, e.D.SortOf(x.Type()), sx("select", e.v(x.X), idx))
	default:
		e.havocVal(x)
	}
}

func (e *FuncEnc) encodeLookup(x *ssa.Lookup) {
	switch t := x.X.Type().Underlying().(type) {
	case *types.Map:
		vk, hk, vs, hs, _, _ := e.mapKeys(t)
		m := e.v(x.X)
		k := e.v(x.Index)
		has := sx("select", sx("select", e.heapName(e.cur, hk, hs), m), k)
		val := sx("select", sx("select", e.heapName(e.cur, vk, vs), m), k)
		has = e.define("has", "Bool", and(not(eq(m, "0")), has))
		zero := e.D.Zero(t.Elem())
		val = e.define("mval", e.D.SortOf(t.Elem()), ite(has, val, zero))
		if _, isSl := t.Elem().Underlying().(*types.Slice); isSl {
			e.assume(e.curReach, e.sliceWF(val))
		}
		e.mapValueFacts(val, has, x.X.Type())
		if x.CommaOk {
			e.tuple[x] = []string{val, has}
		} else {
			e.val[x] = val
		}
	case *types.Basic: // string index via Lookup
		s := e.v(x.X)
		idx := e.v(x.Index)
		e.safety("index", e.describe(x.X), and(sx("<=", "0", idx), sx("<", idx, sx("slen", s))), x.Pos())
		e.setVal(x, "Int", sx("sat", s, idx))
	default:
		e.havocVal(x)
	}
}

// mapValueFacts applies assumed invariants about map values (e.g. url.Values
// entries are non-empty) from the world's configuration.
func (e *FuncEnc) mapValueFacts(val, has string, t types.Type) {
	if e.W != nil && e.W.MapValueFact != nil {
		if f := e.W.MapValueFact(e, t, val, has); f != "" {
			e.assume(e.curReach, f)
		}
	}
}

func (e *FuncEnc) encodeUnOp(x *ssa.UnOp) {
	switch x.Op {
	case token.MUL:
		if al, ok := x.X.(*ssa.Alloc); ok {
			if st, ok := stableCell(al); ok && st.Block().Dominates(x.Block()) && (st.Block() != x.Block() || instrIndex(st) < instrIndex(x)) {
				if _, have := e.val[st.Val]; have || isConstLike(st.Val) {
					e.val[x] = e.v(st.Val)
					return
				}
			}
		}
		if fv, ok := x.X.(*ssa.FreeVar); ok {
			if s, ok := e.stableFV[fv]; ok {
				e.val[x] = s
				return
			}
		}
		addr := e.v(x.X)
		if !nonNilSyntactic(x.X) {
			e.safety("nil", e.describe(x.X), not(eq(addr, "0")), x.Pos())
		}
		val := e.load(e.cur, addr, x.Type())
		e.setVal(x, e.D.SortOf(x.Type()), val)
		e.loadedFacts(x, e.val[x])
	case token.NOT:
		e.setVal(x, "Bool", not(e.v(x.X)))
	case token.SUB:
		if e.D.SortOf(x.Type()) == "Real" {
			e.setVal(x, "Real", sx("-", e.v(x.X)))
		} else {
			e.setVal(x, "Int", sx("-", e.v(x.X)))
		}
	case token.ARROW:
		e.abstracted(x, "channel receive")
		e.havocVal(x)
	default:
		e.havocVal(x)
	}
}

// loadedFacts: closed-heap invariant and configured field invariants.
func (e *FuncEnc) loadedFacts(x *ssa.UnOp, v string) {
	t := x.Type()
	switch t.Underlying().(type) {
	case *types.Pointer, *types.Map, *types.Signature:
		e.assume(e.curReach, fmt.Sprintf("(and (>= %s 0) (<= (atime %s) (+ T0 %d)))", v, v, e.allocIdx))
	case *types.Slice:
		e.assume(e.curReach, e.sliceWF(v))
		e.assume(e.curReach, fmt.Sprintf("(<= (atime (sl_base %s)) (+ T0 %d))", v, e.allocIdx))
	case *types.Basic:
		if b := t.Underlying().(*types.Basic); b.Info()&types.IsInteger != 0 {
			lo, hi := intBounds(b.Kind())
			e.assume(e.curReach, fmt.Sprintf("(and (<= %s %s) (<= %s %s))", lo, v, v, hi))
		}
	}
	if g, ok := x.X.(*ssa.Global); ok && e.W != nil && e.W.GlobalFact != nil {
		if f := e.W.GlobalFact(e, g, v); f != "" {
			e.assume(e.curReach, f)
		}
	}
	if ia, ok := x.X.(*ssa.IndexAddr); ok && e.W != nil && e.W.ElemFact != nil {
		_ = ia
		if f := e.W.ElemFact(e, t, v); f != "" {
			e.assume(e.curReach, f)
		}
	}
	if fa, ok := x.X.(*ssa.FieldAddr); ok && e.W != nil && e.W.FieldFact != nil {
		st := fa.X.Type().Underlying().(*types.Pointer).Elem()
		if f := e.W.FieldFact(e, st, fa.Field, e.v(fa.X), v); f != "" {
			e.assume(e.curReach, f)
		}
	}
}

func (e *FuncEnc) encodeBinOp(x *ssa.BinOp) {
	a, b := e.v(x.X), e.v(x.Y)
	srt := e.D.SortOf(x.X.Type())
	res := e.D.SortOf(x.Type())
	switch x.Op {
	case token.ADD:
		if srt == "Str" {
			e.setVal(x, "Str", sx("scat", a, b))
			return
		}
		e.setVal(x, res, sx("+", a, b))
		e.overflow(x)
	case token.SUB:
		e.setVal(x, res, sx("-", a, b))
		e.overflow(x)
	case token.MUL:
		e.setVal(x, res, sx("*", a, b))
		e.overflow(x)
	case token.QUO:
		if srt == "Int" {
			e.safety("div", "", not(eq(b, "0")), x.Pos())
			// Go truncates toward zero
			q := sx("ite", sx(">=", a, "0"), sx("div", a, sx("abs", b)), sx("-", sx("div", sx("-", a), sx("abs", b))))
			q = sx("ite", sx(">=", b, "0"), q, sx("-", q))
			e.setVal(x, "Int", q)
		} else {
			e.setVal(x, res, sx("/", a, b))
		}
	case token.REM:
		e.safety("div", "", not(eq(b, "0")), x.Pos())
		r := sx("ite", sx(">=", a, "0"), sx("mod", a, sx("abs", b)), sx("-", sx("mod", sx("-", a), sx("abs", b))))
		e.setVal(x, "Int", r)
	case token.EQL:
		e.setVal(x, "Bool", e.equal(a, b, x.X.Type()))
	case token.NEQ:
		e.setVal(x, "Bool", not(e.equal(a, b, x.X.Type())))
	case token.LSS, token.LEQ, token.GTR, token.GEQ:
		op := map[token.Token]string{token.LSS: "<", token.LEQ: "<=", token.GTR: ">", token.GEQ: ">="}[x.Op]
		if srt == "Str" {
			switch x.Op {
			case token.LSS:
				e.setVal(x, "Bool", sx("str_lt", a, b))
			case token.GTR:
				e.setVal(x, "Bool", sx("str_lt", b, a))
			case token.LEQ:
				e.setVal(x, "Bool", not(sx("str_lt", b, a)))
			case token.GEQ:
				e.setVal(x, "Bool", not(sx("str_lt", a, b)))
			}
			return
		}
		e.setVal(x, "Bool", sx(op, a, b))
	case token.LAND, token.LOR:
		// not produced by ssa (short-circuit becomes control flow)
		e.havocVal(x)
	default:
		// bit operations, shifts: uninterpreted per operator
		if srt == "Int" && res == "Int" {
			f := e.D.UF("bitop_"+mangle(x.Op.String()), []string{"Int", "Int"}, "Int")
			e.setVal(x, "Int", sx(f, a, b))
			e.Assumed["bit operations are uninterpreted functions"] = true
		} else {
			e.havocVal(x)
		}
	}
}

func (e *FuncEnc) overflow(x *ssa.BinOp) {
	b, ok := x.Type().Underlying().(*types.Basic)
	if !ok || b.Info()&types.IsInteger == 0 {
		return
	}
	if e.W != nil && !e.W.CheckOverflow {
		return
	}
	lo, hi := intBounds(b.Kind())
	v := e.val[x]
	e.safety("overflow", x.Op.String(), and(sx("<=", lo, v), sx("<=", v, hi)), x.Pos())
}

func (e *FuncEnc) equal(a, b string, t types.Type) string {
	switch t.Underlying().(type) {
	case *types.Interface:
		if b == "iface_nil" {
			return eq(sx("if_tag", a), "0")
		}
		if a == "iface_nil" {
			return eq(sx("if_tag", b), "0")
		}
	case *types.Slice:
		if b == "slice_nil" {
			return eq(sx("sl_base", a), "0")
		}
		if a == "slice_nil" {
			return eq(sx("sl_base", b), "0")
		}
	}
	return eq(a, b)
}

func (e *FuncEnc) encodeConvert(x *ssa.Convert) {
	from, to := x.X.Type().Underlying(), x.Type().Underlying()
	fs, ts := e.D.SortOf(from), e.D.SortOf(to)
	v := e.v(x.X)
	switch {
	case fs == ts && fs != "Slice":
		if fs == "Int" {
			if tb, ok := to.(*types.Basic); ok && tb.Info()&types.IsInteger != 0 {
				if fb, ok := from.(*types.Basic); ok && fb.Info()&types.IsInteger != 0 && narrower(tb, fb) {
					lo, hi := intBounds(tb.Kind())
					// Go wraps silently: treat as uninterpreted outside the range
					f := e.D.UF("wrap_"+tb.Name(), []string{"Int"}, "Int")
					e.setVal(x, "Int", ite(and(sx("<=", lo, v), sx("<=", v, hi)), v, sx(f, v)))
					e.intRange(e.val[x], x.Type())
					return
				}
			}
		}
		e.val[x] = v
	case fs == "Int" && ts == "Real":
		e.setVal(x, "Real", sx("to_real", v))
	case fs == "Real" && ts == "Int":
		e.setVal(x, "Int", sx("to_int", v))
	case fs == "Str" && ts == "Slice":
		// []byte(s): fresh slice with the same length
		f := e.D.UF("bytes_of_str", []string{"Str"}, "Slice")
		e.D.Axiom("bytes_of_str", "(forall ((s Str)) (! (and (= (sl_len (bytes_of_str s)) (slen s)) (= (sl_off (bytes_of_str s)) 0) (>= (sl_cap (bytes_of_str s)) (slen s)) (> (sl_base (bytes_of_str s)) 0)) :pattern ((bytes_of_str s))))")
		if e.D.seen["proj-prelude"] {
			e.D.Axiom("slice_text", "(forall ((s Str)) (! (= (slice_text (bytes_of_str s)) s) :pattern ((bytes_of_str s))))")
		}
		e.setVal(x, "Slice", sx(f, v))
		if _, used := e.heapSorts[fsKey]; used || (e.W != nil && len(e.W.FSWriters) > 0) {
			e.assume(e.curReach, eq(e.bcontent(e.val[x], e.cur), sx("strbytes", v)))
		}
	case fs == "Slice" && ts == "Str":
		f := e.D.UF("str_of_bytes", []string{"Slice", "Int"}, "Str")
		// content depends on the byte heap: pass an epoch marker so that two
		// conversions are equal only if nothing was written in between
		h := e.heapName(e.cur, e.D.heapKey(types.Typ[types.Uint8]), e.D.heapSort(types.Typ[types.Uint8]))
		hid := e.D.UF("heap_id_bytes", []string{"(Array Int Int)"}, "Int")
		e.setVal(x, "Str", sx(f, v, sx(hid, h)))
		e.assume(e.curReach, eq(sx("slen", e.val[x]), sx("sl_len", v)))
		if e.W != nil && e.W.JSONViews {
			// a raw message is the token null iff its text is "null"
			e.needUn()
			e.assume(e.curReach, eq(sx("docNull", sx("rawdoc", v)), and(eq(sx("sl_len", v), "4"), eq(e.val[x], e.D.Lit("null")))))
			e.Assumed["a raw message is the document null iff its text is the four bytes null (no surrounding white space)"] = true
		}
	case fs == "Int" && ts == "Str":
		f := e.D.UF("str_of_rune", []string{"Int"}, "Str")
		e.setVal(x, "Str", sx(f, v))
	default:
		e.havocVal(x)
	}
}

func narrower(to, from *types.Basic) bool {
	size := func(b *types.Basic) int {
		switch b.Kind() {
		case types.Int8, types.Uint8:
			return 8
		case types.Int16, types.Uint16:
			return 16
		case types.Int32, types.Uint32:
			return 32
		}
		return 64
	}
	unsigned := func(b *types.Basic) bool { return b.Info()&types.IsUnsigned != 0 }
	if size(to) < size(from) {
		return true
	}
	if unsigned(to) != unsigned(from) {
		return true
	}
	return false
}

func (e *FuncEnc) encodeTypeAssert(x *ssa.TypeAssert) {
	v := e.v(x.X)
	var ok, val string
	if _, isIface := x.AssertedType.Underlying().(*types.Interface); isIface {
		id := e.D.TypeTag(x.AssertedType)
		ok = and(not(eq(sx("if_tag", v), "0")), sx("implements", sx("if_tag", v), itoa(int64(1000+id))))
		val = v
	} else {
		tag := e.D.TypeTag(x.AssertedType)
		ok = eq(sx("if_tag", v), itoa(int64(tag)))
		_, unbox := e.D.Box(x.AssertedType)
		val = sx("if_val", v)
		if unbox != "" {
			val = sx(unbox, val)
		}
	}
	okS := e.define("ta_ok", "Bool", ok)
	if x.CommaOk {
		zero := e.D.Zero(x.AssertedType)
		e.tuple[x] = []string{e.define("ta_val", e.D.SortOf(x.AssertedType), ite(okS, val, zero)), okS}
		return
	}
	e.safety("typeassert", e.describe(x.X)+".("+shortType(x.AssertedType)+")", okS, x.Pos())
	e.setVal(x, e.D.SortOf(x.AssertedType), val)
}

func shortType(t types.Type) string {
	return types.TypeString(t, func(p *types.Package) string { return p.Name() })
}

func (e *FuncEnc) encodeMakeClosure(x *ssa.MakeClosure) {
	s := e.newSym("closure", "Int")
	fn := x.Fn.(*ssa.Function)
	e.allocIdx++
	e.assume("true", fmt.Sprintf("(and (> %s 0) (= (akind %s) 3) (= (atime %s) (+ T0 %d)))", s, s, s, e.allocIdx))
	cf := e.D.UF("closure_fn", []string{"Int"}, "Int")
	e.assume("true", eq(sx(cf, s), e.v(fn)))
	for i, b := range x.Bindings {
		bf := e.D.UF(fmt.Sprintf("closure_bind_%s_%d", mangle(fn.String()), i), []string{"Int"}, e.D.SortOf(b.Type()))
		e.assume("true", eq(sx(bf, s), e.v(b)))
	}
	e.val[x] = s
	e.closures[x] = true
}

func (e *FuncEnc) encodeMakeMap(x *ssa.MakeMap) {
	s := e.newSym("map", "Int")
	e.allocIdx++
	e.assume("true", fmt.Sprintf("(and (> %s 0) (= (akind %s) 4) (= (atime %s) (+ T0 %d)))", s, s, s, e.allocIdx))
	mt := x.Type().Underlying().(*types.Map)
	_, hk, _, hs, ks, _ := e.mapKeys(mt)
	h := e.heapName(e.cur, hk, hs)
	e.setHeap(e.cur, hk, hs, sx("store", h, s, fmt.Sprintf("((as const (Array %s Bool)) false)", ks)))
	e.val[x] = s
}

func (e *FuncEnc) encodeMakeSlice(x *ssa.MakeSlice) {
	b := e.newSym("mkslice", "Int")
	e.allocIdx++
	e.assume("true", fmt.Sprintf("(and (> %s 0) (= (akind %s) 0) (= (atime %s) (+ T0 %d)))", b, b, b, e.allocIdx))
	ln, cp := e.v(x.Len), e.v(x.Cap)
	e.safety("makeslice", "", and(sx("<=", "0", ln), sx("<=", ln, cp)), x.Pos())
	e.setVal(x, "Slice", sx("mk_slice", b, "0", ln, cp))
	// zeroed elements
	et := x.Type().Underlying().(*types.Slice).Elem()
	if _, isStruct := et.Underlying().(*types.Struct); !isStruct {
		key := e.D.heapKey(et)
		hs := e.D.heapSort(et)
		h := e.heapName(e.cur, key, hs)
		n := e.newSym(key, hs)
		e.cur.heaps[key] = n
		e.heapSorts[key] = hs
		e.emit(fmt.Sprintf("(assert (forall ((a Int)) (! (= (select %s a) (ite (and (= (akind a) 1) (= (elem_base a) %s)) %s (select %s a))) :pattern ((select %s a)))))", n, b, e.D.Zero(et), h, n))
	}
}

func (e *FuncEnc) encodeMapUpdate(x *ssa.MapUpdate) {
	mt := x.Map.Type().Underlying().(*types.Map)
	vk, hk, vs, hs, _, _ := e.mapKeys(mt)
	m := e.v(x.Map)
	if _, ok := x.Map.(*ssa.MakeMap); !ok {
		e.safety("nilmap", e.describe(x.Map), not(eq(m, "0")), x.Pos())
	}
	e.checkSharedMapUpdate(x)
	k, v := e.v(x.Key), e.v(x.Value)
	hv := e.heapName(e.cur, vk, vs)
	hh := e.heapName(e.cur, hk, hs)
	e.setHeap(e.cur, vk, vs, sx("store", hv, m, sx("store", sx("select", hv, m), k, v)))
	e.setHeap(e.cur, hk, hs, sx("store", hh, m, sx("store", sx("select", hh, m), k, "true")))
}

func (e *FuncEnc) encodeSlice(x *ssa.Slice) {
	lo, hi := "0", ""
	if x.Low != nil {
		lo = e.v(x.Low)
	}
	if x.High != nil {
		hi = e.v(x.High)
	}
	switch t := x.X.Type().Underlying().(type) {
	case *types.Basic: // string
		s := e.v(x.X)
		if hi == "" {
			hi = sx("slen", s)
		}
		e.safety("slice", e.describe(x.X), and(sx("<=", "0", lo), sx("<=", lo, hi), sx("<=", hi, sx("slen", s))), x.Pos())
		if v, ok := e.strView[x.X]; ok {
			// a slice of a slice is a view of the same root string
			nlo := e.define("vlo", "Int", sx("+", v.lo, lo))
			nhi := e.define("vhi", "Int", sx("+", v.lo, hi))
			e.setVal(x, "Str", sx("ssub", v.root, nlo, nhi))
			e.strView[x] = strView{root: v.root, lo: nlo, hi: nhi}
			e.assume(e.curReach, and(sx("<=", "0", nlo), sx("<=", nlo, nhi), sx("<=", nhi, sx("slen", v.root))))
		} else {
			e.setVal(x, "Str", sx("ssub", s, lo, hi))
			e.strView[x] = strView{root: s, lo: lo, hi: hi}
		}
	case *types.Slice:
		s := e.v(x.X)
		base, off, ln, cp := e.sliceParts(s)
		if hi == "" {
			hi = ln
		}
		mx := cp
		if x.Max != nil {
			mx = e.v(x.Max)
			e.safety("slice", e.describe(x.X)+":max", and(sx("<=", hi, mx), sx("<=", mx, cp)), x.Pos())
		}
		e.safety("slice", e.describe(x.X), and(sx("<=", "0", lo), sx("<=", lo, hi), sx("<=", hi, cp)), x.Pos())
		e.setVal(x, "Slice", sx("mk_slice", base, sx("+", off, lo), sx("-", hi, lo), sx("-", mx, lo)))
	case *types.Pointer: // *array
		at := t.Elem().Underlying().(*types.Array)
		p := e.v(x.X)
		n := itoa(at.Len())
		if hi == "" {
			hi = n
		}
		if !nonNilSyntactic(x.X) {
			e.safety("nil", e.describe(x.X), not(eq(p, "0")), x.Pos())
		}
		e.safety("slice", e.describe(x.X), and(sx("<=", "0", lo), sx("<=", lo, hi), sx("<=", hi, n)), x.Pos())
		e.setVal(x, "Slice", sx("mk_slice", p, lo, sx("-", hi, lo), sx("-", n, lo)))
	default:
		e.havocVal(x)
	}
}

func (e *FuncEnc) encodeNext(x *ssa.Next) {
	rng, _ := x.Iter.(*ssa.Range)
	if x.IsString || rng == nil {
		e.abstracted(x, "string range")
		e.havocVal(x)
		return
	}
	mt, ok := rng.X.Type().Underlying().(*types.Map)
	if !ok {
		e.havocVal(x)
		return
	}
	okS := e.newSym("next_ok", "Bool")
	k := e.newSym("next_k", e.D.SortOf(mt.Key()))
	vk, hk, vs, hs, _, _ := e.mapKeys(mt)
	m := e.v(rng.X)
	has := sx("select", sx("select", e.heapName(e.cur, hk, hs), m), k)
	val := sx("select", sx("select", e.heapName(e.cur, vk, vs), m), k)
	// a yielded key is present unless the loop deletes/modifies the map; we
	// only assume presence when the map heap is not modified in the loop.
	li := e.loopOf(e.curBlock)
	stable := li == nil || (!li.modTop && !li.modKeys[hk] && !li.modKeys[vk])
	v := e.newSym("next_v", e.D.SortOf(mt.Elem()))
	if stable {
		_, hk2, _, hs2, ks2, _ := e.mapKeys(mt)
		lenf := e.D.MapLen(ks2)
		e.assume(e.curReach, implies(okS, sx(">", sx(lenf, sx("select", e.heapName(e.cur, hk2, hs2), m)), "0")))
		e.assume(e.curReach, implies(okS, and(not(eq(m, "0")), has, eq(v, val))))
		e.mapValueFacts(v, okS, rng.X.Type())
	}
	e.paramLikeFacts(v, mt.Elem())
	e.tuple[x] = []string{okS, k, v}
	e.val[x] = okS
	if stable {
		// every present key is yielded exactly once: a yielded key was not
		// visited before; when the iteration ends every present key was visited
		key, srt := e.visitedKey(rng, mt)
		vis := e.heapName(e.cur, key, srt)
		ks := e.D.SortOf(mt.Key())
		_, hk3, _, hs3, _, _ := e.mapKeys(mt)
		hasArr := constOf(e, "rng_has", fmt.Sprintf("(Array %s Bool)", ks), sx("select", e.heapName(e.cur, hk3, hs3), m))
		visC := constOf(e, "rng_vis", srt, vis)
		e.assume(e.curReach, implies(okS, not(sx("select", vis, k))))
		e.assume(e.curReach, implies(not(okS), fmt.Sprintf("(forall ((q %s)) (! (=> (and (not (= %s 0)) (select %s q)) (select %s q)) :pattern ((select %s q)) :pattern ((select %s q))))", ks, m, hasArr, visC, visC, hasArr)))
		e.setHeap(e.cur, key, srt, ite(okS, sx("store", vis, k, "true"), vis))
		e.Cache["visited:"+key] = true
	}
}

// visitedKey: ghost "heap" holding the set of keys yielded by a map range.
func (e *FuncEnc) visitedKey(rng *ssa.Range, mt *types.Map) (string, string) {
	key := fmt.Sprintf("GV_range_%s", mangle(rng.Name()))
	srt := fmt.Sprintf("(Array %s Bool)", e.D.SortOf(mt.Key()))
	e.heapSorts[key] = srt
	return key, srt
}

func (e *FuncEnc) loopOf(b *ssa.BasicBlock) *loopInfo {
	var best *loopInfo
	for _, li := range e.loops {
		if li.body[b] {
			if best == nil || len(li.body) < len(best.body) {
				best = li
			}
		}
	}
	return best
}

func (e *FuncEnc) encodeReturn(x *ssa.Return) {
	var rs []string
	for _, r := range x.Results {
		rs = append(rs, e.v(r))
	}
	e.results = rs
	e.curRet = x
	e.checkEnsures(x)
	if e.OnReturn != nil {
		e.OnReturn(e, x, rs)
	}
}

var _ = strings.Join
