package vc

import (
	"context"
	"fmt"
	"os"
	"path/filepath"
	"strings"
	"sync"
	"sync/atomic"
	"time"
)

// solverSlots bounds the number of solver processes started for individual
// obligations across all functions.
var solverSlots = make(chan struct{}, 14)

// Result of verifying one function.
type FuncResult struct {
	Name       string
	Obls       []*Obligation
	Abstracted []string
	Assumed    []string
	SpecErrors []string
	Vacuous    bool // requires unsatisfiable
	Secs       float64
}

func (e *FuncEnc) prefix(upto int) string {
	var b strings.Builder
	b.WriteString(e.D.String())
	for _, l := range e.body[:upto] {
		b.WriteString(l)
		b.WriteByte('\n')
	}
	return b.String()
}

// declsNeeded: the body may reference heap symbols declared lazily into D after
// the body line was produced; D is always emitted first in full, so this is fine.

func goal(o *Obligation) string {
	return fmt.Sprintf("(assert (not %s))", implies(o.Guard, o.Formula))
}

// Verify discharges all obligations of an encoded function.
func (e *FuncEnc) Verify(scratch string, timeoutS int) *FuncResult {
	t0 := time.Now()
	res := &FuncResult{Name: e.Name, Obls: e.Obls, Abstracted: e.Abstracted, SpecErrors: e.SpecErrors}
	for k := range e.Assumed {
		res.Assumed = append(res.Assumed, k)
	}
	if len(e.Obls) == 0 {
		return res
	}
	// incremental pass with z3 (skipped for very large scripts, where z3's
	// incremental core is much slower than fresh processes in parallel)
	size := 0
	for _, l := range e.body {
		size += len(l)
	}
	var retry []*Obligation
	if size > 150000 && len(e.Obls) > 12 {
		retry = append(retry, e.Obls...)
	} else {
		var b strings.Builder
		b.WriteString(e.D.String())
		pos := 0
		for _, o := range e.Obls {
			for ; pos < o.bodyPos; pos++ {
				b.WriteString(e.body[pos])
				b.WriteByte('\n')
			}
			b.WriteString("(push 1)\n" + goal(o) + "\n(check-sat)\n(pop 1)\n")
		}
		sts, secs := SolveIncremental(b.String(), scratch, e.Name, timeoutS*2+len(e.Obls)/4)
		per := secs / float64(len(e.Obls))
		for i, o := range e.Obls {
			if i < len(sts) && sts[i] == "unsat" {
				o.Status, o.Solver, o.Secs = "proved", "z3(incremental)", per
				c, _ := SolverCounts.LoadOrStore("z3(incremental)", new(int64))
				atomic.AddInt64(c.(*int64), 1)
			} else {
				retry = append(retry, o)
			}
		}
	}
	// individual pass with the portfolio
	var wg sync.WaitGroup
	for _, o := range retry {
		o := o
		wg.Add(1)
		solverSlots <- struct{}{}
		go func() {
			defer wg.Done()
			defer func() { <-solverSlots }()
			script := e.prefix(o.bodyPos) + goal(o) + "\n(check-sat)\n(get-model)\n"
			r := Solve(script, scratch, o.Name, timeoutS)
			o.Solver, o.Secs = r.Solver, r.Secs
			switch r.Status {
			case "unsat":
				o.Status = "proved"
			case "sat":
				o.Status = "failed"
				o.Model = r.Output
			default:
				o.Status = "unknown"
				o.Model = r.Output
			}
		}()
	}
	wg.Wait()
	res.Secs = time.Since(t0).Seconds()
	return res
}

// ContextConsistent: everything the encoding assumes along all paths (facts,
// callee postconditions, havoc frames; no goal) must be satisfiable together.
// An unsatisfiable context proves every obligation of the function vacuously
// (seen once: a callee postcondition relating a heap to itself because the
// caller had not registered that heap before the call). Returns the solver's
// first line; "unsat" is the alarm.
func (e *FuncEnc) ContextConsistent(scratch string) string {
	if len(e.body) == 0 {
		return "sat"
	}
	script := e.prefix(len(e.body)) + "(check-sat)\n"
	file := filepath.Join(scratch, sanitize(e.Name)+".ctx.smt2")
	if err := os.WriteFile(file, []byte(script), 0o644); err != nil {
		return "error"
	}
	defer os.Remove(file)
	r := runOne(context.Background(), solvers[0], file, 8)
	return r.Status
}

// CheckVacuity: the assumptions at function entry (requires + axioms) must be
// satisfiable, and a planted `false` behind them must fail.
func (e *FuncEnc) CheckVacuity(scratch string) (ok bool, detail string) {
	n := 0
	for i, l := range e.body {
		if strings.HasPrefix(l, "(define-fun |reach") || strings.HasPrefix(l, "(define-fun |edge") {
			break
		}
		n = i + 1
	}
	// entry part of the body = everything before the first block-level definition
	script := e.prefix(n) + "(check-sat)\n"
	r := Solve(script, scratch, e.Name+".vacuity", 10)
	if r.Status == "unsat" {
		return false, "requires and axioms are contradictory"
	}
	return true, r.Status
}

func WriteFile(path, content string) error { return os.WriteFile(path, []byte(content), 0o644) }

func (e *FuncEnc) Dump() string { return e.prefix(len(e.body)) }

// ---------------------------------------------------------------- counterexample extraction

type ModelQuery struct {
	Label string
	Term  string
	Kind  string // str | int | bool
}

// Witness evaluates the model queries in a (candidate) model of the negated
// obligation. Strings are read byte by byte (at most 64 bytes).
func (e *FuncEnc) Witness(o *Obligation, scratch string, extraAssume string) (map[string]string, string) {
	var b strings.Builder
	b.WriteString("(set-option :smt.candidate_models true)\n(set-option :model true)\n")
	b.WriteString(e.prefix(o.bodyPos))
	if extraAssume != "" {
		b.WriteString("(assert " + extraAssume + ")\n")
	}
	b.WriteString(goal(o) + "\n(check-sat)\n")
	type slot struct {
		label string
		kind  string
		idx   int
	}
	var slots []slot
	for _, q := range e.Queries {
		switch q.Kind {
		case "str":
			b.WriteString(fmt.Sprintf("(eval (slen %s))\n", q.Term))
			slots = append(slots, slot{q.Label, "len", 0})
			for i := 0; i < 64; i++ {
				b.WriteString(fmt.Sprintf("(eval (sat %s %d))\n", q.Term, i))
				slots = append(slots, slot{q.Label, "byte", i})
			}
		default:
			b.WriteString(fmt.Sprintf("(eval %s)\n", q.Term))
			slots = append(slots, slot{q.Label, q.Kind, 0})
		}
	}
	file := scratch + "/" + sanitize(o.Name) + ".witness.smt2"
	_ = os.WriteFile(file, []byte(b.String()), 0o644)
	r := runOne(context.Background(), solvers[0], file, 10)
	lines := strings.Split(strings.TrimSpace(r.Output), "\n")
	if len(lines) == 0 || (lines[0] != "sat" && lines[0] != "unknown") {
		return nil, r.Output
	}
	vals := lines[1:]
	out := map[string]string{}
	lens := map[string]int{}
	bytesOf := map[string][]byte{}
	for i, s := range slots {
		if i >= len(vals) {
			break
		}
		v := strings.TrimSpace(vals[i])
		v = strings.ReplaceAll(strings.ReplaceAll(strings.ReplaceAll(v, "(- ", "-"), ")", ""), "(", "")
		switch s.kind {
		case "len":
			n := 0
			fmt.Sscanf(v, "%d", &n)
			if n > 64 {
				n = 64
			}
			lens[s.label] = n
		case "byte":
			if s.idx < lens[s.label] {
				n := 0
				fmt.Sscanf(v, "%d", &n)
				bytesOf[s.label] = append(bytesOf[s.label], byte(n))
			}
		default:
			out[s.label] = v
		}
	}
	for l, n := range lens {
		bs := bytesOf[l]
		if len(bs) > n {
			bs = bs[:n]
		}
		out[l] = string(bs)
	}
	return out, lines[0]
}

// Recheck re-discharges one obligation under an extra assumption (used for the
// "excuse" of a known finding: the failure must be fully explained by it).
func (e *FuncEnc) Recheck(o *Obligation, scratch, extraAssume string, timeoutS int) string {
	script := e.prefix(o.bodyPos) + "(assert " + extraAssume + ")\n" + goal(o) + "\n(check-sat)\n"
	r := Solve(script, scratch, o.Name+".excuse", timeoutS)
	return r.Status
}

// ParamEnv exposes the function's parameter binding for excuse expressions.
func (e *FuncEnc) ExcuseFormula(text string) (string, error) {
	env := e.selfEnv(e.entry)
	return env.formulaText(text)
}
