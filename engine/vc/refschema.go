package vc

import (
	"sort"
	"strings"
)

// RefSchema is the reference reading of a JSON schema object of the document
// (OpenAPI 3.0 schema object), independent of goag's own model.
type RefSchema struct {
	Component string // name under components/schemas when reached by $ref ("" = inline)
	Type      string // object array string integer number boolean "" (any)
	Format    string
	Nullable  bool
	Props     []RefProp // own properties, sorted by name
	Required  map[string]bool
	// additionalProperties: APAllowed (true/absent-with-schema), APSchema (may be nil: any)
	APDeclared bool
	APSchema   *RefSchema
	AllOf      []*RefSchema
	OneOf      []*RefSchema
	Items      *RefSchema
	DiscKey    string
	DiscMap    map[string]string // explicit discriminator mapping: value -> component name
	Raw        map[string]any
}

type RefProp struct {
	Name   string
	Schema *RefSchema
}

// SchemaOf reads a schema node; $ref to a component yields the shared,
// memoised component schema (so recursive schemas terminate).
func (rs *RefSpec) SchemaOf(v any) *RefSchema {
	if rs.schemaMemo == nil {
		rs.schemaMemo = map[string]*RefSchema{}
	}
	m, ok := v.(map[string]any)
	if !ok {
		return nil
	}
	if ref, ok := m["$ref"].(string); ok {
		if s, ok := rs.schemaMemo[ref]; ok {
			return s
		}
		out := &RefSchema{}
		rs.schemaMemo[ref] = out
		if strings.HasPrefix(ref, "#/components/schemas/") {
			out.Component = strings.TrimPrefix(ref, "#/components/schemas/")
		}
		tm, _ := rs.deref(v).(map[string]any)
		rs.fillSchema(out, tm)
		return out
	}
	out := &RefSchema{}
	rs.fillSchema(out, m)
	return out
}

func (rs *RefSpec) fillSchema(out *RefSchema, m map[string]any) {
	if m == nil {
		return
	}
	out.Raw = m
	out.Type, _ = m["type"].(string)
	out.Format, _ = m["format"].(string)
	out.Nullable, _ = m["nullable"].(bool)
	out.Required = map[string]bool{}
	if req, ok := m["required"].([]any); ok {
		for _, r := range req {
			if s, ok := r.(string); ok {
				out.Required[s] = true
			}
		}
	}
	if props, ok := m["properties"].(map[string]any); ok {
		for _, k := range sortedAnyKeys(props) {
			out.Props = append(out.Props, RefProp{Name: k, Schema: rs.SchemaOf(props[k])})
		}
	}
	switch ap := m["additionalProperties"].(type) {
	case bool:
		out.APDeclared = ap
	case map[string]any:
		out.APDeclared = true
		out.APSchema = rs.SchemaOf(ap)
	}
	if l, ok := m["allOf"].([]any); ok {
		for _, x := range l {
			out.AllOf = append(out.AllOf, rs.SchemaOf(x))
		}
	}
	if l, ok := m["oneOf"].([]any); ok {
		for _, x := range l {
			out.OneOf = append(out.OneOf, rs.SchemaOf(x))
		}
	}
	if it, ok := m["items"]; ok {
		out.Items = rs.SchemaOf(it)
	}
	if d, ok := m["discriminator"].(map[string]any); ok {
		out.DiscKey, _ = d["propertyName"].(string)
		out.DiscMap = map[string]string{}
		if mp, ok := d["mapping"].(map[string]any); ok {
			for k, v := range mp {
				if ref, ok := v.(string); ok {
					out.DiscMap[k] = ref[strings.LastIndex(ref, "/")+1:]
				}
			}
		}
	}
	if out.Type == "" && (len(out.Props) > 0 || out.APDeclared) && len(out.AllOf) == 0 && len(out.OneOf) == 0 {
		out.Type = "object"
	}
}

// ComponentSchemas: the schemas under components/schemas, by name.
func (rs *RefSpec) ComponentSchemas() map[string]*RefSchema {
	out := map[string]*RefSchema{}
	comps, _ := rs.Raw["components"].(map[string]any)
	schemas, _ := comps["schemas"].(map[string]any)
	for _, k := range sortedAnyKeys(schemas) {
		out[k] = rs.SchemaOf(map[string]any{"$ref": "#/components/schemas/" + k})
	}
	return out
}

// IsObjectLike: rendered as a JSON object with a member list.
func (s *RefSchema) IsObjectLike() bool {
	return s != nil && (s.Type == "object" || len(s.AllOf) > 0) && len(s.OneOf) == 0
}

func sortedBoolKeys(m map[string]bool) []string {
	var ks []string
	for k := range m {
		ks = append(ks, k)
	}
	sort.Strings(ks)
	return ks
}
