package vc

import (
	"fmt"
	"go/constant"
	"go/token"
	"go/types"
	"strings"

	"golang.org/x/tools/go/ssa"
)

// CallKind classifies a call whose body is not analysed.
type CallKind int

const (
	CallHavoc CallKind = iota // fresh result, heap havoc (TOP), event appended
	CallPure                  // result is an uninterpreted function of callee and args; no effects
	CallEvent                 // event appended, fresh result, no module heap writes
	CallFresh                 // fresh result, no event, no module heap writes
)

func constString(v ssa.Value) (string, bool) {
	if c, ok := v.(*ssa.Const); ok && c.Value != nil && c.Value.Kind() == constant.String {
		return constant.StringVal(c.Value), true
	}
	return "", false
}

// hasPrefixLit expands strings.HasPrefix(s, lit).
func hasPrefixLit(s, lit string) string {
	cs := []string{sx(">=", sx("slen", s), itoa(int64(len(lit))))}
	for i := 0; i < len(lit); i++ {
		cs = append(cs, eq(sx("sat", s, itoa(int64(i))), itoa(int64(lit[i]))))
	}
	return and(cs...)
}

func (e *FuncEnc) setResult(v ssa.Value, syms []string) {
	if v == nil {
		return
	}
	if _, ok := v.Type().(*types.Tuple); ok {
		e.tuple[v] = syms
		return
	}
	if len(syms) == 1 {
		e.val[v] = syms[0]
	}
}

func resultTypes(sig *types.Signature) []types.Type {
	var ts []types.Type
	for i := 0; i < sig.Results().Len(); i++ {
		ts = append(ts, sig.Results().At(i).Type())
	}
	return ts
}

func (e *FuncEnc) freshResults(name string, ts []types.Type) []string {
	var out []string
	for i, t := range ts {
		s := e.newSym(fmt.Sprintf("%s_r%d", mangle(name), i), e.D.SortOf(t))
		e.paramLikeFacts(s, t)
		e.resultFacts(s, t)
		out = append(out, s)
	}
	return out
}

// resultFacts: closed-heap style facts for values coming back from a call.
func (e *FuncEnc) resultFacts(s string, t types.Type) {
	switch t.Underlying().(type) {
	case *types.Pointer, *types.Map, *types.Signature:
		e.assume("true", sx(">=", s, "0"))
	}
}

// respEvent: events that are "a response": writing the status line, or
// delegating to another handler (which writes exactly one, inductively).
func respEvent(name string) bool {
	name = strings.ReplaceAll(name, "emitted.", "")
	return name == "http.ResponseWriter.WriteHeader" || name == "http.Handler.ServeHTTP" || name == "net/http.Error" || name == "net/http.NotFound"
}

func (e *FuncEnc) declareEvent(name string, sorts []string) string {
	fn := e.D.UF("ev_"+mangle(name), sorts, "Event")
	e.D.UF("nResp", []string{"Trace"}, "Int")
	e.D.Axiom("nResp:nil", "(= (nResp tr_nil) 0)")
	e.D.Axiom("nResp:nonneg", "(forall ((t Trace)) (! (>= (nResp t) 0) :pattern ((nResp t))))")
	inc := "0"
	if respEvent(name) {
		inc = "1"
	}
	var bs, as []string
	for i, srt := range sorts {
		bs = append(bs, fmt.Sprintf("(a%d %s)", i, srt))
		as = append(as, fmt.Sprintf("a%d", i))
	}
	ev := fn
	if len(as) > 0 {
		ev = "(" + fn + " " + strings.Join(as, " ") + ")"
	}
	e.D.Axiom("nResp:"+fn, fmt.Sprintf("(forall ((t Trace) %s) (! (= (nResp (tr_cons t %s)) (+ (nResp t) %s)) :pattern ((tr_cons t %s))))", strings.Join(bs, " "), ev, inc, ev))
	e.declareProjections(name, fn, bs, as, sorts, ev)
	if !strings.HasPrefix(name, "jw_") {
		e.jsonNeutral(fn, bs, ev)
	}
	e.D.UF("nClose", []string{"Trace"}, "Int")
	cinc := "0"
	if strings.HasSuffix(strings.ReplaceAll(name, "emitted.", ""), "io.ReadCloser.Close") || strings.HasSuffix(name, "io.Closer.Close") {
		cinc = "1"
	}
	e.D.Axiom("nClose:"+fn, fmt.Sprintf("(forall ((t Trace) %s) (! (= (nClose (tr_cons t %s)) (+ (nClose t) %s)) :pattern ((tr_cons t %s))))", strings.Join(bs, " "), ev, cinc, ev))
	return fn
}

func (e *FuncEnc) appendEvent(name string, args []string, sorts []string, guard string) {
	fn := e.declareEvent(name, sorts)
	ev := fn
	if len(args) > 0 {
		ev = sx(fn, args...)
	}
	nt := sx("tr_cons", e.cur.trace, ev)
	e.cur.trace = e.define("tr", "Trace", ite(guard, nt, e.cur.trace))
}

// encodeCall handles Call, Defer (run at RunDefers) instructions.
func (e *FuncEnc) encodeCall(in ssa.Instruction, c *ssa.CallCommon, res ssa.Value, guard string) {
	savedReach := e.curReach
	if guard != "true" {
		// a deferred call runs only if its defer statement was executed: the
		// effects are merged under that condition
		before := e.cur.clone()
		g := e.define("dguard", "Bool", and(e.curReach, guard))
		e.curReach = g
		defer func() {
			after := e.cur
			merged := before.clone()
			merged.epoch = after.epoch
			keys := map[string]bool{}
			for k := range after.heaps {
				keys[k] = true
			}
			for k := range before.heaps {
				keys[k] = true
			}
			for _, k := range sortedKeys(keys) {
				srt, ok := e.heapSorts[k]
				if !ok {
					continue
				}
				a, b := e.heapName(after, k, srt), e.heapName(before, k, srt)
				if a == b {
					merged.heaps[k] = a
				} else {
					merged.heaps[k] = e.define(k, srt, ite(guard, a, b))
				}
			}
			if after.trace != before.trace {
				merged.trace = e.mergeTraces([]string{guard, "true"}, []string{after.trace, before.trace})
			}
			e.cur = merged
		}()
	}
	defer func() { e.curReach = savedReach }()

	var args []string
	for _, a := range c.Args {
		args = append(args, e.v(a))
	}
	sig := c.Signature()
	rts := resultTypes(sig)

	if e.CallHook != nil {
		if c.IsInvoke() {
			e.CallHook(e, in, shortType(c.Value.Type())+"."+c.Method.Name(), append([]ssa.Value{c.Value}, c.Args...), append([]string{e.v(c.Value)}, args...))
		} else if g := c.StaticCallee(); g != nil {
			e.CallHook(e, in, g.String(), c.Args, args)
		}
	}
	if c.IsInvoke() {
		recv := e.v(c.Value)
		e.safety("nilinvoke", e.describe(c.Value)+"."+c.Method.Name(), not(eq(sx("if_tag", recv), "0")), in.Pos())
		name := shortType(c.Value.Type()) + "." + c.Method.Name()
		if e.W != nil && e.W.InvokeSummary != nil && len(rts) == 0 && e.W.InvokeSummary(e, c) {
			return
		}
		if e.W != nil && e.W.JSONViews && jsonInvoke(e, in, c, res) {
			return
		}
		e.dynamicCall(in, name, recv, "Iface", c.Args, args, rts, res)
		return
	}
	switch f := c.Value.(type) {
	case *ssa.Builtin:
		e.encodeBuiltin(in, f, c, args, res)
		return
	case *ssa.Function:
		e.staticCall(in, f, nil, c.Args, args, rts, res)
		return
	case *ssa.MakeClosure:
		e.staticCall(in, f.Fn.(*ssa.Function), f.Bindings, c.Args, args, rts, res)
		return
	}
	if e.W != nil && e.W.InlineClosures {
		if mc := e.resolveClosure(c.Value, 0); mc != nil {
			e.staticCall(in, mc.Fn.(*ssa.Function), mc.Bindings, c.Args, args, rts, res)
			return
		}
	}
	// call of a func value: it may be a closure over local variable cells
	{
		saved := e.noPreserve
		e.noPreserve = map[*ssa.Alloc]bool{}
		for a := range saved {
			e.noPreserve[a] = true
		}
		cw := e.closureWrittenSet()
		for a := range e.private {
			if cw[a] {
				e.noPreserve[a] = true
			}
		}
		defer func() { e.noPreserve = saved }()
	}
	fv := e.v(c.Value)
	e.safety("nilcall", e.describe(c.Value), not(eq(fv, "0")), in.Pos())
	name := "func:" + shortType(c.Value.Type())
	e.dynamicCall(in, name, fv, "Int", c.Args, args, rts, res)
}

// dynamicCall: callee body unknown (interface method / func value).
func (e *FuncEnc) dynamicCall(in ssa.Instruction, name, callee, calleeSort string, argVals []ssa.Value, args []string, rts []types.Type, res ssa.Value) {
	kind := CallHavoc
	if e.W != nil && e.W.DynamicPolicy != nil {
		kind = e.W.DynamicPolicy(e, in, name)
	}
	sorts := []string{calleeSort}
	all := []string{callee}
	for i, a := range argVals {
		sorts = append(sorts, e.D.SortOf(a.Type()))
		all = append(all, args[i])
	}
	switch kind {
	case CallPure:
		var out []string
		psorts := []string{calleeSort}
		pall := []string{callee}
		for i, a := range argVals {
			av, as := e.abstractArg(args[i], a.Type(), e.cur)
			psorts = append(psorts, as)
			pall = append(pall, av)
		}
		for i, t := range rts {
			s := e.define(mangle(name), e.D.SortOf(t), e.DynPureTerm(name, i, pall, psorts, e.D.SortOf(t)))
			out = append(out, s)
		}
		e.setResult(res, out)
		e.Assumed["results of "+name+" are functions of callee and (abstracted) arguments, no side effects"] = true
		if e.W != nil && e.W.DynResultFact != nil {
			if f := e.W.DynResultFact(e, name, out, rts); f != "" {
				e.assume(e.curReach, f)
			}
		}
		return
	case CallEvent:
		e.appendEvent(name, all, sorts, "true")
	case CallFresh:
	default:
		e.appendEvent(name, all, sorts, "true")
		e.havocAll(e.cur)
		if strings.HasPrefix(name, "func:") {
			// a function value whose origin the encoder could not trace (loaded
			// from a table, passed in): its body is unknown here, everything it
			// could touch is havocked. Sound, but obligations that depend on what
			// the callee does cannot be decided.
			e.Imprecise = append(e.Imprecise, "call of a function value of untraced origin ("+strings.TrimPrefix(name, "func:")+") is havocked")
		}
	}
	// results: function of (callee, args, position in trace) so that they can
	// be named by contracts
	var out []string
	for i, t := range rts {
		f := e.D.UF(fmt.Sprintf("dynres_%s_r%d", mangle(name), i), append(append([]string{}, sorts...), "Trace"), e.D.SortOf(t))
		s := e.define(mangle(name), e.D.SortOf(t), sx(f, append(append([]string{}, all...), e.cur.trace)...))
		e.paramLikeFacts(s, t)
		out = append(out, s)
	}
	e.setResult(res, out)
	if e.W != nil && e.W.DynResultFact != nil {
		if f := e.W.DynResultFact(e, name, out, rts); f != "" {
			e.assume(e.curReach, f)
		}
	}
}

func isModuleFn(w *World, f *ssa.Function) bool {
	if w == nil || f == nil {
		return false
	}
	return w.IsModule(f)
}

// boundTarget: f is the synthetic wrapper of a method value (x.m as a func
// value: `m$bound` with the receiver as its only free variable); returns m.
func boundTarget(f *ssa.Function) *ssa.Function {
	if f == nil || !strings.HasPrefix(f.Synthetic, "bound method wrapper") || len(f.FreeVars) != 1 || len(f.Blocks) != 1 {
		return nil
	}
	for _, in := range f.Blocks[0].Instrs {
		if c, ok := in.(*ssa.Call); ok {
			if g := c.Call.StaticCallee(); g != nil && len(c.Call.Args) == len(f.Params)+1 && c.Call.Args[0] == ssa.Value(f.FreeVars[0]) {
				return g
			}
		}
	}
	return nil
}

func (e *FuncEnc) staticCall(in ssa.Instruction, f *ssa.Function, bindings []ssa.Value, argVals []ssa.Value, args []string, rts []types.Type, res ssa.Value) {
	// a method value: the call is a call of the method on the bound receiver
	if g := boundTarget(f); g != nil && len(bindings) == 1 {
		e.staticCall(in, g, nil, append([]ssa.Value{bindings[0]}, argVals...), append([]string{e.v(bindings[0])}, args...), rts, res)
		return
	}
	if bindings != nil {
		// a closure may write the variable cells it captures
		saved, savedOuter := e.noPreserve, e.noPreserveOuter
		e.noPreserveOuter = saved
		e.noPreserve = e.capturedWritten(bindings)
		for a := range saved {
			e.noPreserve[a] = true
		}
		defer func() { e.noPreserve, e.noPreserveOuter = saved, savedOuter }()
	}
	full := f.String()
	if f.Origin() != nil {
		full = f.Origin().String()
	}
	// engine-level models of library functions
	if e.libraryCall(in, full, f, argVals, args, rts, res) {
		return
	}
	var c *Contract
	if e.W != nil {
		c = e.W.ContractFor(f)
	}
	if e.W != nil && e.W.InlineSmall && isModuleFn(e.W, f) && (c == nil || (c.Options["env"] == "true" && len(c.Requires) == 0 && len(c.Ensures) == 0 && c.RetHook == nil)) && inlinable(f) && e.inlineDepth < 3 {
		if c != nil && c.PreHook != nil {
			for _, nf := range c.PreHook(e, args) {
				e.obligeKeep("call:"+f.Name(), "requires:"+nf.Name, nf.Formula, in.Pos())
			}
		}
		e.inlineCall(f, bindings, args, res)
		return
	}
	envOnly := c != nil && c.Options["env"] == "true" && len(c.Requires) == 0 && len(c.Ensures) == 0 && c.RetHook == nil && c.PostHook == nil
	if e.W != nil && e.W.InlineClosures && (c == nil || envOnly) && f.Parent() != nil && bindings != nil && isModuleFn(e.W, f) && dagInlinable(f) && e.inlineDepth < 4 {
		// the body is unfolded: its stores are seen one by one
		cur := e.noPreserve
		e.noPreserve = e.noPreserveOuter
		e.inlineDAG(in, f, bindings, argVals, args, res)
		e.noPreserve = cur
		return
	}
	if e.W != nil && e.W.InlineNamed != nil && (c == nil || envOnly) && bindings == nil && isModuleFn(e.W, f) && e.W.InlineNamed(f) && dagInlinable(f) && e.inlineDepth < 4 {
		e.inlineDAG(in, f, nil, argVals, args, res)
		return
	}
	if c != nil {
		e.contractCall(in, f, c, bindings, argVals, args, rts, res)
		return
	}
	if isModuleFn(e.W, f) {
		// no contract: havoc its mod set
		keys, top, tr := e.W.ModSet(f)
		if top {
			e.havocAll(e.cur)
		} else {
			for _, k := range sortedKeys(keys) {
				e.havocHeap(e.cur, k)
			}
		}
		if tr {
			e.cur.trace = e.newSym("tr", "Trace")
		}
		e.setResult(res, e.freshResults(f.Name(), rts))
		return
	}
	// external function without a model
	e.externalCall(in, full, f, argVals, args, rts, res)
}

// externalCall: an external (non-module) function without a specific model.
func (e *FuncEnc) externalCall(in ssa.Instruction, full string, f *ssa.Function, argVals []ssa.Value, args []string, rts []types.Type, res ssa.Value) {
	kind := CallFresh
	if e.W != nil && e.W.ExternalPolicy != nil {
		kind = e.W.ExternalPolicy(full)
	}
	var sorts []string
	for _, a := range argVals {
		sorts = append(sorts, e.D.SortOf(a.Type()))
	}
	switch kind {
	case CallPure:
		var out []string
		for i, t := range rts {
			fn := e.D.UF(fmt.Sprintf("ext_%s_r%d", mangle(full), i), sorts, e.D.SortOf(t))
			expr := fn
			if len(args) > 0 {
				expr = sx(fn, args...)
			}
			s := e.define(mangle(f.Name()), e.D.SortOf(t), expr)
			e.paramLikeFacts(s, t)
			out = append(out, s)
		}
		e.setResult(res, out)
		e.Assumed["external "+full+": deterministic function of its arguments, no effects"] = true
		return
	case CallEvent:
		e.appendEvent(full, args, sorts, "true")
		e.Assumed["external "+full+": one observable event, no writes to module memory"] = true
	case CallHavoc:
		e.appendEvent(full, args, sorts, "true")
		e.havocAll(e.cur)
		e.Assumed["external "+full+": arbitrary effects (havoc)"] = true
	default:
		e.Assumed["external "+full+": unconstrained result, no writes to module memory except through pointer arguments"] = true
	}
	// writes through pointer arguments
	for _, a := range argVals {
		e.havocReachable(a)
	}
	e.setResult(res, e.freshResults(f.Name(), rts))
}

// havocReachable havocs what an external callee may write through the pointer
// `a`: the cells of the pointed object exactly (other cells of the same types
// keep their value), and, by type, everything reachable through references
// stored in it.
func (e *FuncEnc) havocReachable(a ssa.Value) {
	t := a.Type()
	av := e.v(a)
	if mi, ok := a.(*ssa.MakeInterface); ok {
		t = mi.X.Type()
		av = e.v(mi.X)
	}
	p, ok := t.Underlying().(*types.Pointer)
	if !ok {
		return
	}
	seen := map[string]bool{}
	var deep func(t types.Type, d int)
	deep = func(t types.Type, d int) {
		k := typeKey(t)
		if seen[k] || d > 6 {
			return
		}
		seen[k] = true
		switch u := t.Underlying().(type) {
		case *types.Struct:
			for i := 0; i < u.NumFields(); i++ {
				deep(u.Field(i).Type(), d+1)
			}
			return
		case *types.Pointer:
			deep(u.Elem(), d+1)
		case *types.Slice:
			deep(u.Elem(), d+1)
		case *types.Map:
			vk, hk, _, _, _, _ := e.mapKeys(u)
			e.havocHeap(e.cur, vk)
			e.havocHeap(e.cur, hk)
			deep(u.Elem(), d+1)
		case *types.Interface:
			return
		}
		if _, isStruct := t.Underlying().(*types.Struct); !isStruct {
			e.heapSorts[e.D.heapKey(t)] = e.D.heapSort(t)
			e.havocHeap(e.cur, e.D.heapKey(t))
		}
	}
	// objects of library-defined struct types keep their unexported state to
	// themselves: module code can only observe it through further library calls
	if n, ok := p.Elem().(*types.Named); ok && n.Obj().Pkg() != nil && e.W != nil && !e.W.isModulePath(n.Obj().Pkg().Path()) {
		if _, isStruct := n.Underlying().(*types.Struct); isStruct {
			e.Assumed["library objects passed by pointer to library functions: their internal state is not module-visible memory"] = true
			return
		}
	}
	// the pointed object itself: exact cells
	for _, lf := range e.leaves(p.Elem(), func(s string) string { return s }, 0) {
		srt := e.heapSorts[lf.key]
		h := e.heapName(e.cur, lf.key, srt)
		fresh := e.newSym("ext", e.D.SortOf(lf.typ))
		e.paramLikeFacts(fresh, lf.typ)
		e.setHeap(e.cur, lf.key, srt, sx("store", h, lf.addr(av), fresh))
		// what the cell refers to may be written as well
		switch u := lf.typ.Underlying().(type) {
		case *types.Pointer:
			deep(u.Elem(), 1)
		case *types.Slice:
			deep(u.Elem(), 1)
		case *types.Map:
			deep(lf.typ, 1)
		}
	}
}

// contractCall: modular call against the callee's contract.
func (e *FuncEnc) contractCall(in ssa.Instruction, f *ssa.Function, c *Contract, bindings []ssa.Value, argVals []ssa.Value, args []string, rts []types.Type, res ssa.Value) {
	pre := e.cur.clone()
	env := e.calleeEnv(f, c, bindings, args, pre)
	for _, cl := range c.Requires {
		fml, err := env.formula(cl)
		if err != nil {
			e.Abstracted = append(e.Abstracted, fmt.Sprintf("contract %s requires %q: %v", c.Name, cl.Text, err))
			continue
		}
		e.obligeKeep("call:"+f.Name(), "requires:"+cl.Name, fml, in.Pos())
		if n := len(e.Obls); n > 0 && e.Obls[n-1].Class == "call:"+f.Name() {
			e.Obls[n-1].Callee, e.Obls[n-1].Clause = c.Name, cl.Name
		}
	}
	if c.PreHook != nil {
		for _, nf := range c.PreHook(e, args) {
			e.obligeKeep("call:"+f.Name(), "requires:"+nf.Name, nf.Formula, in.Pos())
		}
	}
	if c.ArgHook != nil {
		for _, nf := range c.ArgHook(e, argVals, args) {
			n0 := len(e.Obls)
			e.obligeKeep("call:"+f.Name(), "requires:"+nf.Name, nf.Formula, in.Pos())
			if len(e.Obls) > n0 {
				e.Obls[len(e.Obls)-1].Props = nf.Props
			}
		}
	}
	if !c.Pure {
		keys, top, tr := e.W.ModSet(f)
		if c.Modifies != nil {
			keys, top = c.Modifies, false
		}
		if top {
			e.havocAll(e.cur)
		} else {
			for _, k := range sortedKeys(keys) {
				if _, known := e.heapSorts[k]; !known {
					if s, ok := modSortRegistry.Load(k); ok {
						e.heapSorts[k] = s.(string)
					}
				}
				e.havocHeap(e.cur, k)
			}
		}
		if evn := c.Options["event"]; evn != "" {
			// the callee's effect on the trace is summarised as one event
			var sorts, aargs []string
			for i, a := range argVals {
				av, as := e.abstractArg(args[i], a.Type(), pre)
				sorts = append(sorts, as)
				aargs = append(aargs, av)
			}
			fn := e.declareEvent(evn, sorts)
			e.cur.trace = e.define("tr", "Trace", sx("tr_cons", pre.trace, sx(fn, aargs...)))
			e.Assumed["call to "+f.Name()+" is summarised as one `"+evn+"` event (its own events are neutral for the response views; checked in its body)"] = true
		} else if tr {
			e.cur.trace = e.newSym("tr", "Trace")
		}
	}
	results := e.freshResults(f.Name(), rts)
	if c.PureFunc && len(rts) > 0 {
		// result is a function of the (abstracted) arguments
		var sorts, aargs []string
		for i, a := range argVals {
			av, as := e.abstractArg(args[i], a.Type(), pre)
			sorts = append(sorts, as)
			aargs = append(aargs, av)
		}
		for i, t := range rts {
			e.assume(e.curReach, eq(results[i], e.PureFuncTerm(f.String(), i, aargs, sorts, e.D.SortOf(t))))
		}
		e.Assumed["purefunc "+f.String()+": the returned value is identified by its (abstracted) arguments"] = true
	}
	env.st = e.cur
	env.old = pre
	env.bindResults(f, results)
	for _, cl := range c.Ensures {
		fml, err := env.formula(cl)
		if err != nil {
			continue
		}
		e.assume(e.curReach, fml)
	}
	if c.PostHook != nil {
		for _, nf := range c.PostHook(e, args, results, pre, e.cur) {
			e.assume(e.curReach, nf.Formula)
		}
	}
	e.setResult(res, results)
}

// obligeKeep emits an obligation and assumes it afterwards.
func (e *FuncEnc) obligeKeep(class, detail, formula string, pos token.Pos) {
	e.oblige(class, detail, formula, pos)
	e.assume(e.curReach, formula)
}

func (e *FuncEnc) encodeBuiltin(in ssa.Instruction, b *ssa.Builtin, c *ssa.CallCommon, args []string, res ssa.Value) {
	switch b.Name() {
	case "len", "cap":
		x := c.Args[0]
		switch t := x.Type().Underlying().(type) {
		case *types.Basic:
			e.val[res] = e.define("len", "Int", sx("slen", args[0]))
		case *types.Slice:
			if b.Name() == "len" {
				e.val[res] = e.define("len", "Int", sx("sl_len", args[0]))
			} else {
				e.val[res] = e.define("cap", "Int", sx("sl_cap", args[0]))
			}
		case *types.Map:
			_, hk, _, hs, ks, _ := e.mapKeys(t)
			f := e.D.MapLen(ks)
			v := sx(f, sx("select", e.heapName(e.cur, hk, hs), args[0]))
			e.val[res] = e.define("len", "Int", ite(eq(args[0], "0"), "0", v))
		case *types.Array:
			e.val[res] = itoa(t.Len())
		case *types.Pointer:
			if at, ok := t.Elem().Underlying().(*types.Array); ok {
				e.val[res] = itoa(at.Len())
			} else {
				e.havocVal(res)
			}
		default:
			e.havocVal(res)
			e.assume("true", sx(">=", e.val[res], "0"))
		}
	case "append":
		e.encodeAppend(in, c, args, res)
	case "copy":
		// copy(dst, src): havoc dst element heap
		if st, ok := c.Args[0].Type().Underlying().(*types.Slice); ok {
			e.heapSorts[e.D.heapKey(st.Elem())] = e.D.heapSort(st.Elem())
			e.havocHeap(e.cur, e.D.heapKey(st.Elem()))
		}
		if res != nil {
			e.havocVal(res)
			e.assume("true", sx(">=", e.val[res], "0"))
		}
	case "delete":
		mt := c.Args[0].Type().Underlying().(*types.Map)
		_, hk, _, hs, _, _ := e.mapKeys(mt)
		hh := e.heapName(e.cur, hk, hs)
		m, k := args[0], args[1]
		e.setHeap(e.cur, hk, hs, ite(eq(m, "0"), hh, sx("store", hh, m, sx("store", sx("select", hh, m), k, "false"))))
	case "print", "println":
	case "min", "max":
		if len(args) == 2 && e.D.SortOf(res.Type()) == "Int" {
			op := "<="
			if b.Name() == "max" {
				op = ">="
			}
			e.setVal(res, "Int", ite(sx(op, args[0], args[1]), args[0], args[1]))
		} else {
			e.havocVal(res)
		}
	case "recover":
		e.abstracted(in, "recover")
		e.havocVal(res)
	default:
		if res != nil {
			e.havocVal(res)
		}
	}
}

func (e *FuncEnc) encodeAppend(in ssa.Instruction, c *ssa.CallCommon, args []string, res ssa.Value) {
	s, t := args[0], args[1]
	st, ok := c.Args[0].Type().Underlying().(*types.Slice)
	if !ok {
		e.havocVal(res)
		return
	}
	var tlen string
	if _, isStr := c.Args[1].Type().Underlying().(*types.Basic); isStr {
		tlen = sx("slen", t) // append([]byte, string...)
	} else {
		tlen = sx("sl_len", t)
	}
	r := e.newSym("append", "Slice")
	e.allocIdx++
	newLen := sx("+", sx("sl_len", s), tlen)
	e.assume("true", and(
		eq(sx("sl_len", r), newLen),
		sx(">=", sx("sl_cap", r), sx("sl_len", r)),
		sx(">=", sx("sl_off", r), "0"),
		// either in place, or a fresh array (only when something was added)
		or(and(eq(sx("sl_base", r), sx("sl_base", s)), eq(sx("sl_off", r), sx("sl_off", s)), not(eq(sx("sl_base", s), "0"))),
			and(sx(">", sx("sl_base", r), "0"), eq(sx("akind", sx("sl_base", r)), "0"), eq(sx("atime", sx("sl_base", r)), fmt.Sprintf("(+ T0 %d)", e.allocIdx)), eq(sx("sl_off", r), "0")),
			and(eq(tlen, "0"), eq(r, s))),
	))
	e.val[res] = r
	// element heaps
	et := st.Elem()
	leaves := e.leaves(et, func(b string) string { return b }, 0)
	for _, lf := range leaves {
		sortH := e.heapSorts[lf.key]
		old := e.heapName(e.cur, lf.key, sortH)
		nu := e.newSym(lf.key, sortH)
		e.cur.heaps[lf.key] = nu
		rb, ro := sx("sl_base", r), sx("sl_off", r)
		sb, so := sx("sl_base", s), sx("sl_off", s)
		// frame: cells outside the result's array are unchanged; old cells of s are unchanged
		cellR := func(i string) string { return lf.addr(sx("elem", rb, sx("+", ro, i))) }
		cellS := func(i string) string { return lf.addr(sx("elem", sb, sx("+", so, i))) }
		e.emit(fmt.Sprintf("(assert (forall ((i Int)) (! (=> (and (<= 0 i) (< i (sl_len %s))) (= (select %s %s) (select %s %s))) :pattern ((select %s %s)))))", s, nu, cellR("i"), old, cellS("i"), nu, cellR("i")))
		if _, isStr := c.Args[1].Type().Underlying().(*types.Basic); !isStr {
			tb, to := sx("sl_base", t), sx("sl_off", t)
			cellT := lf.addr(sx("elem", tb, sx("+", to, "j")))
			cellRJ := lf.addr(sx("elem", rb, sx("+", ro, sx("+", sx("sl_len", s), "j"))))
			e.emit(fmt.Sprintf("(assert (forall ((j Int)) (! (=> (and (<= 0 j) (< j %s)) (= (select %s %s) (select %s %s))) :pattern ((select %s %s)))))", tlen, nu, cellRJ, old, cellT, nu, cellRJ))
			// direct instance for single-element appends
			e.emit(fmt.Sprintf("(assert (=> (>= %s 1) (= (select %s %s) (select %s %s))))", tlen, nu, strings.ReplaceAll(cellRJ, " j)", " 0)"), old, strings.ReplaceAll(cellT, " j)", " 0)")))
		}
		// the same two facts keyed by the cell address (no arithmetic in the trigger): a cell of the
		// result array below / at or above the old length holds the old element / the appended one
		{
			ra := lf.root("a")
			idx := sx("elem_idx", ra)
			inR := and(eq(sx("akind", ra), "1"), eq(sx("elem_base", ra), rb), eq("a", lf.addr(sx("elem", rb, idx))))
			oldCell := lf.addr(sx("elem", sb, sx("+", so, sx("-", idx, ro))))
			e.emit(fmt.Sprintf("(assert (forall ((a Int)) (! (=> (and %s (<= %s %s) (< %s (+ %s (sl_len %s)))) (= (select %s a) (select %s %s))) :pattern ((select %s a)))))", inR, ro, idx, idx, ro, s, nu, old, oldCell, nu))
			if _, isStr := c.Args[1].Type().Underlying().(*types.Basic); !isStr {
				tb, to := sx("sl_base", t), sx("sl_off", t)
				srcCell := lf.addr(sx("elem", tb, sx("+", to, sx("-", idx, sx("+", ro, sx("sl_len", s))))))
				e.emit(fmt.Sprintf("(assert (forall ((a Int)) (! (=> (and %s (<= (+ %s (sl_len %s)) %s) (< %s (+ %s (sl_len %s) %s))) (= (select %s a) (select %s %s))) :pattern ((select %s a)))))", inR, ro, s, idx, idx, ro, s, tlen, nu, old, srcCell, nu))
			}
		}
		// everything that is not an element cell of the result array is unchanged
		// (precisely: unless a is this very leaf of an element of the result array; other leaves
		// of the same elements living in the same heap are written by their own step)
		{
			ra := lf.root("a")
			isCell := and(eq("a", lf.addr(ra)), eq(sx("akind", ra), "1"), eq(sx("elem_base", ra), rb))
			e.emit(fmt.Sprintf("(assert (forall ((a Int)) (! (=> (not %s) (= (select %s a) (select %s a))) :pattern ((select %s a)))))", isCell, nu, old, nu))
		}
		e.preservePrivate(lf.key, old, nu)
	}
}

// inlinable: a single-block leaf function (no loops, no calls except builtins
// and library models) of at most 24 instructions.
func inlinable(f *ssa.Function) bool {
	if len(f.Blocks) != 1 || len(f.Blocks[0].Instrs) > 24 || f.Recover != nil {
		return false
	}
	for _, in := range f.Blocks[0].Instrs {
		switch x := in.(type) {
		case *ssa.Call:
			if _, ok := x.Call.Value.(*ssa.Builtin); !ok {
				return false
			}
		case *ssa.Defer, *ssa.Go, *ssa.MakeClosure, *ssa.Panic, *ssa.RunDefers:
			return false
		}
	}
	return true
}

// inlineCall symbolically executes the callee's single block in place
// (Boogie-style {:inline}); its safety obligations become the caller's.
func (e *FuncEnc) inlineCall(f *ssa.Function, bindings []ssa.Value, args []string, res ssa.Value) {
	e.inlineDepth++
	defer func() { e.inlineDepth-- }()
	for i, p := range f.Params {
		if i < len(args) {
			e.val[p] = args[i]
		}
	}
	for i, fv := range f.FreeVars {
		if i < len(bindings) {
			e.val[fv] = e.v(bindings[i])
		}
	}
	for _, in := range f.Blocks[0].Instrs {
		if ret, ok := in.(*ssa.Return); ok {
			var rs []string
			for _, r := range ret.Results {
				rs = append(rs, e.v(r))
			}
			e.setResult(res, rs)
			return
		}
		e.encodeInstr(in)
	}
}

const projPrelude = `(declare-sort Head 0)
(declare-sort RBody 0)
(declare-fun respHead (Trace) Head)
(declare-fun respBody (Trace) RBody)
(declare-fun head_add (Head Str Str) Head)
(declare-fun head_set (Head Str Str) Head)
(declare-fun head_addall (Head Str GSeq) Head)
(declare-fun head_wh (Head Int) Head)
(declare-fun body_json (RBody Iface) RBody)
(declare-fun body_copy (RBody Iface) RBody)
(declare-fun body_write (RBody Str) RBody)
(declare-fun slice_text (Slice) Str)
(declare-sort RCore 0)
(declare-fun respCore (Trace) RCore)
(declare-fun core_ct (RCore Str) RCore)
(declare-fun core_wh (RCore Int) RCore)`

func (e *FuncEnc) needProjections() {
	e.D.needSeq()
	e.D.add("proj-prelude", projPrelude)
}

// declareProjections: how an event changes the header view (respHead) and the
// body view (respBody) of the response being written.
func (e *FuncEnc) declareProjections(name, fn string, bs, as, sorts []string, ev string) {
	e.needProjections()
	name = strings.ReplaceAll(name, "emitted.", "")
	head, body, core := "(respHead t)", "(respBody t)", "(respCore t)"
	switch {
	case name == "(net/http.Header).Set" && len(as) == 3:
		core = fmt.Sprintf("(ite (= %s %s) (core_ct (respCore t) %s) (respCore t))", as[1], e.D.Lit("Content-Type"), as[2])
	case name == "http.ResponseWriter.WriteHeader" && len(as) == 2:
		core = fmt.Sprintf("(core_wh (respCore t) %s)", as[1])
	}
	switch {
	case name == "(net/http.Header).Add" && len(as) == 3:
		head = fmt.Sprintf("(head_add (respHead t) %s %s)", as[1], as[2])
	case name == "(net/http.Header).Set" && len(as) == 3:
		head = fmt.Sprintf("(head_set (respHead t) %s %s)", as[1], as[2])
	case name == "http.ResponseWriter.WriteHeader" && len(as) == 2:
		head = fmt.Sprintf("(head_wh (respHead t) %s)", as[1])
	case name == "writeJSON" && len(as) >= 2 && sorts[1] == "Iface":
		body = fmt.Sprintf("(body_json (respBody t) %s)", as[1])
	case name == "io.Copy" && len(as) == 2 && sorts[1] == "Iface":
		body = fmt.Sprintf("(body_copy (respBody t) %s)", as[1])
	case (name == "http.ResponseWriter.Write" || name == "io.Writer.Write") && len(as) == 2 && sorts[1] == "Slice":
		// the text written: known for slices made from a string (slice_text axiom)
		body = fmt.Sprintf("(body_write (respBody t) (slice_text %s))", as[1])
	case name == "io.WriteString" && len(as) == 2 && sorts[1] == "Str":
		body = fmt.Sprintf("(body_write (respBody t) %s)", as[1])
	}
	q := strings.Join(bs, " ")
	e.D.Axiom("proj:"+fn, fmt.Sprintf("(forall ((t Trace) %s) (! (and (= (respHead (tr_cons t %s)) %s) (= (respBody (tr_cons t %s)) %s) (= (respCore (tr_cons t %s)) %s)) :pattern ((tr_cons t %s))))", q, ev, head, ev, body, ev, core, ev))
}
