package vc

import (
	"bytes"
	"encoding/json"
	"fmt"
	"net/url"
	"os"
	"os/exec"
	"path/filepath"
	"strconv"
	"strings"
	"time"

	"golang.org/x/tools/go/ssa"
)

// Replay search for C04 / C05: when an obligation of new<Op>Params fails, the
// real emitted parser is run on requests generated from the reference reading
// of the operation (all parameters well-formed; then one fault at a time: a
// required parameter dropped, a value outside the lexical space of its type, a
// scalar repeated) and its verdict / parsed values are compared with what the
// reference computes with the standard library. A disagreement is the replay.
// Witness finder only: never counted as proof.

type paramCase struct {
	What    string              `json:"what"`
	Method  string              `json:"method"`
	URL     string              `json:"url"`
	Headers map[string][]string `json:"headers"`
	Reject  bool                `json:"reject"`
	Names   []string            `json:"names"`  // one of these must appear in the error text
	Values  map[string]string   `json:"values"` // "<In>:<name>" -> printed value (accept cases)
}

const paramsReplayTest = `package emitted

import (
	"encoding/json"
	"fmt"
	"net/http/httptest"
	"os"
	"reflect"
	"strings"
	"testing"
	"time"
)

type zzPCase struct {
	What    string              ` + "`json:\"what\"`" + `
	Method  string              ` + "`json:\"method\"`" + `
	URL     string              ` + "`json:\"url\"`" + `
	Headers map[string][]string ` + "`json:\"headers\"`" + `
	Reject  bool                ` + "`json:\"reject\"`" + `
	Names   []string            ` + "`json:\"names\"`" + `
	Values  map[string]string   ` + "`json:\"values\"`" + `
}

func zzNorm(s string) string {
	var b strings.Builder
	for _, r := range strings.ToLower(s) {
		if (r >= 'a' && r <= 'z') || (r >= '0' && r <= '9') {
			b.WriteRune(r)
		}
	}
	return b.String()
}

func zzPrint(v reflect.Value) (string, bool) {
	if v.Kind() == reflect.Struct && v.NumField() == 2 && v.FieldByName("IsSet").IsValid() {
		if !v.FieldByName("IsSet").Bool() {
			return "", false
		}
		return zzPrint(v.FieldByName("Value"))
	}
	if t, ok := v.Interface().(time.Time); ok {
		return t.Format(time.RFC3339Nano), true
	}
	if v.Kind() == reflect.Slice {
		var parts []string
		for i := 0; i < v.Len(); i++ {
			s, _ := zzPrint(v.Index(i))
			parts = append(parts, s)
		}
		return "[" + strings.Join(parts, " ") + "]", true
	}
	return fmt.Sprint(v.Interface()), true
}

func TestZZParams(t *testing.T) {
	data, _ := os.ReadFile(os.Getenv("ZZ_CASES"))
	var cases []zzPCase
	_ = json.Unmarshal(data, &cases)
	for _, c := range cases {
		req := httptest.NewRequest(c.Method, c.URL, nil)
		for k, vs := range c.Headers {
			for _, v := range vs {
				req.Header.Add(k, v)
			}
		}
		params, err := ZZ_FUNC(req)
		switch {
		case c.Reject && err == nil:
			fmt.Printf("ZZ-FAIL malformed request accepted (%s)\nrequest: %s %s %v\nparsed: %+v\n", c.What, c.Method, c.URL, c.Headers, params)
			return
		case !c.Reject && err != nil:
			fmt.Printf("ZZ-FAIL well-formed request rejected (%s): %v\nrequest: %s %s %v\n", c.What, err, c.Method, c.URL, c.Headers)
			return
		case c.Reject:
			named := len(c.Names) == 0
			for _, n := range c.Names {
				if strings.Contains(err.Error(), n) {
					named = true
				}
			}
			if !named {
				fmt.Printf("ZZ-FAIL the error does not name the parameter (%s): %v\nrequest: %s %s %v\n", c.What, err, c.Method, c.URL, c.Headers)
				return
			}
		default:
			pv := reflect.ValueOf(params)
			for key, want := range c.Values {
				in, name, _ := strings.Cut(key, ":")
				sec := map[string]string{"query": "Query", "header": "Headers", "path": "Path"}[in]
				sv := pv.FieldByName(sec)
				if !sv.IsValid() {
					fmt.Printf("ZZ-FAIL no %s section for parameter %s\n", sec, name)
					return
				}
				var fv reflect.Value
				for i := 0; i < sv.NumField(); i++ {
					if zzNorm(sv.Type().Field(i).Name) == zzNorm(name) {
						fv = sv.Field(i)
					}
				}
				if !fv.IsValid() {
					fmt.Printf("ZZ-FAIL no field for parameter %s\n", name)
					return
				}
				got, set := zzPrint(fv)
				if want == "<unset>" {
					if set {
						fmt.Printf("ZZ-FAIL absent optional parameter %s is set to %q (%s)\nrequest: %s %s %v\n", name, got, c.What, c.Method, c.URL, c.Headers)
						return
					}
					continue
				}
				if !set || got != want {
					fmt.Printf("ZZ-FAIL parameter %s parsed as %q (set=%v), the request carries %q (%s)\nrequest: %s %s %v\n", name, got, set, want, c.What, c.Method, c.URL, c.Headers)
					return
				}
			}
		}
	}
	fmt.Println("ZZ-OK", len(cases))
}
`

// sample lexical forms per type: (valid text, printed value), invalid text
func paramSamples(p RefParam) (valid [][2]string, invalid []string) {
	switch p.Type {
	case "integer":
		bits := 0
		switch p.Format {
		case "int32":
			bits = 32
		case "int64":
			bits = 64
		}
		for _, s := range []string{"7", "-12", "2147483647"} {
			if v, err := strconv.ParseInt(s, 10, bits); err == nil {
				valid = append(valid, [2]string{s, fmt.Sprint(v)})
			}
		}
		invalid = []string{"x1", "1.5", ""}
		if bits == 32 {
			invalid = append(invalid, "99999999999")
		}
	case "number":
		bits := 64
		if p.Format == "float" {
			bits = 32
		}
		for _, s := range []string{"1.5", "-0.25", "3"} {
			if v, err := strconv.ParseFloat(s, bits); err == nil {
				if bits == 32 {
					valid = append(valid, [2]string{s, fmt.Sprint(float32(v))})
				} else {
					valid = append(valid, [2]string{s, fmt.Sprint(v)})
				}
			}
		}
		invalid = []string{"1.5x", "abc"}
		if bits == 32 {
			invalid = append(invalid, "1e39") // out of the float32 range
			valid = append(valid, [2]string{"0.1", fmt.Sprint(float32(0.1))})
		}
	case "boolean":
		valid = [][2]string{{"true", "true"}, {"false", "false"}}
		invalid = []string{"maybe", "yes!"}
	case "string":
		if p.Format == "date-time" {
			for _, s := range []string{"2020-01-02T03:04:05Z", "2021-12-31T23:59:59.123456789+02:00"} {
				if v, err := time.Parse(time.RFC3339Nano, s); err == nil {
					valid = append(valid, [2]string{s, v.Format(time.RFC3339Nano)})
				}
			}
			invalid = []string{"yesterday", "2020-13-45"}
		} else {
			valid = [][2]string{{"abc", "abc"}, {"a b", "a b"}, {"é/ü", "é/ü"}}
		}
	}
	return
}

func (pf *ParamsFamily) paramCases(op *RefOp) []paramCase {
	base := pf.Em.Ref.NormBase()
	type choice struct {
		texts []string // supplied values (nil = absent)
		print string
	}
	build := func(pick func(p RefParam) choice, what string, reject bool, names []string) paramCase {
		pc := paramCase{What: what, Method: op.Method, Headers: map[string][]string{}, Reject: reject, Names: names, Values: map[string]string{}}
		path := base
		q := url.Values{}
		segPos := 0
		for _, sg := range op.Segs {
			if !sg.IsVar {
				path += "/" + sg.Lit
				continue
			}
			segPos++
			var pp *RefParam
			for i := range op.Params {
				if op.Params[i].In == "path" && op.Params[i].Name == sg.Var {
					pp = &op.Params[i]
				}
			}
			txt := "x"
			if pp != nil {
				ch := pick(*pp)
				if len(ch.texts) > 0 {
					txt = ch.texts[0]
				}
				if !reject {
					pc.Values["path:"+pp.Name] = ch.print
				}
			}
			path += "/" + url.PathEscape(txt)
		}
		for _, p := range op.Params {
			if p.In == "path" {
				continue
			}
			ch := pick(p)
			for _, t := range ch.texts {
				if p.In == "query" {
					q.Add(p.Name, t)
				} else if p.In == "header" {
					pc.Headers[p.Name] = append(pc.Headers[p.Name], t)
				}
			}
			if !reject && (p.In == "query" || p.In == "header") {
				if len(ch.texts) == 0 {
					pc.Values[p.In+":"+p.Name] = "<unset>"
				} else {
					pc.Values[p.In+":"+p.Name] = ch.print
				}
			}
		}
		pc.URL = "http://example.test" + path
		if enc := q.Encode(); enc != "" {
			pc.URL += "?" + enc
		}
		return pc
	}
	good := func(k int) func(p RefParam) choice {
		return func(p RefParam) choice {
			vs, _ := paramSamples(p)
			if len(vs) == 0 {
				return choice{}
			}
			v := vs[k%len(vs)]
			if p.IsArray {
				w := vs[(k+1)%len(vs)]
				return choice{texts: []string{v[0], w[0]}, print: "[" + v[1] + " " + w[1] + "]"}
			}
			return choice{texts: []string{v[0]}, print: v[1]}
		}
	}
	supported := func(p RefParam) bool { vs, _ := paramSamples(p); return len(vs) > 0 }
	for _, p := range op.Params {
		if !supported(p) {
			return nil // a type outside the reference table: no search
		}
	}
	var out []paramCase
	for k := 0; k < 3; k++ {
		out = append(out, build(good(k), "all parameters well-formed", false, nil))
	}
	// optional ones absent
	out = append(out, build(func(p RefParam) choice {
		if !p.Required && p.In != "path" {
			return choice{}
		}
		return good(0)(p)
	}, "optional parameters absent", false, nil))
	for _, fp := range op.Params {
		fp := fp
		only := func(f func(p RefParam) choice) func(p RefParam) choice {
			return func(p RefParam) choice {
				if p.In == fp.In && p.Name == fp.Name {
					return f(p)
				}
				return good(0)(p)
			}
		}
		if fp.Required && fp.In != "path" {
			out = append(out, build(only(func(RefParam) choice { return choice{} }), "required "+fp.In+" parameter "+fp.Name+" absent", true, []string{fp.Name}))
		}
		_, bad := paramSamples(fp)
		for _, b := range bad {
			if b == "" && fp.In == "path" {
				continue
			}
			b := b
			out = append(out, build(only(func(p RefParam) choice { return choice{texts: []string{b}} }), fmt.Sprintf("%s parameter %s with the ill-typed value %q", fp.In, fp.Name, b), true, []string{fp.Name}))
		}
		if !fp.IsArray && fp.In != "path" {
			out = append(out, build(only(func(p RefParam) choice { g := good(0)(p); return choice{texts: append(g.texts, g.texts...)} }), "scalar "+fp.In+" parameter "+fp.Name+" repeated", true, []string{fp.Name}))
		}
	}
	return out
}

// ReplayParams runs the search for a failed obligation of fn.
func (pf *ParamsFamily) ReplayParams(cr *CheckRun, job *EmittedJob, fl *Failure, fn *ssa.Function) {
	op := pf.Fns[fn]
	if op == nil {
		return
	}
	cases := pf.paramCases(op)
	dir := job.Em.Dir
	if len(cases) == 0 {
		return
	}
	if _, err := os.Stat(dir); err != nil {
		return
	}
	replayMu.Lock()
	defer replayMu.Unlock()
	testFile, caseFile := filepath.Join(dir, "zz_params_test.go"), filepath.Join(dir, "zz_params_cases.json")
	data, _ := json.Marshal(cases)
	_ = os.WriteFile(caseFile, data, 0o644)
	_ = os.WriteFile(testFile, []byte(strings.ReplaceAll(paramsReplayTest, "ZZ_FUNC", fn.Name())), 0o644)
	defer os.Remove(testFile)
	defer os.Remove(caseFile)
	cmd := exec.Command("go", "test", "-vet=off", "-count=1", "-timeout", "60s", "-run", "TestZZParams", "-v", ".")
	cmd.Dir = dir
	cmd.Env = append(os.Environ(), "ZZ_CASES="+caseFile, "GOFLAGS=-mod=mod", "GOPROXY=off", "GOSUMDB=off", "GOTOOLCHAIN=local")
	var out bytes.Buffer
	cmd.Stdout, cmd.Stderr = &out, &out
	done := make(chan error, 1)
	go func() { done <- cmd.Run() }()
	select {
	case <-done:
	case <-time.After(90 * time.Second):
		_ = cmd.Process.Kill()
	}
	text := out.String()
	what := fmt.Sprintf("%d requests generated from the reference reading of %s %s (well-formed, and one fault at a time)", len(cases), op.Method, op.Template)
	if i := strings.Index(text, "ZZ-FAIL"); i >= 0 {
		end := i + 700
		if end > len(text) {
			end = len(text)
		}
		fl.Replay = &ReplayResult{Reproduced: true, Input: what, Expected: "well-formed requests accepted with the values they carry, malformed ones rejected naming the parameter", Observed: strings.TrimSpace(text[i:end]), Cmd: "go test (generated harness zz_params_test.go calling " + fn.Name() + ")"}
		return
	}
	obs := "no disagreeing request found"
	if !strings.Contains(text, "ZZ-OK") {
		obs = "harness did not complete: " + truncate(text, 300)
	}
	fl.Replay = &ReplayResult{Reproduced: false, Input: what, Observed: obs, Cmd: "go test (generated harness zz_params_test.go)", Bounded: strings.Contains(text, "ZZ-OK")}
}
