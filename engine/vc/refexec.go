package vc

import "strings"

// Executable form of the reference matcher (used to label replays and to
// cross-check the SMT form in the self-test). Same definitions as refRoute.

// splitSegments: "/a/b" -> ["/a","/b"]; "/a/" -> ["/a","/"]; "" -> nil.
// ok=false when the path is non-empty and does not start with '/'.
func splitSegments(p string) ([]string, bool) {
	var out []string
	for p != "" {
		if p[0] != '/' {
			return nil, false
		}
		j := strings.IndexByte(p[1:], '/')
		if j < 0 {
			out = append(out, p)
			p = ""
		} else {
			out = append(out, p[:j+1])
			p = p[j+1:]
		}
	}
	return out, true
}

type RefExecResult struct {
	Found    bool
	Cors     bool
	Op       *RefOp
	Template string
}

// RefRouteExec evaluates refRouteAt(node, path, method). corsInstalled tells
// whether rt.CORSHandler is non-nil.
func (rf *RouteFamily) RefRouteExec(node []RefSeg, isRoot bool, path, method string, corsInstalled bool) RefExecResult {
	P := path
	if isRoot {
		if B := rf.Em.Ref.NormBase(); B != "" {
			if !strings.HasPrefix(path, B) {
				return RefExecResult{}
			}
			P = path[len(B):]
		}
	}
	segs, ok := splitSegments(P)
	if !ok {
		return RefExecResult{}
	}
	for _, a := range rf.armsUnder(node) {
		if len(a.segs) != len(segs) || a.method != method {
			continue
		}
		match := true
		for i, s := range a.segs {
			if !s.IsVar && "/"+s.Lit != segs[i] {
				match = false
			}
		}
		if !match {
			continue
		}
		if a.op == nil {
			if !corsInstalled {
				return RefExecResult{}
			}
			return RefExecResult{Found: true, Cors: true, Template: a.tpl}
		}
		return RefExecResult{Found: true, Op: a.op, Template: a.tpl}
	}
	return RefExecResult{}
}
