package main

import (
	"flag"
	"fmt"
	"os"
	"path/filepath"
	"strconv"
	"strings"

	"goagvc/vc"
)

const checkerCmd = "goagvc: VCs from go/ssa (x/tools v0.29.0) of the code under contract, discharged by z3 4.8.12 (incremental, then portfolio z3 / z3-new 5.1.0 / cvc5 1.0.3)"

var commonTrusted = []string{
	"goagvc VC generator (this repository, /verif/engine) and go/ssa + go/types of x/tools v0.29.0",
	"SMT solvers z3 4.8.12, z3 5.1.0, cvc5 1.0.3 (first unsat wins)",
	"reference semantics (DESIGN.md §6) as implemented in engine/vc/refspec.go, routes.go",
	"library contracts listed under assumptions",
}

func checkCmd(args []string) int {
	fs := flag.NewFlagSet("check", flag.ExitOnError)
	prop := fs.String("prop", "", "property id")
	tier := fs.String("tier", "quick", "quick|thorough")
	repo := fs.String("repo", "/repo", "repository")
	verif := fs.String("verif", "/verif", "verif dir")
	fs.Parse(args)
	if t := os.Getenv("VERIF_TIER"); t != "" && *tier == "" {
		*tier = t
	}
	seed := int64(1)
	if s := os.Getenv("VERIF_SEED"); s != "" {
		if v, err := strconv.ParseInt(s, 10, 64); err == nil {
			seed = v
		}
	}
	cr, err := vc.NewCheckRun(*prop, *tier, seed, *repo, *verif)
	if err != nil {
		fmt.Println("ENGINE-ERROR:", err)
		return 2
	}
	corpusDir := filepath.Join(cr.Scratch, "corpus")
	relevant := map[string][]string{
		"C02": {"Response", "write"}, "C03": {"router.go"}, "C11": {"router.go"}, "C13": {"router.go", "spec_file.go"}, "C16": {"router.go"}, "C17": {"router.go"},
		"C06": {"components.go"}, "C07": {"components.go"}, "C08": {"components.go"}, "C04": {"Params", "handler.go"}, "C05": {"Params", "handler.go"}, "C14": {".go"}, "C20": {".go"},
	}
	if pats, ok := relevant[*prop]; ok {
		cr.LoadFailureRelevant = func(msg string) bool {
			for _, p := range pats {
				if strings.Contains(msg, p) {
					return true
				}
			}
			return false
		}
	}
	switch *prop {
	case "C03":
		entries := vc.RouteCorpus(corpusDir, *tier, seed)
		entries = append(entries, vc.BaseFormCorpus(corpusDir)...)
		entries = append(entries, vc.FixtureCorpus(*repo, "router", "path_wildcard", "double_wildcard", "petstore")...)
		cr.CheckBasePathSource()
		cr.CheckRoutingFamily(entries)
		return cr.Finish("proof", checkerCmd, commonTrusted, "one obligation per (emitted function, return site, clause) of the route*/ServeHTTP/splitPath contracts; all requests are quantified, programs are the enumerated corpus")
	}
	routeRule := "one obligation per (emitted function, return site or loop edge, clause) of the route*/ServeHTTP/splitPath contracts; all requests are quantified, programs are the enumerated corpus"
	switch *prop {
	case "C11":
		entries := vc.SecurityCorpus(corpusDir, *tier)
		entries = append(entries, vc.FixtureCorpus(*repo, "security_jwt", "security_jwt_apikey", "security_jwt_apikey_query", "middleware")...)
		cr.CheckRoutingFamily(entries)
		return cr.Finish("proof", checkerCmd, commonTrusted, routeRule)
	case "C16":
		entries := vc.RouteCorpus(corpusDir, "quick", seed)
		entries = append(entries, vc.CorsCorpus(corpusDir, "quick")...)
		entries = append(entries, vc.FixtureCorpus(*repo, "middleware", "security_jwt_apikey_query", "router")...)
		if *tier != "quick" {
			entries = append(entries, vc.SecurityCorpus(corpusDir, "quick")...)
			entries = append(entries, vc.RouteCorpus(corpusDir, *tier, seed)[5:]...)
		}
		cr.CheckRoutingFamily(entries)
		return cr.Finish("proof", checkerCmd, commonTrusted, routeRule)
	case "C13":
		cr.CheckQuoting()
		entries := vc.RouteCorpus(corpusDir, "quick", seed)
		entries = append(entries, vc.BaseFormCorpus(corpusDir)...)
		entries = append(entries, vc.FixtureCorpus(*repo, "router", "middleware")...)
		cr.CheckBasePathSource()
		cr.CheckRoutingFamily(entries)
		return cr.Finish("proof", checkerCmd, commonTrusted, "quoting rule obligations of encodeRawFileAsString (all file contents) + ServeHTTP/ensures#spec per corpus package (all requests)")
	case "C01":
		cr.CheckFS()
		cr.CheckCorpusCompiles(corpusDir)
		return cr.Finish("proof", checkerCmd, commonTrusted, "Layer G: ensures[C01] clauses of WriteToFile/RenderToFile (success => the written text was accepted and formatted by imports.Process), all inputs. Bounded stand-in (not counted as discharged): every corpus package generated with exit 0 must load and type-check")
	case "C12":
		cr.CheckDeterminism()
		return cr.Finish("proof", checkerCmd, append(commonTrusted, "the structural order-independence rules of engine/vc/determinism.go"), "one obligation per nondeterminism source (map range, maps.Keys, environment/clock/random read, goroutine/select) in every function reachable from the generator entry points; each map range must fit an order-independence rule")
	case "C04", "C05":
		entries := vc.FixtureCorpus(*repo, "get_params", "params", "get_query_array", "path_parameters", "components_params", "request_body", "router")
		entries = append(entries, vc.ParamCorpus(corpusDir)...)
		if *tier != "quick" {
			entries = vc.FixtureCorpus(*repo)
			entries = append(entries, vc.RouteCorpus(corpusDir, "quick", seed)...)
		}
		cr.CheckParams(entries)
		return cr.Finish("proof", checkerCmd, commonTrusted, "one obligation per (new<Op>Params return site, clause) and per array-loop invariant edge; all requests; reference parser skeleton from the spec")
	case "C02":
		entries := vc.FixtureCorpus(*repo, "response_component", "response_header", "response_default", "response_schema", "octet_stream", "components", "petstore", "get_params")
		entries = append(entries, vc.ResponseCorpus(corpusDir)...)
		if *tier != "quick" {
			entries = vc.FixtureCorpus(*repo)
			entries = append(entries, vc.ResponseCorpus(corpusDir)...)
		}
		cr.CheckResponses(entries)
		return cr.Finish("proof", checkerCmd, commonTrusted, "per operation: sealing (go/types method sets), and for every type satisfying the response interface the Write / write<Op> contracts of the documented response it serves (header view, body view of the event trace), all response values")
	case "C09":
		entries := vc.FixtureCorpus(*repo, "params", "get_params", "get_query_array", "components_params", "request_body", "path_parameters")
		entries = append(entries, vc.ParamCorpus(corpusDir)...)
		if *tier != "quick" {
			entries = vc.FixtureCorpus(*repo)
			entries = append(entries, vc.ParamCorpus(corpusDir)...)
		}
		cr.CheckClients(entries)
		// the server half of the agreement: what new<Op>Params makes of the request
		// the client assembled is stated by the C04 / C05 clauses of the same packages
		cr.AlsoProps = map[string]bool{"C04": true, "C05": true}
		cr.CheckParams(entries)
		cr.AlsoProps = nil
		return cr.Finish("proof", checkerCmd, commonTrusted, "inline assertions at the NewRequest and Do calls of every Client.<Op> (method, URL term, query map content, header operations) against the reference request assembly, and the server half on the same packages: the C04 / C05 clauses of every new<Op>Params (values equal the request's, reject only malformed); the formatter/parser inverse pairs are the wire axioms")
	case "C10":
		entries := vc.FixtureCorpus(*repo, "response_component", "response_header", "response_default", "response_schema", "octet_stream", "components", "petstore")
		entries = append(entries, vc.ResponseCorpus(corpusDir)...)
		if *tier != "quick" {
			entries = vc.FixtureCorpus(*repo)
			entries = append(entries, vc.ResponseCorpus(corpusDir)...)
		}
		cr.CheckClients(entries)
		return cr.Finish("proof", checkerCmd, commonTrusted, "one obligation per (Client.<Op> return site, clause): response kind by status code (symbolic status), undocumented codes, default code, raw bodies left open; the status-to-type binding is the one proved on the server side (C02 contracts)")
	case "C06", "C07", "C08":
		entries := vc.FixtureCorpus(*repo, "json", "schema_all_of", "nullable", "response_additional_props", "response_additional_props_with_schema", "response_schema_time", "schema_array", "schema_one_of", "request_body")
		entries = append(entries, vc.JSONCorpus(*verif)...)
		if *tier != "quick" {
			entries = vc.FixtureCorpus(*repo)
			entries = append(entries, vc.JSONCorpus(*verif)...)
		}
		if *prop != "C07" {
			// components that are references to other components and date / date-time
			// components (corpus/json/j05): the encoding side is under contract (C07);
			// the decoding of such members is not (DESIGN 0.7, limits)
			var keep, codecOnly []vc.CorpusEntry
			for _, ce := range entries {
				if strings.Contains(ce.Name, "-aliases") || strings.Contains(ce.Name, "-timelayout") {
					cr.Note("%s: member clauses checked for C07 only (decoding of alias / date-time component members is not under contract); the JSON methods of its date-time components are checked against the layout contract", ce.Name)
					codecOnly = append(codecOnly, ce)
					continue
				}
				keep = append(keep, ce)
			}
			entries = keep
			cr.CheckTimeCodecEntries(codecOnly)
		}
		cr.CheckJSON(entries)
		return cr.Finish("proof", checkerCmd, commonTrusted, "one obligation per (codec function, return site, clause) and per call-site precondition of the emitted MarshalJSON / marshalJSONInnerBody / UnmarshalJSON / unmarshalJSONInnerBody of every schema-derived type of every corpus package; all values / all documents")
	case "C14":
		entries := vc.FixtureCorpus(*repo, "get_params", "router", "security_jwt_apikey_query", "response_header", "response_component", "json", "request_body")
		if *tier != "quick" {
			entries = vc.FixtureCorpus(*repo)
			entries = append(entries, vc.RouteCorpus(corpusDir, "quick", seed)...)
			entries = append(entries, vc.SecurityCorpus(corpusDir, "quick")...)
			entries = append(entries, vc.CorsCorpus(corpusDir, "quick")...)
		}
		cr.CheckEmittedSafety(entries)
		return cr.Finish("proof", checkerCmd, commonTrusted, "one obligation per instruction that can panic and per responder clause (exactly one response) in every server-side function of every corpus package; all requests and values")
	case "C20":
		entries := vc.FixtureCorpus(*repo, "get_params", "router", "security_jwt_apikey_query", "response_header", "response_component", "json", "request_body", "middleware", "cors_default", "octet_stream")
		if *tier != "quick" {
			entries = vc.FixtureCorpus(*repo)
			entries = append(entries, vc.RouteCorpus(corpusDir, "quick", seed)...)
			entries = append(entries, vc.SecurityCorpus(corpusDir, "quick")...)
			entries = append(entries, vc.CorsCorpus(corpusDir, "quick")...)
		}
		cr.CheckIsolation(entries)
		return cr.Finish("proof", "goagvc: frame obligations over go/ssa, discharged by provenance typing of the written address (no solver involved)", commonTrusted, "one frame obligation per store / map update / delete / copy in every function (server and client side) of every corpus package: the written region must be private to the call or handed in by the caller; schedules are not explored")
	case "C15":
		cr.CheckGeneratorSafety(os.Getenv("GOAGVC_RECORD") != "")
		return cr.Finish("proof", checkerCmd, commonTrusted, "one obligation per instruction that can panic (nil dereference, nil map write, index/slice bounds, failed type assertion, explicit panic, nil func/interface call) and per thin-contract clause (requires at call sites, ensures at returns) in every function of goag, generator, specification and cmd/goag; all inputs; obligations listed in baseline/C15-unproved.json are not claimed")
	case "C18":
		entries := vc.FixtureCorpus(*repo, "components_params", "response_component", "components")
		entries = append(entries, vc.ResponseCorpus(corpusDir)[:1]...)
		entries = append(entries, vc.ParamCorpus(corpusDir)[:1]...)
		if *tier != "quick" {
			entries = vc.FixtureCorpus(*repo)
			entries = append(entries, vc.ResponseCorpus(corpusDir)...)
		}
		for _, ce := range vc.JSONCorpus(*verif) {
			// date-time components with a declared layout: the codec of the component
			// is held to the layout its inline copy uses (json-time-component)
			if strings.Contains(ce.Name, "-timelayout") {
				entries = append(entries, ce)
			}
		}
		cr.CheckTwins(entries, corpusDir)
		return cr.Finish("proof", checkerCmd, commonTrusted, "per pair ($ref spec, mechanically inlined twin): both generate, identical dereferenced contract instance, and every Layer E obligation (routing, security, params, Write, client) has the same verdict in both forms")
	case "C19":
		cr.CheckFS()
		return cr.Finish("proof", checkerCmd, commonTrusted, "one obligation per (function, return site, ensures clause) of WriteToFile / RenderToFile / Generate over the ghost file system, plus the call-graph scan for file-system writers; all pre-states and invocations are quantified")
	case "C17":
		entries := vc.CorsCorpus(corpusDir, *tier)
		entries = append(entries, vc.FixtureCorpus(*repo, "cors_default")...)
		cr.CheckRoutingFamily(entries)
		return cr.Finish("proof", checkerCmd, commonTrusted, routeRule)
	}
	fmt.Println("ENGINE-ERROR: no check for property", *prop)
	return 2
}
