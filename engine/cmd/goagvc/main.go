package main

import (
	"flag"
	"fmt"
	"os"
	"strings"

	"goagvc/vc"
)

func main() {
	if len(os.Args) > 1 && os.Args[1] == "check" {
		os.Exit(checkCmd(os.Args[2:]))
	}
	if len(os.Args) > 1 && os.Args[1] == "infer" {
		rw, err := vc.LoadRepoWorld("/repo")
		if err != nil {
			fmt.Println(err)
			os.Exit(2)
		}
		scratch, _ := os.MkdirTemp("/var/tmp", "goagvc-infer")
		defer os.RemoveAll(scratch)
		inf := vc.InferContracts(rw, scratch, 8, func(s string) { fmt.Println(s) })
		if err := vc.WriteInferred("/repo", inf); err != nil {
			fmt.Println(err)
			os.Exit(2)
		}
		return
	}
	if len(os.Args) > 1 && os.Args[1] == "crashes" {
		cr, _ := vc.NewCheckRun("C15", "quick", 1, "/repo", "/verif")
		defer cr.Cleanup()
		bin, err := vc.BuildGoag("/repo", cr.Scratch)
		if err != nil {
			fmt.Println(err)
			os.Exit(2)
		}
		vc.PrintCrashes(bin, cr)
		return
	}
	if len(os.Args) > 1 && os.Args[1] == "sweep" {
		sweepCmd(os.Args[2:])
		return
	}
	if len(os.Args) > 1 && os.Args[1] == "route" {
		routeCmd(os.Args[2:])
		return
	}
	dir := flag.String("dir", "/repo", "module dir")
	pat := flag.String("pkg", "./tests/router", "package pattern")
	only := flag.String("fn", "", "substring filter on function name")
	dump := flag.Bool("dump", false, "dump script")
	flag.Parse()
	w, err := vc.Load(*dir, "verif", *pat)
	if err != nil {
		fmt.Println("load:", err)
		os.Exit(2)
	}
	scratch, _ := os.MkdirTemp("/var/tmp", "goagvc")
	defer os.RemoveAll(scratch)
	for _, f := range w.Functions() {
		if *only != "" && !strings.Contains(f.String(), *only) {
			continue
		}
		e := &vc.FuncEnc{W: w, Fn: f, Name: f.String(), D: vc.NewDecls()}
		e.Encode()
		r := e.Verify(scratch, 10)
		report(r)
		if *dump {
			fmt.Println(e.Dump())
		}
	}
}

func report(r *vc.FuncResult) {
	np := 0
	for _, o := range r.Obls {
		if o.Status == "proved" {
			np++
		}
	}
	fmt.Printf("%-60s obls=%d proved=%d abstracted=%d %.2fs\n", r.Name, len(r.Obls), np, len(r.Abstracted), r.Secs)
	for _, o := range r.Obls {
		if o.Status != "proved" {
			fmt.Printf("    %s %s  [%s] %s\n", o.Status, o.Name, o.Pos, o.Solver)
		}
	}
	for _, a := range r.Abstracted {
		fmt.Println("    abstracted:", a)
	}
	for _, a := range r.SpecErrors {
		fmt.Println("    SPEC ERROR:", a)
	}
}

func routeCmd(args []string) {
	fs := flag.NewFlagSet("route", flag.ExitOnError)
	spec := fs.String("spec", "/repo/tests/router/openapi.yaml", "spec")
	base := fs.String("basepath", "", "base path flag")
	cors := fs.Bool("cors", false, "cors")
	dump := fs.String("dump", "", "dump script of function")
	all := fs.Bool("all", false, "all functions")
	client := fs.Bool("client", false, "generate client")
	only := fs.String("fn", "", "function filter")
	fs.Parse(args)
	scratch, _ := os.MkdirTemp("/var/tmp", "goagvc")
	if os.Getenv("GOAGVC_KEEP") == "" {
		defer os.RemoveAll(scratch)
	} else {
		fmt.Println("scratch:", scratch)
	}
	bin, err := vc.BuildGoag("/repo", scratch)
	if err != nil {
		fmt.Println(err)
		os.Exit(2)
	}
	em := vc.Generate(bin, vc.CorpusEntry{Name: "t", Spec: *spec, BasePath: *base, Cors: *cors, Client: *client}, scratch)
	em.Load()
	if em.GenErr != nil || em.LoadErr != nil {
		fmt.Println("gen:", em.GenErr, "load:", em.LoadErr)
		os.Exit(2)
	}
	cs, err := vc.ParseContractFile("/repo/generator/contracts_emitted_verif.go", "emitted")
	if err != nil {
		fmt.Println(err)
		os.Exit(2)
	}
	for _, c := range cs {
		if !strings.HasSuffix(c.Name, "*") {
			em.W.Contracts[c.Name] = c
		}
	}
	rf, err := vc.NewRouteFamily(em)
	if err != nil {
		fmt.Println(err)
		os.Exit(2)
	}
	rf.Install()
	sf := &vc.ServeHTTPFamily{Em: em, RF: rf}
	if err := sf.Install(); err != nil {
		fmt.Println(err)
	}
	for _, f := range em.W.Functions() {
		n := f.String()
		if !*all && !strings.Contains(n, "API).route") && !strings.HasSuffix(n, "splitPath") && !strings.HasSuffix(n, "API).ServeHTTP") {
			continue
		}
		if *only != "" && !strings.Contains(n, *only) {
			continue
		}
		e := &vc.FuncEnc{W: em.W, Fn: f, Name: n, D: vc.NewDecls(), Contract: em.W.ContractFor(f)}
		e.Encode()
		r := e.Verify(scratch, 10)
		report(r)
		if *dump != "" && strings.HasSuffix(n, *dump) {
			fmt.Println(e.Dump())
		}
	}
	for _, p := range rf.Problems {
		fmt.Println("PROBLEM:", p)
	}
}
