package main

import (
	"fmt"
	"os"
	"sort"
	"strings"
	"sync"

	"goagvc/vc"
)

// sweepCmd: development aid: safety sweep of the generator packages.
func sweepCmd(args []string) {
	rw, err := vc.LoadRepoWorld("/repo")
	if err != nil {
		fmt.Println(err)
		os.Exit(2)
	}
	filter := ""
	if len(args) > 0 {
		filter = args[0]
	}
	scratch, _ := os.MkdirTemp("/var/tmp", "goagvc-sweep")
	defer os.RemoveAll(scratch)
	fns := rw.W.Functions()
	type row struct {
		name          string
		obls, proved  int
		secs          float64
		fails         []string
	}
	rows := make([]row, len(fns))
	sem := make(chan struct{}, 8)
	var wg sync.WaitGroup
	for i, f := range fns {
		if filter != "" && !strings.Contains(f.String(), filter) {
			continue
		}
		i, f := i, f
		wg.Add(1)
		sem <- struct{}{}
		go func() {
			defer wg.Done()
			defer func() { <-sem }()
			defer func() {
				if r := recover(); r != nil {
					rows[i] = row{name: f.String(), fails: []string{fmt.Sprint("PANIC ", r)}}
				}
			}()
			e := &vc.FuncEnc{W: rw.W, Fn: f, Name: f.String(), D: vc.NewDecls(), Contract: rw.W.ContractFor(f)}
			e.Encode()
			r := e.Verify(scratch, 5)
			rw := row{name: f.String(), obls: len(r.Obls), secs: r.Secs}
			for _, o := range r.Obls {
				if o.Status == "proved" {
					rw.proved++
				} else {
					rw.fails = append(rw.fails, o.Status+" "+o.Name[len(f.String()):]+" "+o.Pos.String())
				}
			}
			for _, a := range r.Abstracted {
				rw.fails = append(rw.fails, "abstracted "+a)
			}
			rows[i] = rw
		}()
	}
	wg.Wait()
	sort.Slice(rows, func(i, j int) bool { return rows[i].name < rows[j].name })
	to, tp := 0, 0
	for _, r := range rows {
		if r.name == "" {
			continue
		}
		to += r.obls
		tp += r.proved
		if len(r.fails) > 0 || filter != "" {
			fmt.Printf("%s obls=%d proved=%d %.1fs\n", r.name, r.obls, r.proved, r.secs)
			for _, f := range r.fails {
				fmt.Println("    ", f)
			}
		}
	}
	fmt.Printf("TOTAL functions=%d obligations=%d proved=%d\n", len(fns), to, tp)
}
