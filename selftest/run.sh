#!/bin/sh
# selftest/run.sh [filter]: must-fail corpus.  Every patch below breaks the named
# property while /repo still compiles and passes its tests; the named check must
# exit 1 with a VIOLATION line.  Also: the unchanged tree must be quiet.
# Development aid only (it edits /repo's working tree and restores it); never a registered command.
cd /verif
git -C /repo diff --quiet || { echo "/repo dirty"; exit 2; }
filter="${1:-.}"
fail=0
run() { # patch property [tier]
  p="/verif/$1"; prop="$2"; tier="${3:-quick}"
  echo "$p" | grep -q "$filter" || return
  git -C /repo apply "$p" 2>/dev/null || git -C /repo apply --3way "$p" 2>/dev/null || { echo "SELFTEST-ERROR cannot apply $p"; fail=1; return; }
  cp evidence/$prop.json /tmp/selftest.ev.bak 2>/dev/null
  ./check $prop $tier > /tmp/selftest.log 2>&1; code=$?
  cp /tmp/selftest.ev.bak evidence/$prop.json 2>/dev/null; rm -rf replay/$prop
  git -C /repo reset -q --hard HEAD; git -C /repo clean -fdq
  n=$(grep -c "^VIOLATION property=$prop" /tmp/selftest.log)
  if [ $code -eq 1 ] && [ "$n" -gt 0 ]; then echo "ok   $prop caught $(basename $(dirname $p))/$(basename $p) ($n violation lines)"
  else echo "MISS $prop exit=$code violations=$n  $p"; fail=1; fi
}
while read p prop tier; do [ -n "$p" ] && run "$p" "$prop" $tier; done <<LIST
selftest/mutants/F1-reintroduce.patch C01
selftest/mutants/F2-reintroduce.patch C02
selftest/mutants/F3-reintroduce.patch C03
selftest/mutants/F4-reintroduce.patch C03
selftest/mutants/F8-reintroduce.patch C11
selftest/mutants/F11-reintroduce.patch C14
selftest/mutants/F14-reintroduce.patch C13
selftest/mutants/F15-F16-reintroduce.patch C15
selftest/mutants/F17-reintroduce.patch C15 thorough
selftest/mutants/det-b6f0300-reintroduce.patch C12
selftest/mutants/det-cf8079e-reintroduce.patch C12
selftest/mutants/det-e43aaab-reintroduce.patch C12
selftest/mutants/C18-ref-multivalue.patch C18
selftest/mutants/F19-reintroduce.patch C01
selftest/mutants/F20-reintroduce.patch C03 thorough
selftest/mutants/F21-reintroduce.patch C01
selftest/mutants/F22-reintroduce.patch C01
selftest/mutants/F23-reintroduce.patch C07
selftest/mutants/F24-reintroduce.patch C07
selftest/mutants/F24b-reintroduce.patch C18 thorough
selftest/mutants/F25-reintroduce.patch C07
selftest/mutants/F27-reintroduce.patch C02
selftest/mutants/F28-reintroduce.patch C08
seeded/C15-c/patch.diff C15
seeded/C19-c/patch.diff C19
seeded/C11-c/patch.diff C11
seeded/C02-c/patch.diff C02
seeded/C08-c/patch.diff C08
seeded/C20-c/patch.diff C20
seeded/C03-c/patch.diff C03
seeded/C10-c/patch.diff C10
seeded/C04-c/patch.diff C04
seeded/C05-c/patch.diff C05
seeded/C09-c/patch.diff C09
seeded/C12-c/patch.diff C12
seeded/C13-c/patch.diff C13
seeded/C14-c/patch.diff C14
seeded/C16-c/patch.diff C16
seeded/C17-c/patch.diff C17
selftest/mutants/F29-reintroduce.patch C15
selftest/mutants/F30-reintroduce.patch C08
selftest/mutants/F30-reintroduce.patch C07
seeded/C02-d/patch.diff C02
seeded/C08-d/patch.diff C08
seeded/C09-d/patch.diff C04
seeded/C09-d/patch.diff C09
seeded/C14-d/patch.diff C14
seeded/C18-d/patch.diff C18
seeded/C18-d/patch.diff C07
seeded/C18-c/patch.diff C18
seeded/C06-c/patch.diff C06
seeded/C07-c/patch.diff C07
seeded/C01-a/patch.diff C01
seeded/C02-a/patch.diff C02
seeded/C03-a/patch.diff C03
seeded/C04-a/patch.diff C04
seeded/C05-a/patch.diff C05
seeded/C10-a/patch.diff C10
seeded/C11-a/patch.diff C11
seeded/C12-a/patch.diff C12
seeded/C13-a/patch.diff C13
seeded/C14-a/patch.diff C14
seeded/C15-a/patch.diff C15
seeded/C16-a/patch.diff C16
seeded/C17-a/patch.diff C17
seeded/C19-a/patch.diff C19
seeded/C20-a/patch.diff C20
seeded/C06-a/patch.diff C06
seeded/C06-a/patch.diff C08
seeded/C06-b/patch.diff C06
seeded/C07-a/patch.diff C07
seeded/C08-a/patch.diff C08
seeded/C09-a/patch.diff C09
seeded/C18-a/patch.diff C18
seeded/C02-b/patch.diff C02
seeded/C03-b/patch.diff C03
seeded/C04-b/patch.diff C04
seeded/C10-b/patch.diff C10
seeded/C11-b/patch.diff C11
seeded/C13-b/patch.diff C13
seeded/C14-b/patch.diff C14
seeded/C16-b/patch.diff C16
seeded/C01-b/patch.diff C01
seeded/C05-b/patch.diff C05
seeded/C12-b/patch.diff C12
seeded/C15-b/patch.diff C15
seeded/C17-b/patch.diff C17
seeded/C19-b/patch.diff C19
seeded/C20-b/patch.diff C20
seeded/C07-b/patch.diff C07
seeded/C08-b/patch.diff C08
selftest/mutants/F5-reintroduce.patch C06
selftest/mutants/F6-reintroduce.patch C06
LIST
rm -f /tmp/selftest.log /tmp/selftest.ev.bak
[ $fail -eq 0 ] && echo "SELFTEST ok" || echo "SELFTEST FAILED"
exit $fail
