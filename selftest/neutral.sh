#!/bin/sh
# Must-stay-quiet corpus: behaviour-preserving rewrites of goag (neutral/<id>/patch.diff,
# produced by independent sub-agents that saw nothing of /verif). Each is applied to
# /repo, every quick check is run, and the tree is restored. Any VIOLATION line or
# non-zero exit is a false alarm of the machinery.
#   selftest/neutral.sh [id ...]        (default: all)
# /repo must be clean (committed) before this runs: it is reset afterwards.
set -u
cd "$(dirname "$0")/.."
V=$(pwd)
ids="$*"
[ -n "$ids" ] || ids=$(ls neutral)
props="C01 C02 C03 C04 C05 C06 C07 C08 C09 C10 C11 C12 C13 C14 C15 C16 C17 C18 C19 C20"
[ -n "${NEUTRAL_PROPS:-}" ] && props="$NEUTRAL_PROPS"
bad=0
if [ -n "$(git -C /repo status --porcelain)" ]; then echo "neutral.sh: /repo is not clean"; exit 2; fi
./check setup || exit 2
for id in $ids; do
  p="$V/neutral/$id/patch.diff"
  if ! git -C /repo apply --check "$p" 2>/dev/null; then
    if ! git -C /repo apply --3way --check "$p" 2>/dev/null; then echo "skip $id (patch does not apply to the current tree)"; continue; fi
  fi
  git -C /repo apply "$p" 2>/dev/null || { git -C /repo apply --3way "$p" >/dev/null 2>&1; git -C /repo reset -q; }
  quiet=0; loud=0
  for pr in $props; do
    out=$(./check $pr quick 2>&1); rc=$?
    if [ $rc -ne 0 ] || echo "$out" | grep -q "^VIOLATION"; then
      loud=$((loud+1)); bad=1
      echo "ALARM $id $pr (exit $rc)"; echo "$out" | grep "^VIOLATION\|^ENGINE" | sed 's/replay=[^ ]* //' | cut -c1-200 | head -5
    else
      quiet=$((quiet+1))
      echo "$out" | grep "^UNDECIDED" | cut -c1-160 | sed "s/^/  $id $pr: /" | head -3
    fi
  done
  echo "$id: $quiet quiet, $loud alarming"
  git -C /repo checkout -- . ; git -C /repo clean -fdq
done
git -C "$V" checkout -- evidence 2>/dev/null
rm -rf "$V/replay"/* 2>/dev/null
[ $bad -eq 0 ] && echo "NEUTRAL ok" || echo "NEUTRAL FAILED"
exit $bad
